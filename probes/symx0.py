"""Prototype shadow symbolic ints (z3 Int backed), loud on unmodelled ops."""
import z3, builtins

class Unmodelled(Exception):
    pass

def _t(x):
    if isinstance(x, SymInt):
        return x.t
    if isinstance(x, bool):
        return z3.IntVal(int(x))
    if isinstance(x, int):
        return z3.IntVal(x)
    raise Unmodelled(f'operand {type(x)}')

class SymBool:
    def __init__(self, t): self.t = t
    def __bool__(self):
        raise Unmodelled('branch on symbolic bool (prototype)')

class SymInt:
    __slots__ = ('t',)
    def __init__(self, t): self.t = t
    def __add__(s, o): return SymInt(s.t + _t(o))
    __radd__ = __add__
    def __sub__(s, o): return SymInt(s.t - _t(o))
    def __rsub__(s, o): return SymInt(_t(o) - s.t)
    def __mul__(s, o): return SymInt(s.t * _t(o))
    __rmul__ = __mul__
    def __neg__(s): return SymInt(-s.t)
    def __pos__(s): return s
    def __mod__(s, o): return SymInt(s.t % _t(o))
    def __rmod__(s, o): return SymInt(_t(o) % s.t)
    def __floordiv__(s, o): return SymInt(s.t / _t(o))  # z3 int div: floor for positive divisor
    def __lshift__(s, o):
        assert isinstance(o, int)
        return SymInt(s.t * (1 << o))
    def __rshift__(s, o):
        assert isinstance(o, int)
        return SymInt(s.t / (1 << o))
    def __and__(s, o):
        assert isinstance(o, int) and (o & (o+1)) == 0, o
        return SymInt(s.t % (o+1))
    def __eq__(s, o): return SymBool(s.t == _t(o))
    def __ne__(s, o): return SymBool(s.t != _t(o))
    def __lt__(s, o): return SymBool(s.t < _t(o))
    def __le__(s, o): return SymBool(s.t <= _t(o))
    def __gt__(s, o): return SymBool(s.t > _t(o))
    def __ge__(s, o): return SymBool(s.t >= _t(o))
    def __hash__(s): raise Unmodelled('hash of SymInt')
    def __index__(s): raise Unmodelled('index of SymInt')
    def __int__(s): raise Unmodelled('int() of SymInt')
    def __bool__(s): raise Unmodelled('bool of SymInt')
    def __repr__(s): return f'Sym({s.t})'


class _IntMeta(type):
    def __instancecheck__(cls, x):
        return builtins.isinstance(x, (builtins.int, SymInt))
    def __call__(cls, x=0, *a):
        if builtins.isinstance(x, SymInt):
            return x
        return builtins.int(x, *a)

class IntShim(metaclass=_IntMeta):
    pass

def shim_module(mod):
    mod.__dict__['int'] = IntShim
