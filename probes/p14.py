"""Probe: symbolic byte stream + chunking through the real MessageExchanger.data_received."""
import sys, time, asyncio
sys.argv = ['x', '--no-log']
import z3
import symx1
from symx1 import *
from mpyc import asyncoro
from mpyc.runtime import Party, Runtime, mpc

STREAM = z3.Array('S', z3.IntSort(), z3.IntSort())

def S(x):
    return x if isinstance(x, SymInt) else SymInt(z3.IntVal(x), x, x)

class SymBuf:
    """View (offset, length) into the symbolic stream."""
    def __init__(self, off, ln): self.off, self.ln = S(off), S(ln)
    def extend(self, other):
        assert isinstance(other, SymBuf)
        # contiguity must hold on this path
        c = Ctx.cur
        assert c.check(*c.pc, other.off.t != self.off.t + self.ln.t) == 'unsat', 'non-contiguous extend'
        self.ln = self.ln + other.ln
    def __getitem__(self, k):
        assert isinstance(k, slice) and k.step is None
        a = 0 if k.start is None else k.start
        b = self.ln if k.stop is None else k.stop
        return SymBuf(self.off + a, b - a)
    def __delitem__(self, k):
        assert isinstance(k, slice) and k.start is None and k.step is None
        self.off = self.off + k.stop; self.ln = self.ln - k.stop
    def byte(self, i): return z3.Select(STREAM, self.off.t + i)

def symlen(x):
    return x.ln if isinstance(x, SymBuf) else len(x)

FMT = {}
class SInt2(SymInt):
    __slots__ = ()
    def __format__(s, spec):
        tok = f'<{len(FMT)}>'; FMT[tok] = s; return tok
symx1.SymInt.__format__ = lambda s, spec: (FMT.setdefault(f'<{id(s)}>', s), f'<{id(s)}>')[1]
symx1.SymInt.__hash__ = lambda s: 0

class SymStruct:
    @staticmethod
    def unpack_from(fmt, data, offset=0):
        if fmt == '<qI':
            u = sum(data.byte(offset + i) * (1 << (8*i)) for i in range(8))
            pc = z3.If(u >= 2**63, u - 2**64, u)
            sz = sum(data.byte(offset + 8 + i) * (1 << (8*i)) for i in range(4))
            return SymInt(pc, -2**63, 2**63 - 1), SymInt(sz, 0, 2**32 - 1)
        assert fmt.endswith('s') and fmt[:-1] in FMT, fmt
        n = FMT[fmt[:-1]]
        return (SymBuf(data.off + offset, n),)

class IntShim2(IntShim):
    @staticmethod
    def from_bytes(data, order):
        assert order == 'little' and isinstance(data, SymBuf)
        n = data.ln
        assert n.lo == n.hi
        return SymInt(sum(data.byte(i) * (1 << (8*i)) for i in range(n.lo)), 0, 256**n.lo - 1)

asyncoro.__dict__['len'] = symlen
asyncoro.__dict__['struct'] = SymStruct
asyncoro.__dict__['int'] = IntShim2

loop = asyncio.new_event_loop()
def new_exchanger():
    rt = Runtime(0, [Party(0), Party(1)], mpc.options)
    rt._loop = loop
    mx = asyncoro.MessageExchanger(rt, 1)   # handshake done (client side: peer known)
    return mx

def observe(mx):
    ents = []
    for k, v in mx.buffers.items():
        if isinstance(v, SymBuf): ents.append((k.t, v.off.t, v.ln.t))
        else: ents.append((k.t, 'future', v.done() and (v.result().off.t, v.result().ln.t)))
    return ents, (mx.bytes.off.t, mx.bytes.ln.t)

MAXB = int(sys.argv[1]) if len(sys.argv) > 1 else 30
def fn():
    c = Ctx.cur
    L0, Lx, Ly = z3.Ints('L0 Lx Ly')
    c.solver.add(L0 >= 0, Lx >= 0, Ly >= 0, L0 + Lx + Ly <= MAXB, L0 < 12)   # leftover has no complete header... (L0<12 keeps pre-state "parsed")
    i = z3.Int('i'); c.solver.add(z3.ForAll([i], z3.And(z3.Select(STREAM, i) >= 0, z3.Select(STREAM, i) <= 255)))
    l0, lx, ly = SymInt(L0, 0, 11), SymInt(Lx, 0, MAXB), SymInt(Ly, 0, MAXB)
    try:
        return _body(l0, lx, ly)
    except AttributeError:
        raise symx1.PathAbort()   # duplicate label in stream: precondition (C09) violated

def _body(l0, lx, ly):
    # run A: two chunks
    A = new_exchanger(); A.bytes = SymBuf(0, l0)
    A.data_received(SymBuf(l0, lx)); A.data_received(SymBuf(l0 + lx, ly))
    # run B: one chunk
    B = new_exchanger(); B.bytes = SymBuf(0, l0)
    B.data_received(SymBuf(l0, lx + ly))
    return observe(A), observe(B)

t0 = time.time()
results, stats = explore(fn, max_paths=5000)
print(f'MAXB={MAXB} paths={stats["paths"]} complete={stats.get("complete")} aborted={stats["aborted"]} feas-queries={stats["queries"]} solver={stats["solver_time"]:.1f}s wall={time.time()-t0:.1f}s')
bad = 0; t1 = time.time()
L0, Lx, Ly = z3.Ints('L0 Lx Ly'); i = z3.Int('i')
for pc, ((ea, la), (eb, lb)) in results:
    s = z3.Solver(); s.set('timeout', 30000)
    s.add(L0 >= 0, Lx >= 0, Ly >= 0, L0 + Lx + Ly <= MAXB, L0 < 12)
    s.add(z3.ForAll([i], z3.And(z3.Select(STREAM, i) >= 0, z3.Select(STREAM, i) <= 255)))
    s.add(*pc)
    if len(ea) != len(eb):
        r = str(s.check());
        if r != 'unsat': bad += 1; print('different number of frames', len(ea), len(eb), r)
        continue
    goal = [la[0] == lb[0], la[1] == lb[1]]
    for (ka, oa, na), (kb, ob, nb) in zip(ea, eb):
        goal += [ka == kb, oa == ob, na == nb]
    s.add(z3.Not(z3.And(*goal)))
    r = str(s.check())
    if r != 'unsat': bad += 1; print(r)
print('goals', len(results), 'bad', bad, f'{time.time()-t1:.1f}s', 'frames per path', sorted(set(len(e[0][0]) for _, e in results)))
