"""Probe: lean per-party happens-before SMT encoding + model-following replay (single-handle granularity)."""
import sys, time, itertools, asyncio
import z3
import hb0
from hb0 import *
import simnet0

def wkey(net, wid):
    w = net.writes[wid]
    c = w['conn']; src = c.loops[w['side']].pid; dst = c.loops[1 - w['side']].pid
    seq = sum(1 for v in net.writes[:wid] if v['conn'] is c and v['side'] == w['side'])
    return (src, dst, seq)

def build(net, parties, P):
    H = {}
    for _, loop, _ in parties: H.update(loop.handles)
    HP = [h for h, d in H.items() if d['party'] == P and d['ran'] is not None and h > run_instrumented.gate_hid]
    T = {h: z3.Int(f'T{h}') for h in HP}
    E = {h: z3.Int(f'E{h}') for h in HP if H[h]['ext'] is not None}
    cons = []
    def anc(h):
        while h is not None:
            yield h; h = H[h]['parent']
    memo = {}
    def deps(wid, depth=0):
        """handles of P that causally precede write wid (through ancestor chains of other parties)"""
        if wid in memo: return memo[wid]
        memo[wid] = out = set()
        w = net.writes[wid]
        if w['sender_hid'] is None: return out
        if w['sender'] == P:
            out.add(w['sender_hid']); return out
        for a in anc(w['sender_hid']):
            if H[a]['ext'] is not None:
                out |= deps(H[a]['ext'], depth + 1)
        return out
    for h in HP:
        d = H[h]
        cons.append(T[h] >= 0)
        if d['parent'] is not None and d['parent'] in T: cons.append(T[d['parent']] < T[h])
        if d['ext'] is not None:
            cons.append(E[h] < T[h]); cons.append(E[h] >= 0)
            for g in deps(d['ext']):
                if g in T: cons.append(T[g] < E[h])
    per_conn = {}
    for h in E:
        w = net.writes[H[h]['ext']]; per_conn.setdefault((id(w['conn']), w['side']), []).append((H[h]['ext'], h))
    for lst in per_conn.values():
        lst.sort()
        for (_, h1), (_, h2) in zip(lst, lst[1:]): cons.append(E[h1] < E[h2])
    K = 100000
    def key(h):
        d = H[h]
        if d['ext'] is not None: return E[h] * K
        if d['parent'] is None or d['parent'] not in T: return z3.IntVal(d['idx'])
        return T[d['parent']] * K + d['idx']
    for h, g in itertools.combinations(HP, 2):
        cons.append(z3.Implies(key(h) < key(g), T[h] < T[g]))
        cons.append(z3.Implies(key(g) < key(h), T[g] < T[h]))
        cons.append(T[h] != T[g])
    ev = [e for e in hb0.PCLOG if e['party'] == P]
    cands = []
    for e1, e2 in itertools.combinations(ev, 2):
        if e1['ctx'] != e2['ctx'] or e1['hid'] == e2['hid'] or e1['task'] == e2['task']: continue
        if e1['hid'] not in T or e2['hid'] not in T: continue
        if e1['hid'] in set(anc(e2['hid'])) or e2['hid'] in set(anc(e1['hid'])): continue
        cands.append((e1, e2))
    return H, HP, T, E, cons, cands


def replay(m, t, program, P, script, extra_args=(), max_steps=400000):
    """script for party P: list of 'T' or ('E', wkey). Other parties run eagerly."""
    hb0.LOG.clear(); hb0.PCLOG.clear()
    net = TNet()
    simnet0.SimLoop, saved = TLoop, simnet0.SimLoop
    try:
        parties = [load_party(i, m, t, net, extra_args) for i in range(m)]
    finally:
        simnet0.SimLoop = saved
    for i, (mpc, loop, mods) in enumerate(parties):
        instrument(i, mpc, loop, mods)
    tasks = []; gates = []; started = [False] * m
    for i, (mpc, loop, mods) in enumerate(parties):
        gate = asyncio.Event(); gates.append(gate)
        async def main(mpc=mpc, gate=gate, i=i):
            await mpc.start()
            started[i] = True
            await gate.wait()
            r = await program(mpc)
            await mpc.shutdown()
            return r
        tasks.append(loop.create_task(main()))
    # default policy until every party is connected and quiescent, then open the gates
    for _ in range(100000):
        ready = [i for i, (_, loop, _) in enumerate(parties) if loop._ready]
        if ready: parties[ready[0]][1].step(); continue
        dl = net.deliverable()
        if dl:
            c, side = min(dl, key=lambda cs: cs[0].wq[cs[1]][0]); net.deliver_write(c, side); continue
        if all(started): break
        timers = [i for i, (_, loop, _) in enumerate(parties) if loop._scheduled]
        parties[timers[0]][1].step()
    for g in gates: g.set()
    def head_to(dst):
        return [(c, side) for c in net.conns for side in (0, 1) if c.wq[side] and c.loops[1 - side].pid == dst]
    def others_quiesce():
        for _ in range(100000):
            net.process_closes()
            ready = [i for i, (_, loop, _) in enumerate(parties) if i != P and loop._ready]
            if ready: parties[ready[0]][1].step(); continue
            dl = [(c, side) for c in net.conns for side in (0, 1) if c.wq[side] and c.loops[1 - side].pid != P]
            if dl:
                c, side = min(dl, key=lambda cs: cs[0].wq[cs[1]][0]); net.deliver_write(c, side); continue
            tm = [i for i, (_, loop, _) in enumerate(parties) if i != P and loop._scheduled and not tasks[i].done()]
            if tm and not parties[P][1]._ready and not parties[P][1]._scheduled:
                parties[tm[0]][1].step(); continue
            return
    followed = 0
    for item in script:
        others_quiesce()
        if item == 'T':
            if step_one(parties[P][1]): followed += 1
        else:
            _, key = item
            hit = [(c, side) for c, side in head_to(P) if wkey(net, c.wq[side][0]) == key]
            if hit:
                net.deliver_write(*hit[0]); followed += 1
    for step in range(max_steps):
        if all(tk.done() for tk in tasks):
            return [tk.result() for tk in tasks], followed
        net.process_closes()
        ready = [i for i, (_, loop, _) in enumerate(parties) if loop._ready]
        if ready: parties[ready[0]][1].step(); continue
        dl = net.deliverable()
        if dl:
            c, side = min(dl, key=lambda cs: cs[0].wq[cs[1]][0]); net.deliver_write(c, side); continue
        timers = [i for i, (_, loop, _) in enumerate(parties) if loop._scheduled]
        if not timers: return None, followed
        parties[timers[0]][1].step()
    return None, followed


def check_program(prog, m=3, t=1, label=''):
    t0 = time.time()
    res, net, parties = run_instrumented(m, t, prog)
    assert res is not None, 'reference run deadlocked'
    print(f'[{label}] reference ok {time.time()-t0:.2f}s; writes={len(net.writes)} pc-events={len(hb0.PCLOG)}')
    pclog = list(hb0.PCLOG)
    confirmed = 0; nq = 0; tsolve = 0
    for P in range(m):
        hb0.PCLOG[:] = pclog
        H, HP, T, E, cons, cands = build(net, parties, P)
        s = z3.Solver(); s.set('timeout', 60000); s.add(*cons)
        t1 = time.time(); r0 = str(s.check()); tsolve += time.time() - t1
        print(f'  party {P}: handles={len(HP)} constraints={len(cons)} candidates={len(cands)} reference-consistent={r0} ({time.time()-t1:.1f}s)')
        for e1, e2 in cands:
            s.push(); s.add(T[e2['hid']] < T[e1['hid']])
            t1 = time.time(); r = str(s.check()); nq += 1; tsolve += time.time() - t1
            if r == 'sat':
                mdl = s.model()
                ev = []
                for h in HP:
                    ev.append((mdl.eval(T[h], model_completion=True).as_long() * 2 + 1, 'T'))
                    if h in E: ev.append((mdl.eval(E[h], model_completion=True).as_long() * 2, ('E', wkey(net, H[h]['ext']))))
                ev.sort(key=lambda x: x[0])
                s.pop()
                res2, followed = replay(m, t, prog, P, [x[1] for x in ev])
                verdict = 'DEADLOCK' if res2 is None else ('same outputs' if res2 == res else 'DIFFERENT OUTPUT')
                print(f'    {e1["coro"].split(".")[-1]}#{e1["counter"]} vs {e2["coro"].split(".")[-1]}#{e2["counter"]}: sat ({time.time()-t1:.1f}s) -> replay followed {followed}/{len(ev)}: {verdict}')
                if res2 is None or res2 != res:
                    confirmed += 1; break
            else:
                s.pop()
                if r != 'unsat': print('    ', e1['coro'], e2['coro'], r)
        if confirmed: break
    print(f'[{label}] queries={nq} solver={tsolve:.1f}s confirmed violations={confirmed}')
    return confirmed


if __name__ == '__main__':
    async def prog_mod_in_coro(mpc):
        secint = mpc.SecInt(16)
        x = mpc.input(secint(mpc.pid + 7))
        @mpc.coroutine
        async def f(a):
            await mpc.returnType(secint)
            b = await mpc.output(a * a)
            return a % 3
        r = f(x[0])
        ys = []
        for i in range(3):
            ys.append(await mpc.output(x[1] * x[2] + i))
        return await mpc.output(r), ys

    async def prog_plain(mpc):
        secint = mpc.SecInt(16)
        x = mpc.input(secint(mpc.pid + 7))
        y = x[0] * x[1] + (x[2] % 5) + (x[0] < x[1])
        @mpc.coroutine
        async def g(a):
            await mpc.returnType(secint)
            b = await mpc.output(a * a)
            return a * a + b
        r = g(x[0])
        z = await mpc.output(x[1] * x[2])
        return await mpc.output([y, r]), z

    check_program(prog_mod_in_coro, label='mod inside coroutine after await')
    if len(sys.argv) > 1: check_program(prog_plain, label='ordinary program')
