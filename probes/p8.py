import sys, time, itertools
sys.argv = ['x', '--no-log']
import z3, numpy as np
from symx1 import *
from mpyc import finfields, thresha
import mpyc.thresha as th
shim_finfields(finfields)
ctx = Ctx(); Ctx.cur = ctx
p, m, t = 2**61-1, 4, 1
F = finfields.GF(p)
rnd = {}
calls = [0]
def randbelow(n):
    calls[0] += 1
    name = f'c{calls[0]}'
    rnd[name] = (z3.Int(name), n)
    return SymInt(rnd[name][0], 0, n-1)
th.secrets = type('S', (), {'randbelow': staticmethod(randbelow)})
s = [z3.Int(f's{i}') for i in range(2)]
lst = thresha.random_split(F, [SymInt(x, 0, p-1) for x in s], t, m)
calls[0] = 0
arr = thresha.np_random_split(F, F.array(np.array([SymInt(x, 0, p-1) for x in s], dtype=object), check=False), t, m)
print(type(arr), arr.shape)
ass = [z3.And(v >= 0, v < n) for v, n in rnd.values()] + [z3.And(x >= 0, x < p) for x in s]
for i in range(m):
    for h in range(2):
        sol = z3.Solver(); sol.add(*ass)
        sol.add(lst[i][h].t != arr[i][h].t)
        print(i, h, sol.check(), end='; ')
print()
pts = [(j+1, arr[j]) for j in (0, 2)]
rec = thresha.np_recombine(F, pts)
print(type(rec), rec)
