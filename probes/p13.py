import sys, time, itertools
sys.argv = ['x', '--no-log']
import z3
import symx1
from symx1 import *
from mpyc import gfpx, gmpy
gfpx.__dict__['int'] = IntShim

def run(p, da, db):
    P = gfpx.GFpX(p)
    VARS = []
    def fn():
        def coeffs(name, d):
            out = []
            for i in range(d + 1):
                v = z3.Int(f'{name}{i}')
                Ctx.cur.solver.add(v >= 0, v < p)
                if i == d: Ctx.cur.solver.add(v != 0)   # exact degree d
                out.append(SymInt(v, 0, p - 1))
            return out
        a = coeffs('a', da); b = coeffs('b', db)
        q, r = P._divmod(a, b)
        return a, b, q, r
    t0 = time.time()
    results, stats = explore(fn, max_paths=20000)
    # oracle: a == q*b + r coefficientwise (mod p), deg r < deg b
    bad = 0
    for pc, (a, b, q, r) in results:
        n = max(len(a), len(q) + len(b) - 1, len(r))
        goal = []
        for k in range(n):
            acc = z3.IntVal(0)
            for i, qi in enumerate(q):
                j = k - i
                if 0 <= j < len(b):
                    acc = acc + (qi.t if isinstance(qi, SymInt) else qi) * b[j].t
            if k < len(r): acc = acc + (r[k].t if isinstance(r[k], SymInt) else r[k])
            ak = a[k].t if k < len(a) else z3.IntVal(0)
            goal.append((acc - ak) % p == 0)
        s = z3.Solver(); s.set('timeout', 30000)
        for nm, d in (('a', da), ('b', db)):
            for i in range(d + 1):
                v = z3.Int(f'{nm}{i}'); s.add(v >= 0, v < p)
        s.add(z3.Int(f'a{da}') != 0, z3.Int(f'b{db}') != 0)
        s.add(*pc)
        s.add(z3.Not(z3.And(*goal, len(r) < len(b))) if True else False)
        rr = str(s.check())
        if rr != 'unsat': bad += 1
    print(f'p={p} deg a={da} deg b={db}: paths={stats["paths"]} complete={stats.get("complete")} goals={len(results)} bad={bad} wall={time.time()-t0:.1f}s')

# invert stub: real Euclid on symbolic would fork; use small p so that real gmpy.invert runs via path forks
run(3, 2, 1)
run(5, 2, 1)
run(3, 3, 2)
