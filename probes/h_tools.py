import functools, itertools, operator
from typing import List
from mpyc import mpctools

def check_reduce(xs: List[str]) -> bool:
    """
    pre: 1 <= len(xs) <= 5
    post: __return__
    """
    return mpctools.reduce(operator.add, xs) == functools.reduce(operator.add, xs)

def check_accumulate_sk(xs: List[str]) -> bool:
    """
    pre: len(xs) <= 5
    post: __return__
    """
    return list(mpctools.accumulate(xs, operator.add, method='Sklansky')) == list(itertools.accumulate(xs, operator.add))

def check_accumulate_bk(xs: List[str]) -> bool:
    """
    pre: len(xs) <= 5
    post: __return__
    """
    return list(mpctools.accumulate(xs, operator.add, method='Brent-Kung')) == list(itertools.accumulate(xs, operator.add))
