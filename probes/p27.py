"""L1 sweep over configurations: (m,t) in {(2,0),(3,1),(4,1),(5,2)} x PRSS on/off for prod / in_prod / convert / lsb."""
import sys, time, os, itertools
import z3
import symx1
from symx1 import *
import simnet0
from simnet0 import *
import p16
from p16 import fresh, VARS, TABLE
import p3s

def experiment(name, L, body, expect, m, t, extra=(), cons=True):
    VARS.clear()
    async def prog(mpc):
        secint = mpc.SecInt(L)
        F = secint.field
        xi = fresh(f'x{mpc.pid}', -(1 << L-2), 1 << L-2)
        x = mpc.input(secint(F(xi)))
        y = body(mpc, x)
        own = (await mpc.gather(y)).value if cons else None
        out = await mpc.output(y, raw=True)
        return F.modulus, out.value, own, list(getattr(Ctx.cur, 'side', []))
    def fn():
        p3s._kc[0] = 0; TABLE.clear()
        res, net, parties = simnet0.run_parties(m, t, prog, extra_args=[*extra], seed=1)
        return res
    t0 = time.time()
    try:
        results, stats = explore(fn, max_paths=200)
    except Exception as e:
        print(f'{name} m={m} t={t} {list(extra)}: EXPLORE FAILED {type(e).__name__} {str(e)[:100]}'); return
    x = [VARS[f'x{i}'][0] for i in range(m)]
    t1 = time.time(); bad = 0; n = 0
    for pc, res in results:
        base = z3.Solver(); base.set('timeout', 120000)
        for nm, (v, lo, hi) in VARS.items(): base.add(v >= lo, v < hi)
        base.add(*pc)
        for pid, (p, term, own, side) in enumerate(res): base.add(*side)
        p = res[0][0]
        for pid, (_, term, own, side) in enumerate(res):
            base.push(); base.add(term.t != expect(x) % p); r = str(base.check()); n += 1; base.pop()
            if r != 'unsat': bad += 1; print(f'   party {pid} output {r}')
        if cons:
            # Lagrange consistency: share of party j (j > t) equals interpolation through parties 0..t
            F0 = None
            sh = [r[2] for r in res]
            pts = list(range(1, t + 2))
            for j in range(t + 1, m):
                xj = j + 1
                num = z3.IntVal(0)
                for a_i, xa in enumerate(pts):
                    lam_n, lam_d = 1, 1
                    for xb in pts:
                        if xb != xa: lam_n *= (xj - xb); lam_d *= (xa - xb)
                    lam = lam_n * pow(lam_d, -1, p) % p
                    num = num + lam * sh[a_i].t
                base.push(); base.add((num - sh[j].t) % p != 0); r = str(base.check()); n += 1; base.pop()
                if r != 'unsat': bad += 1; print(f'   consistency party {j} {r}')
    print(f'{name} m={m} t={t} {list(extra)}: paths={stats["paths"]} run={t1-t0:.1f}s goals={n} bad={bad} prove={time.time()-t1:.1f}s')

for (m, t) in ((2, 0), (3, 1), (4, 1), (5, 2)):
    for extra in ([], ['--no-prss']):
        experiment('prod3', 6, lambda mpc, x: mpc.prod([x[0], x[1], x[0]]), lambda x: x[0]*x[1]*x[0], m, t, extra)
        experiment('in_prod', 6, lambda mpc, x: mpc.in_prod([x[0], x[1]], [x[1], x[-1]]), lambda x: x[0]*x[1] + x[1]*x[-1], m, t, extra)
        experiment('lsb', 4, lambda mpc, x: mpc.lsb(x[0] + x[1]), lambda x: (x[0] + x[1]) % 2, m, t, extra, cons=True)
