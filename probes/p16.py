"""Glue probe: real lsb / trunc / lt at m=3 (real PRSS, output, reshare) with ideal m-party random bits."""
import sys, time, os
import z3
import symx1
from symx1 import *
import simnet0
from simnet0 import *
import p3s   # reuses patch_party (shims, randbelow/PRF/to_bytes stubs) and fresh()
from p3s import fresh, VARS, TABLE
VARS.clear()

class AwList(list):
    def __await__(self):
        return list(self)
        yield

def install_ideal_bits(mpc, mods, m, t):
    calls = [0]
    def random_bits(sftype, n, signed=False):
        field = sftype.field if issubclass(sftype, mpc.SecureObject) else sftype
        f = getattr(sftype, 'frac_length', 0) if issubclass(sftype, mpc.SecureObject) else 0
        calls[0] += 1
        key = f'{mpc._program_counter[0] & 0xffff:x}_{calls[0]}'
        out = []
        for j in range(n):
            b = fresh(f'bit_{key}_{j}', 0, 2)
            v = (2*b - 1 if signed else b)
            share = v
            for k in range(1, t + 1):
                share = share + fresh(f'bitc_{key}_{j}_{k}', 0, field.order) * (mpc.pid + 1)**k
            out.append(field(share * (1 << f)))
        if issubclass(sftype, mpc.SecureObject):
            out = [sftype(a, True) if f else sftype(a) for a in out]
        return AwList(out)
    mpc.random_bits = random_bits

orig_load = simnet0.load_party
def load_party(pid, m, t, net, extra_args=()):
    mpc, loop, mods = orig_load(pid, m, t, net, extra_args)
    install_ideal_bits(mpc, mods, m, t)
    symx1.shim_reciprocal(mods['mpyc.finfields'])
    return mpc, loop, mods
simnet0.load_party = load_party

def experiment(name, L, body, expect, m=3, t=1, extra=()):
    VARS.clear()
    async def prog(mpc):
        secint = mpc.SecInt(L)
        F = secint.field
        xi = fresh(f'x{mpc.pid}', -(1 << L-2), 1 << L-2)
        x = mpc.input(secint(F(xi)))
        y = body(mpc, x)
        out = await mpc.output(y, raw=True)
        return F.modulus, out.value, list(getattr(Ctx.cur, 'side', []))
    def fn():
        p3s._kc[0] = 0; TABLE.clear()
        res, net, parties = simnet0.run_parties(m, t, prog, extra_args=[*extra], seed=1)
        return res
    t0 = time.time()
    results, stats = explore(fn, max_paths=300)
    print(f'{name} l={L} m={m}: paths={stats["paths"]} complete={stats.get("complete")} aborted={stats["aborted"]} feas={stats["queries"]} ({stats["solver_time"]:.1f}s) wall={time.time()-t0:.1f}s')
    x = [VARS[f'x{i}'][0] for i in range(m)]
    t1 = time.time(); bad = 0; n = 0
    for pc, res in results:
        for pid, (p, term, side) in enumerate(res):
            s = z3.Solver(); s.set('timeout', 120000)
            for v, lo, hi in VARS.values(): s.add(v >= lo, v < hi)
            s.add(*pc); s.add(*side)
            s.add(term.t != expect(x) % p)
            r = str(s.check()); n += 1
            if r != 'unsat':
                bad += 1; print('   party', pid, r)
                if r == 'sat':
                    mdl = s.model()
                    print('   model:', {str(d): mdl[d] for d in mdl.decls() if not str(d).startswith(('rb_', 'fdiv', 'bitc'))})
                    print('   term value', mdl.eval(term.t), 'expected', mdl.eval(expect(x) % p), 'p', p)
                break
        if bad: break
    print(f'   goals={n} bad={bad} {time.time()-t1:.1f}s')

experiment('lsb(x0+x1)', 4, lambda mpc, x: mpc.lsb(x[0] + x[1]), lambda x: (x[0] + x[1]) % 2)
experiment('lsb(x0+x1) noprss', 4, lambda mpc, x: mpc.lsb(x[0] + x[1]), lambda x: (x[0] + x[1]) % 2, extra=['--no-prss'])
experiment('trunc-free fxp? skip', 4, lambda mpc, x: x[0] * x[1] + x[2], lambda x: x[0] * x[1] + x[2])
