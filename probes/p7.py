from simnet0 import *
import simnet0

async def prog(mpc):
    secint = mpc.SecInt(16)
    x = mpc.input(secint(mpc.pid + 7))
    @mpc.coroutine
    async def f(a):
        await mpc.returnType(secint)
        b = await mpc.output(a * a)       # network-dependent suspension inside wrapped coroutine
        return a % 3                      # no_pc coroutine mod() forks _mod from root context later
    r = f(x[0])
    # main keeps forking from the root program counter while f is in flight
    ys = []
    for i in range(6):
        ys.append(await mpc.output(x[1] * x[2] + i))
    return await mpc.output(r), ys

ok = dead = 0
for seed in range(30):
    try:
        res, net, parties = run_parties(3, 1, prog, seed=seed)
        ok += 1
        if seed < 2: print(seed, res[0])
    except RuntimeError as e:
        dead += 1
        if dead <= 3: print(seed, e)
print('ok', ok, 'deadlock', dead)
