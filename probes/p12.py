import sys, time, itertools
sys.argv = ['x', '--no-log']
import z3
from symx1 import *
from mpyc import finfields, thresha
import mpyc.thresha as th
shim_finfields(finfields)
ctx = Ctx(); Ctx.cur = ctx
def shares(F, s, m, t, tag):
    rnd = []
    def randbelow(n):
        v = z3.Int(f'{tag}{len(rnd)}'); rnd.append((v, n)); return SymInt(v, 0, n-1)
    th.secrets = type('S', (), {'randbelow': staticmethod(randbelow)})
    return thresha.random_split(F, [SymInt(s, 0, F.order-1)], t, m), rnd
for p, m, t in [(7, 3, 1), (2**61-1, 5, 2), (2**61-1, 7, 3)]:
    F = finfields.GF(p)
    s = z3.Int('s')
    A, ra = shares(F, s, m, t, 'c'); B, rb = shares(F, s, m, t, 'd')
    t0 = time.time(); n = 0
    for T in itertools.combinations(range(m), t):
        sol = z3.Solver(); sol.set('timeout', 60000)
        sol.add(s >= 0, s < p)
        for v, nn in ra + rb: sol.add(v >= 0, v < nn)
        sol.add(z3.Or(*[a[0] != b[0] for a, b in zip(ra, rb)]))
        sol.add(*[A[j][0].t == B[j][0].t for j in T])
        r = sol.check(); n += 1
        if str(r) != 'unsat': print('NOT unsat', p, m, t, T, r); break
    print(f'injectivity p={p} m={m} t={t}: {n} coalitions unsat {time.time()-t0:.2f}s; randbelow args {set(nn for _, nn in ra)} calls {len(ra)}')
