import sys, time, itertools
sys.argv = ['x']
import z3
from symx0 import *
from mpyc import finfields, thresha
import mpyc.thresha as th

shim_module(finfields)
finfields.PrimeFieldElement._mix_types = IntShim

def run(p, m, t, nsec=1):
    F = finfields.GF(p)
    rnd = []
    def randbelow(n):
        v = z3.Int(f'c{len(rnd)}')
        rnd.append((v, n))
        return SymInt(v)
    th.secrets = type('S', (), {'randbelow': staticmethod(randbelow)})
    s = [z3.Int(f's{i}') for i in range(nsec)]
    shares = thresha.random_split(F, [SymInt(x) for x in s], t, m)
    assume = [z3.And(v >= 0, v < n) for v, n in rnd] + [z3.And(x >= 0, x < p) for x in s]
    nq = 0; t0 = time.time()
    for k in (t+1, m):
        for sub in itertools.combinations(range(m), k):
            pts = [(j+1, shares[j]) for j in sub]
            rec = thresha.recombine(F, pts)
            for h in range(nsec):
                sol = z3.Solver()
                sol.add(*assume)
                sol.add(rec[h].t % p != s[h])
                r = sol.check(); nq += 1
                if str(r) != 'unsat':
                    print('NOT UNSAT', p, m, t, sub, r, sol.model() if str(r)=='sat' else '')
                    return
    print(f'p={p} m={m} t={t}: {nq} queries unsat in {time.time()-t0:.2f}s')

run(7, 3, 1)
run(101, 5, 2)
run(2**61-1, 5, 2)
run(2**127-1, 7, 3, nsec=2)
