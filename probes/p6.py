import sys, time
sys.argv = ['x', '--no-log']
import z3
from symx1 import *
import symx1
from mpyc import finfields, fingroups
shim_finfields(finfields)
ctx = Ctx(); Ctx.cur = ctx
EA = fingroups.EllipticCurve('Ed25519', 'affine')
EP = fingroups.EllipticCurve('Ed25519', 'projective')
EE = fingroups.EllipticCurve('Ed25519', 'extended')
F = EP.field; p = F.modulus
def sym(name): 
    v = z3.Int(name); return F(SymInt(v, 0, p-1)), v
x1, vx1 = sym('x1'); y1, vy1 = sym('y1'); x2, vx2 = sym('x2'); y2, vy2 = sym('y2')
z1, vz1 = sym('z1'); z2, vz2 = sym('z2')
rng = [z3.And(v >= 0, v < p) for v in (vx1, vy1, vx2, vy2, vz1, vz2)]
P1 = EP((x1*z1, y1*z1, z1), check=False); P2 = EP((x2*z2, y2*z2, z2), check=False)
Q1 = EE((x1*z1, y1*z1, z1, x1*y1*z1), check=False); Q2 = EE((x2*z2, y2*z2, z2, x2*y2*z2), check=False)
t0 = time.time()
R = EP.operation(P1, P2); S = EE.operation(Q1, Q2)
xr, yr, zr = R; xs, ys, zs, ts = S
def u(e, F=F): 
    v = e.value
    return v.cong[0].t if v.cong else v.t
for name, lhs, rhs in [('x', xr*zs, xs*zr), ('y', yr*zs, ys*zr), ('t', ts*zs, xs*ys)]:
    sol = z3.Solver(); sol.set('timeout', 120000)
    sol.add(*rng)
    sol.add((u(lhs) - u(rhs)) % p != 0)
    t1 = time.time(); r = sol.check()
    print('proj vs extended', name, r, f'{time.time()-t1:.2f}s')
# doubling vs addition in extended
D = EE.operation2(Q1); A = EE.operation(Q1, Q1)
for name, lhs, rhs in [('x', D[0]*A[2], A[0]*D[2]), ('y', D[1]*A[2], A[1]*D[2])]:
    sol = z3.Solver(); sol.set('timeout', 120000)
    sol.add(*rng); sol.add((u(lhs) - u(rhs)) % p != 0)
    t1 = time.time(); r = sol.check()
    print('ext dbl vs add', name, r, f'{time.time()-t1:.2f}s')
# vacuity: wrong identity should be sat
sol = z3.Solver(); sol.set('timeout', 60000)
sol.add(*rng); sol.add((u(xr*zs) - u(ys*zr)) % p != 0)
t1 = time.time(); r = sol.check(); print('mutated', r, f'{time.time()-t1:.2f}s')
# affine vs projective (needs inverse stub)
symx1.shim_reciprocal(finfields)
orig = finfields.PrimeFieldElement._reciprocal.__func__
def _rec(cls, a):
    if isinstance(a, SymInt):
        c = Ctx.cur; c.nfresh = getattr(c, 'nfresh', 0) + 1
        y = z3.Int(f'inv{c.nfresh}'); k = z3.Int(f'invk{c.nfresh}')
        uu = a.cong[0].t if a.cong else a.t
        side = z3.And(y > 0, y < cls.modulus, y * uu - 1 == k * cls.modulus)
        c.side = getattr(c, 'side', []) + [side]
        return SymInt(y, 1, cls.modulus - 1)
    return orig(cls, a)
finfields.PrimeFieldElement._reciprocal = classmethod(_rec)
A1 = EA((x1, y1), check=False); A2 = EA((x2, y2), check=False)
B1 = EP((x1, y1, F(1)), check=False); B2 = EP((x2, y2, F(1)), check=False)
RA = EA.operation(A1, A2); RP = EP.operation(B1, B2)
for name, lhs, rhs in [('x', RA[0]*RP[2], RP[0]), ('y', RA[1]*RP[2], RP[1])]:
    sol = z3.Solver(); sol.set('timeout', 120000)
    sol.add(*rng); sol.add(*ctx.side); sol.add((u(lhs) - u(rhs)) % p != 0)
    t1 = time.time(); r = sol.check()
    print('affine vs proj', name, r, f'{time.time()-t1:.2f}s')
