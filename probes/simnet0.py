"""Prototype: deterministic in-process m-party simulation of the real MPyC runtime.

Each party gets its own copy of the mpyc package (own module globals) and its own event loop.
A scheduler decides which party steps and which bytes are delivered.
"""
import sys, asyncio, importlib, heapq, collections, random as pyrandom
from asyncio import base_events, events


class _DummySelector:
    def __init__(self, loop): self.loop = loop
    def select(self, timeout=None):
        if timeout and timeout > 0:
            self.loop._vtime += timeout
        return []
    def close(self): pass


class SimLoop(base_events.BaseEventLoop):
    def __init__(self, net, pid):
        super().__init__()
        self._vtime = 0.0
        self._selector = _DummySelector(self)
        self.net = net
        self.pid = pid
    def time(self): return self._vtime
    def _process_events(self, event_list): pass
    def _write_to_self(self): pass
    async def create_server(self, factory, host=None, port=None, **kw):
        return self.net.listen(self, factory, port)
    async def create_connection(self, factory, host=None, port=None, **kw):
        return self.net.connect(self, factory, port)
    def has_work(self):
        return bool(self._ready) or bool(self._scheduled)
    def step(self):
        events._set_running_loop(self)
        try:
            self._run_once()
        finally:
            events._set_running_loop(None)


class SimTransport(asyncio.Transport):
    def __init__(self, net, conn, side):
        super().__init__()
        self.net, self.conn, self.side = net, conn, side
        self.closing = False
    def write(self, data):
        self.conn.queues[self.side].extend(data)
        self.conn.log[self.side].append(bytes(data))
    def writelines(self, lst):
        self.write(b''.join(lst))
    def close(self):
        if not self.closing:
            self.closing = True
            self.conn.close_requested = True
    def is_closing(self): return self.closing


class Conn:
    def __init__(self):
        self.queues = [bytearray(), bytearray()]  # side 0: client->server, side 1: server->client
        self.log = [[], []]
        self.protos = [None, None]  # protocol objects: [client, server]
        self.loops = [None, None]
        self.close_requested = False
        self.closed = False


class Server:
    def __init__(self, net, port): self.net, self.port = net, port
    def close(self): self.net.listeners.pop(self.port, None)


class Net:
    def __init__(self):
        self.listeners = {}
        self.conns = []
    def listen(self, loop, factory, port):
        self.listeners[port] = (loop, factory)
        return Server(self, port)
    def connect(self, loop, factory, port):
        if port not in self.listeners:
            raise ConnectionRefusedError(port)
        sloop, sfactory = self.listeners[port]
        c = Conn()
        cp, sp = factory(), sfactory()
        c.protos = [cp, sp]; c.loops = [loop, sloop]
        ct, st = SimTransport(self, c, 0), SimTransport(self, c, 1)
        self.conns.append(c)
        sloop.call_soon(sp.connection_made, st)
        cp.connection_made(ct)
        return ct, cp
    def deliverable(self):
        out = []
        for c in self.conns:
            for side in (0, 1):
                if c.queues[side]:
                    out.append((c, side))
        return out
    def deliver(self, c, side, n):
        data = bytes(c.queues[side][:n]); del c.queues[side][:n]
        dst = 1 - side  # side 0 data goes to server (index 1)
        c.loops[dst].call_soon(c.protos[dst].data_received, data)
    def process_closes(self):
        for c in self.conns:
            if c.close_requested and not c.closed and not c.queues[0] and not c.queues[1]:
                c.closed = True
                for i in (0, 1):
                    c.loops[i].call_soon(c.protos[i].connection_lost, None)


def load_party(pid, m, t, net, extra_args=()):
    """Import a private copy of the mpyc package for party pid."""
    saved = {k: v for k, v in sys.modules.items() if k == 'mpyc' or k.startswith('mpyc.')}
    for k in saved: del sys.modules[k]
    argv = sys.argv
    sys.argv = ['sim', f'-M{m}', f'-I{pid}', f'-T{t}', '--no-log', *extra_args]
    loop = SimLoop(net, pid)
    asyncio.set_event_loop(loop)
    try:
        rt_mod = importlib.import_module('mpyc.runtime')
        mods = {k: v for k, v in sys.modules.items() if k == 'mpyc' or k.startswith('mpyc.')}
    finally:
        sys.argv = argv
        for k in list(sys.modules):
            if k == 'mpyc' or k.startswith('mpyc.'): del sys.modules[k]
        sys.modules.update(saved)
        asyncio.set_event_loop(None)
    return rt_mod.mpc, loop, mods


def run_parties(m, t, program, extra_args=(), seed=0, max_steps=100000, chunk=None):
    net = Net()
    parties = [load_party(i, m, t, net, extra_args) for i in range(m)]
    results = [None] * m
    tasks = []
    for i, (mpc, loop, mods) in enumerate(parties):
        async def main(mpc=mpc, i=i):
            await mpc.start()
            r = await program(mpc)
            await mpc.shutdown()
            return r
        tasks.append(loop.create_task(main()))
    rng = pyrandom.Random(seed)
    for step in range(max_steps):
        if all(tk.done() for tk in tasks):
            break
        net.process_closes()
        choices = [('step', i) for i, (_, loop, _) in enumerate(parties) if loop._ready]
        choices += [('deliver', cs) for cs in net.deliverable()]
        if not choices:
            timers = [i for i, (_, loop, _) in enumerate(parties) if loop._scheduled]
            if not timers:
                run_parties.last = (net, parties, tasks)
                raise RuntimeError(f'deadlock at step {step}: ' + str([tk.done() for tk in tasks]))
            choices = [('step', i) for i in timers]
        kind, arg = rng.choice(choices)
        if kind == 'step':
            parties[arg][1].step()
        else:
            c, side = arg
            n = len(c.queues[side]) if chunk is None else rng.randint(1, min(chunk, len(c.queues[side])))
            net.deliver(c, side, n)
    else:
        raise RuntimeError('max steps')
    return [tk.result() for tk in tasks], net, parties
