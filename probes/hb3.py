import hb2, hb0, time, z3
from hb2 import *
async def prog(mpc):
    secint = mpc.SecInt(16)
    x = mpc.input(secint(mpc.pid + 7))
    @mpc.coroutine
    async def f(a):
        await mpc.returnType(secint)
        b = await mpc.output(a * a)
        return a % 3
    r = f(x[0])
    ys = []
    for i in range(3):
        ys.append(await mpc.output(x[1] * x[2] + i))
    return await mpc.output(r), ys
res, net, parties = run_instrumented(3, 1, prog)
P = 0
H, HP, T, E, cons, cands = build(net, parties, P)
# reference order script for P (no solver): must reproduce the reference run exactly
ev = []
for h in HP:
    ev.append((H[h]['ran'] * 2 + 1, 'T'))
    if h in E:
        # enqueue position: just before the handle ran? use the run index of its data_received minus epsilon
        ev.append((H[h]['ran'] * 2, ('E', wkey(net, H[h]['ext']))))
ev.sort(key=lambda x: x[0])
print('script head', [x[1] for x in ev[:25]])
res2, followed = replay(3, 1, prog, P, [x[1] for x in ev])
print('reference-order replay:', 'DEADLOCK' if res2 is None else res2[0], 'followed', followed, 'of', len(ev))
