import faulthandler
faulthandler.dump_traceback_later(300, exit=True)
from l2kit import *
import l2kit, traceback
sectypes.SecureInteger._output_conversion = staticmethod(lambda a: a.__int__())
L = 4
secint = mpc.SecInt(L); F = secint.field; p = F.modulus
class ProdObj:
    def __init__(self, e): self.e = e
mpc.prod = lambda x, start=1: ProdObj(list(x))
def is_zero_public(a):
    def z(x):
        v = x.value if hasattr(x, 'value') else x
        if v.cong is not None:
            u = v.cong[0]
            if u.lo is not None and -p < u.lo and u.hi < p: return u.t == 0
        return v.t == 0
    return asyncoro._AwaitableFuture(SymBool(z3.Or(*[z(x) for x in a.share.e])))
mpc.is_zero_public = is_zero_public
orig_init = sectypes.SecureInteger.__init__
def init(self, value=None):
    if isinstance(value, ProdObj): asyncoro.SecureObject.__init__(self, value)
    else: orig_init(self, value)
sectypes.SecureInteger.__init__ = init
B = int(os.getenv('B', '3'))
def fn():
    l2kit.rb_calls[0] = 0
    a = fresh('a', -(1 << L-1), 1 << L-1); x = secint(F(a))
    return a.t, val(x % B), sides()
t0 = time.time()
try:
    results, stats = explore(fn, max_paths=500)
    print('paths', stats, f'{time.time()-t0:.1f}s')
    prove(results, lambda r: r[1] == r[0] % B, label=f'mod {B}')
except Exception as e:
    traceback.print_exc()
    c = Ctx.cur
