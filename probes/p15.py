"""C29 probe: Batcher merge-exchange network in the real mpc._sort with ideal comparisons."""
from l2kit import *
ideal_comparisons()
L = 8
secint = mpc.SecInt(L)
F = secint.field; p = F.modulus
for n in (2, 3, 4, 5, 6, 8):
    VARS.clear()
    def fn():
        xs = [fresh(f'x{i}', -(1 << L-1), 1 << L-1) for i in range(n)]
        ys = mpc.sorted([secint(F(x)) for x in xs])
        return [x.t for x in xs], [signed(val(y), p) for y in ys], sides()
    t0 = time.time()
    results, stats = explore(fn)
    def goal(res):
        xs, ys, _ = res
        srt = z3.And(*[ys[i] <= ys[i+1] for i in range(n-1)])
        # permutation: for each input value, multiplicities agree
        perm = z3.And(*[z3.Sum([z3.If(y == x, 1, 0) for y in ys]) == z3.Sum([z3.If(x2 == x, 1, 0) for x2 in xs]) for x in xs])
        return z3.And(srt, perm)
    prove(results, goal, label=f'sorted n={n} paths={stats["paths"]} exec={time.time()-t0:.1f}s')
