import sys, time
from hb0 import *
import hb0

async def prog(mpc):
    secint = mpc.SecInt(16)
    x = mpc.input(secint(mpc.pid + 7))
    @mpc.coroutine
    async def f(a):
        await mpc.returnType(secint)
        b = await mpc.output(a * a)
        return a % 3
    r = f(x[0])
    ys = []
    for i in range(3):
        ys.append(await mpc.output(x[1] * x[2] + i))
    return await mpc.output(r), ys

res, net, parties = run_instrumented(3, 1, prog)
H = {}
for _, loop, _ in parties: H.update(loop.handles)
def chain(h):
    out = []
    while h is not None:
        out.append(h); h = H[h]['parent']
    return out
def ext_anc(h):
    for a in chain(h):
        if H[a]['ext'] is not None: return a
print('reference', res[0])
for p in range(3):
    ev = [e for e in hb0.PCLOG if e['party'] == p and e['root']]
    print('party', p, [(e['coro'].split('.')[-1], e['counter'], e['hid']) for e in ev])
    for e in ev:
        a = ext_anc(e['hid'])
        if a is not None:
            w = net.writes[H[a]['ext']]
            print('    ', e['coro'].split('.')[-1], e['counter'], 'enabled by write', w['wid'], 'from party', w['sender'], 'len', len(w['data']), 'chain length', chain(e['hid']).index(a))
for h in (184, 209):
    print('chain of', h, [(a, H[a]['name'][:30], H[a]['ext']) for a in chain(h)][:12])
for wid in (24, 26):
    w = net.writes[wid]; print('write', wid, 'sender', w['sender'], '-> party', w['conn'].loops[1 - w['side']].pid, 'len', len(w['data']), 'sender handle', w['sender_hid'], H[w['sender_hid']]['name'][:40])
# flipped replay: at party 0 deliver write 26 before 24 (others reference order)
order = [26, 24]
res2, net2, parties2 = run_instrumented(3, 1, prog, order=order, only_party=0)
print('flip replay:', 'DEADLOCK' if res2 is None else res2[0])
ev = [e for e in hb0.PCLOG if e['party'] == 0 and e['root']]
print('party0 root events after flip', [(e['coro'].split('.')[-1], e['counter']) for e in ev])
res3, net3, parties3 = run_instrumented(3, 1, prog, batch={24: 26})
print('batch replay:', 'DEADLOCK' if res3 is None else res3[0])
ev = [e for e in hb0.PCLOG if e['party'] == 0 and e['root']]
print('party0 root events after batch', [(e['coro'].split('.')[-1], e['counter']) for e in ev])
