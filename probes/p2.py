import sys, time, itertools
sys.argv = ['x']
import z3
from symx0 import *
from mpyc import finfields, thresha
import mpyc.thresha as th

shim_module(finfields)
finfields.PrimeFieldElement._mix_types = IntShim

def run(p, m, t, tactic=None, timeout=60000):
    F = finfields.GF(p)
    rnd = []
    def randbelow(n):
        v = z3.Int(f'c{len(rnd)}')
        rnd.append((v, n))
        return SymInt(v)
    th.secrets = type('S', (), {'randbelow': staticmethod(randbelow)})
    a, b = z3.Int('a'), z3.Int('b')
    sa = thresha.random_split(F, [SymInt(a)], t, m)
    sb = thresha.random_split(F, [SymInt(b)], t, m)
    # local products (degree 2t)
    c = [F(sa[i][0]) * F(sb[i][0]) for i in range(m)]
    # GRR resharing by parties 0..2t
    sub = [thresha.random_split(F, [c[i].value], t, m) for i in range(2*t+1)]
    new = []
    for j in range(m):
        pts = [(i+1, sub[i][j]) for i in range(2*t+1)]
        new.append(thresha.recombine(F, pts)[0])
    assume = [z3.And(v >= 0, v < n) for v, n in rnd] + [z3.And(x >= 0, x < p) for x in (a, b)]
    t0 = time.time(); nq = 0
    for subset in itertools.combinations(range(m), t+1):
        rec = thresha.recombine(F, [(j+1, [new[j]]) for j in subset])[0]
        sol = z3.Solver() if tactic is None else z3.Then(*tactic).solver()
        sol.set('timeout', timeout)
        sol.add(*assume)
        sol.add(rec.t % p != (a*b) % p)
        r = sol.check(); nq += 1
        print(f'  p={p} m={m} t={t} subset={subset}: {r} {time.time()-t0:.2f}s')
        if str(r) != 'unsat':
            return

run(7, 3, 1)
run(2**61-1, 3, 1)
print('m=5,t=2')
run(2**61-1, 5, 2)
run(101, 5, 2)
print('buggy: reshare by only 2t parties')
def run_bug(p, m, t):
    F = finfields.GF(p)
    rnd = []
    def randbelow(n):
        v = z3.Int(f'c{len(rnd)}'); rnd.append((v, n)); return SymInt(v)
    th.secrets = type('S', (), {'randbelow': staticmethod(randbelow)})
    a, b = z3.Int('a'), z3.Int('b')
    sa = thresha.random_split(F, [SymInt(a)], t, m)
    sb = thresha.random_split(F, [SymInt(b)], t, m)
    c = [F(sa[i][0]) * F(sb[i][0]) for i in range(m)]
    sub = [thresha.random_split(F, [c[i].value], t, m) for i in range(2*t)]
    new = []
    for j in range(m):
        pts = [(i+1, sub[i][j]) for i in range(2*t)]
        new.append(thresha.recombine(F, pts)[0])
    assume = [z3.And(v >= 0, v < n) for v, n in rnd] + [z3.And(x >= 0, x < p) for x in (a, b)]
    rec = thresha.recombine(F, [(j+1, [new[j]]) for j in range(t+1)])[0]
    sol = z3.Solver(); sol.set('timeout', 60000)
    sol.add(*assume); sol.add(rec.t % p != (a*b) % p)
    t0=time.time(); r = sol.check()
    print(r, time.time()-t0, sol.model() if str(r)=='sat' else '')
run_bug(7,3,1)
run_bug(2**61-1,3,1)
