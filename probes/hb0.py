"""Probe: happens-before SMT encoding over an instrumented reference run; replay of the model."""
import sys, asyncio, importlib, time, itertools
import z3
import simnet0
from simnet0 import *

LOG = []          # global event log
class TLoop(SimLoop):
    """SimLoop that tags every handle with id, parent handle and enqueue index."""
    hid_counter = itertools.count(1)
    def __init__(self, net, pid):
        super().__init__(net, pid)
        self.current = None
        self.handles = {}      # hid -> dict(parent, idx, ext)
        self._enq = 0
    def call_soon(self, callback, *args, context=None, ext=None):
        hid = next(TLoop.hid_counter)
        self._enq += 1
        self.handles[hid] = dict(party=self.pid, parent=self.current, idx=self._enq, ext=ext, ran=None,
                                 name=getattr(callback, '__qualname__', repr(callback))[:60])
        def run(*a):
            prev, self.current = self.current, hid
            self.handles[hid]['ran'] = len(LOG); LOG.append(('run', self.pid, hid))
            try:
                return callback(*a)
            finally:
                self.current = prev
        return super().call_soon(run, *args, context=context)


def promote_timers(loop):
    import heapq
    if loop._ready or not loop._scheduled:
        return
    loop._vtime = max(loop._vtime, loop._scheduled[0]._when)
    while loop._scheduled and loop._scheduled[0]._when <= loop._vtime:
        h = heapq.heappop(loop._scheduled); h._scheduled = False
        if not h._cancelled: loop._ready.append(h)


def step_one(loop):
    """Run exactly one ready handle (FIFO head)."""
    from asyncio import events
    promote_timers(loop)
    if not loop._ready:
        return False
    h = loop._ready.popleft()
    if h._cancelled:
        return True
    events._set_running_loop(loop)
    try:
        h._run()
    finally:
        events._set_running_loop(None)
    return True


class TTransport(SimTransport):
    def write(self, data):
        loop = self.conn.loops[self.side]           # sender's loop (side index == endpoint index)
        wid = len(self.net.writes)
        self.net.writes.append(dict(wid=wid, conn=self.conn, side=self.side, data=bytes(data), sender_hid=loop.current,
                                    sender=loop.pid))
        self.conn.wq[self.side].append(wid)
        self.conn.log[self.side].append(bytes(data))


class TNet(Net):
    def __init__(self):
        super().__init__(); self.writes = []
    def connect(self, loop, factory, port):
        if port not in self.listeners:
            raise ConnectionRefusedError(port)
        sloop, sfactory = self.listeners[port]
        c = Conn(); c.wq = [[], []]
        cp, sp = factory(), sfactory()
        c.protos = [cp, sp]; c.loops = [loop, sloop]
        ct, st = TTransport(self, c, 0), TTransport(self, c, 1)
        self.conns.append(c)
        sloop.call_soon(sp.connection_made, st)
        cp.connection_made(ct)
        return ct, cp
    def deliverable(self):
        return [(c, side) for c in self.conns for side in (0, 1) if c.wq[side]]
    def deliver_write(self, c, side):
        wid = c.wq[side].pop(0)
        w = self.writes[wid]
        dst = 1 - side
        c.loops[dst].call_soon(c.protos[dst].data_received, w['data'], ext=wid)
        return wid
    def process_closes(self):
        for c in self.conns:
            if c.close_requested and not c.closed and not c.wq[0] and not c.wq[1]:
                c.closed = True
                for i in (0, 1):
                    c.loops[i].call_soon(c.protos[i].connection_lost, None)


PCLOG = []   # (party, hid, ctx id, counter after, kind)
def instrument(pid, mpc, loop, mods):
    asyncoro = mods['mpyc.asyncoro']
    W = asyncoro._ProgramCounterWrapper
    orig = W.__init__
    def init(self, rt, coro):
        ctx = id(rt._program_counter)
        orig(self, rt, coro)
        PCLOG.append(dict(party=pid, hid=loop.current, ctx=ctx, task=id(asyncio.current_task(loop)), counter=rt._program_counter[0], kind='fork',
                          root=(rt._program_counter[1] == 0), coro=getattr(coro, '__qualname__', '?')))
    W.__init__ = init
    rt_cls = type(mpc)
    orig_uci = rt_cls._prss_uci
    def uci(self):
        ctx = id(self._program_counter)
        r = orig_uci(self)
        PCLOG.append(dict(party=pid, hid=loop.current, ctx=ctx, task=id(asyncio.current_task(loop)), counter=self._program_counter[0], kind='uci',
                          root=(self._program_counter[1] == 0), coro=''))
        return r
    rt_cls._prss_uci = uci


def run_instrumented(m, t, program, order=None, extra_args=(), max_steps=200000, only_party=None, batch=None):
    """Reference run (order=None: deliver writes FIFO by global write id, parties run to quiescence first)
    or replay run (order = list of write ids giving delivery priority)."""
    LOG.clear(); PCLOG.clear()
    net = TNet()
    simnet0.SimLoop, saved = TLoop, simnet0.SimLoop
    try:
        parties = [load_party(i, m, t, net, extra_args) for i in range(m)]
    finally:
        simnet0.SimLoop = saved
    for i, (mpc, loop, mods) in enumerate(parties):
        instrument(i, mpc, loop, mods)
    tasks = []; gates = []; started = [False] * m
    for i, (mpc, loop, mods) in enumerate(parties):
        gate = asyncio.Event(); gates.append(gate)
        async def main(mpc=mpc, gate=gate, i=i):
            await mpc.start()
            started[i] = True
            await gate.wait()
            r = await program(mpc)
            await mpc.shutdown()
            return r
        tasks.append(loop.create_task(main()))
    prio = {w: k for k, w in enumerate(order)} if order else {}
    run_instrumented.gate_hid = None
    for step in range(max_steps):
        if run_instrumented.gate_hid is None and all(started) and not any(l._ready for _, l, _ in parties) and not net.deliverable():
            run_instrumented.gate_hid = next(TLoop.hid_counter)
            for g in gates: g.set()
        if all(tk.done() for tk in tasks):
            break
        net.process_closes()
        ready = [i for i, (_, loop, _) in enumerate(parties) if loop._ready]
        if ready:
            parties[ready[0]][1].step(); continue
        dl = net.deliverable()
        if dl:
            def rank(cs):
                c, side = cs; wid = c.wq[side][0]
                dst = c.loops[1 - side].pid
                if only_party is None or dst == only_party:
                    return (0, prio.get(wid, 10**9 + wid))
                return (0, 10**9 + wid) if not prio else (1, wid)
            c, side = min(dl, key=rank)
            wid = net.deliver_write(c, side)
            while batch and wid in batch:
                nxt = batch[wid]
                hit = [(c2, s2) for c2 in net.conns for s2 in (0, 1) if c2.wq[s2] and c2.wq[s2][0] == nxt]
                if not hit: break
                wid = net.deliver_write(*hit[0])
            continue
        timers = [i for i, (_, loop, _) in enumerate(parties) if loop._scheduled]
        if not timers:
            return None, net, parties     # deadlock
        parties[timers[0]][1].step()
    return [tk.result() for tk in tasks], net, parties


def replay_model(m, t, program, script, extra_args=(), max_steps=400000):
    """script: list of ('E', wid) / ('T', party) in model order. Afterwards: default policy."""
    LOG.clear(); PCLOG.clear()
    net = TNet()
    simnet0.SimLoop, saved = TLoop, simnet0.SimLoop
    try:
        parties = [load_party(i, m, t, net, extra_args) for i in range(m)]
    finally:
        simnet0.SimLoop = saved
    for i, (mpc, loop, mods) in enumerate(parties):
        instrument(i, mpc, loop, mods)
    tasks = []
    for i, (mpc, loop, mods) in enumerate(parties):
        async def main(mpc=mpc):
            await mpc.start()
            r = await program(mpc)
            await mpc.shutdown()
            return r
        tasks.append(loop.create_task(main()))
    followed = 0
    for kind, arg in script:
        net.process_closes()
        if kind == 'T':
            if step_one(parties[arg][1]): followed += 1
        else:
            hit = [(c, side) for c in net.conns for side in (0, 1) if c.wq[side] and c.wq[side][0] == arg]
            if hit:
                net.deliver_write(*hit[0]); followed += 1
    # continue with default policy
    for step in range(max_steps):
        if all(tk.done() for tk in tasks):
            return [tk.result() for tk in tasks], followed
        net.process_closes()
        ready = [i for i, (_, loop, _) in enumerate(parties) if loop._ready]
        if ready:
            parties[ready[0]][1].step(); continue
        dl = net.deliverable()
        if dl:
            c, side = min(dl, key=lambda cs: cs[0].wq[cs[1]][0]); net.deliver_write(c, side); continue
        timers = [i for i, (_, loop, _) in enumerate(parties) if loop._scheduled]
        if not timers:
            return None, followed
        parties[timers[0]][1].step()
    return None, followed


def analyse(net, parties):
    """Find pairs of root-context pc mutations by different handle-chains and ask z3 whether their order can flip."""
    H = {}
    for _, loop, _ in parties: H.update(loop.handles)
    T = {h: z3.Int(f'T{h}') for h in H}
    E = {h: z3.Int(f'E{h}') for h in H if H[h]['ext'] is not None}
    cons = []
    by_party = {}
    for h, d in H.items():
        if d['ran'] is None: continue
        by_party.setdefault(d['party'], []).append(h)
        cons.append(T[h] >= 0)
        if d['parent'] is not None:
            cons.append(T[d['parent']] < T[h])
        if d['ext'] is not None:
            w = net.writes[d['ext']]
            cons.append(E[h] < T[h])
            if w['sender_hid'] is not None: cons.append(T[w['sender_hid']] < E[h])
    # per-connection FIFO of deliveries
    per_conn = {}
    for h, d in H.items():
        if d['ext'] is not None and d['ran'] is not None:
            w = net.writes[d['ext']]; per_conn.setdefault((id(w['conn']), w['side']), []).append((d['ext'], h))
    for lst in per_conn.values():
        lst.sort()
        for (_, h1), (_, h2) in zip(lst, lst[1:]): cons.append(E[h1] < E[h2])
    # enqueue key and FIFO of each party's ready queue
    K = 100000
    def key(h):
        d = H[h]
        if d['ext'] is not None: return E[h] * K
        if d['parent'] is None: return z3.IntVal(d['idx'])          # initial tasks
        return T[d['parent']] * K + d['idx']
    nfifo = 0
    for p, hs in by_party.items():
        for h, g in itertools.combinations(hs, 2):
            cons.append(z3.Implies(key(h) < key(g), T[h] < T[g]))
            cons.append(z3.Implies(key(g) < key(h), T[g] < T[h]))
            cons.append(T[h] != T[g]); nfifo += 1
    # candidate pairs: mutations of the same pc list object by different handles that are not ancestor-related
    def ancestors(h):
        out = set()
        while h is not None:
            out.add(h); h = H[h]['parent']
        return out
    cands = []
    for p in by_party:
        ev = [e for e in PCLOG if e['party'] == p and e['root']]
        for e1, e2 in itertools.combinations(ev, 2):
            if e1['ctx'] != e2['ctx'] or e1['hid'] == e2['hid']: continue
            if e1['hid'] in ancestors(e2['hid']) or e2['hid'] in ancestors(e1['hid']): continue
            cands.append((e1, e2))
    return H, T, E, cons, cands, nfifo


if __name__ == '__main__':
    async def prog(mpc):
        secint = mpc.SecInt(16)
        x = mpc.input(secint(mpc.pid + 7))
        @mpc.coroutine
        async def f(a):
            await mpc.returnType(secint)
            b = await mpc.output(a * a)
            return a % 3
        r = f(x[0])
        ys = []
        for i in range(3):
            ys.append(await mpc.output(x[1] * x[2] + i))
        return await mpc.output(r), ys

    t0 = time.time()
    res, net, parties = run_instrumented(3, 1, prog)
    print('reference run:', res[0] if res else 'DEADLOCK', f'{time.time()-t0:.2f}s', 'handles', sum(len(l.handles) for _, l, _ in parties), 'writes', len(net.writes), 'pc events', len(PCLOG))
    H, T, E, cons, cands, nfifo = analyse(net, parties)
    print('constraints', len(cons), 'fifo pairs', nfifo, 'candidate pairs', len(cands))
    s = z3.Solver(); s.set('timeout', 120000); s.add(*cons)
    t1 = time.time(); print('reference-consistent:', s.check(), f'{time.time()-t1:.1f}s')
    found = 0
    for e1, e2 in [c for c in cands if '_mod' in c[0]['coro'] or '_mod' in c[1]['coro']][:6]:
        s.push(); s.add(T[e2['hid']] < T[e1['hid']])
        t1 = time.time(); r = str(s.check())
        if r == 'sat':
            mdl = s.model()
            ev = []
            for h in H:
                if H[h]['ran'] is None: continue
                ev.append((mdl.eval(T[h], model_completion=True).as_long() * 2 + 1, 'T', H[h]['party']))
                if h in E: ev.append((mdl.eval(E[h], model_completion=True).as_long() * 2, 'E', H[h]['ext']))
            ev.sort()
            script = [(k, a) for _, k, a in ev]
            s.pop()
            res2, followed = replay_model(3, 1, prog, script)
            print(f'  pair party{e1["party"]} {e1["coro"]}#{e1["counter"]} vs {e2["coro"]}#{e2["counter"]}: sat {time.time()-t1:.1f}s -> replay ({followed}/{len(script)} steps followed):', 'DEADLOCK' if res2 is None else ('same' if res2 == res else 'DIFFERENT OUTPUT'))
            found += res2 is None
            if res2 is None: break
        else:
            s.pop(); print(f'  pair {e1["coro"]} vs {e2["coro"]}: {r} {time.time()-t1:.1f}s')
    print('confirmed violations:', found)
