"""C30 probe: to_bits (masked decomposition) and add_bits at m=1."""
from l2kit import *
import l2kit
def run(label, fn, goal, max_paths=5000, timeout=60000):
    VARS.clear(); l2kit.EXTRA.clear(); cnt[0] = 0
    t0 = time.time()
    results, stats = explore(fn, max_paths=max_paths)
    print(f'{label}: paths={stats["paths"]} complete={stats.get("complete")} exec+feas={time.time()-t0:.1f}s', end=' | ')
    prove(results, goal, timeout=timeout, label='goals')

for L in (4, 6):
    secint = mpc.SecInt(L); F = secint.field; p = F.modulus
    def fn(L=L, secint=secint, F=F):
        a = fresh('a', -(1 << L-1), 1 << L-1)
        bits = mpc.to_bits(secint(F(a)))
        return a.t, [val(b) for b in bits], sides()
    def goal(r, L=L):
        a, bits, _ = r
        u = z3.If(a < 0, a + (1 << L), a)       # two's complement
        return z3.And(*[bits[i] == (u / (1 << i)) % 2 for i in range(L)])
    run(f'to_bits l={L}', fn, goal)

n = 4
secint = mpc.SecInt(8); F = secint.field
def fn2():
    xs = [fresh(f'x{i}', 0, 2) for i in range(n)]; ys = [fresh(f'y{i}', 0, 2) for i in range(n)]
    zs = mpc.add_bits([secint(F(x)) for x in xs], [secint(F(y)) for y in ys])
    return [x.t for x in xs], [y.t for y in ys], [val(z) for z in zs], sides()
def goal2(r):
    xs, ys, zs, _ = r
    X = z3.Sum([x * (1 << i) for i, x in enumerate(xs)]); Y = z3.Sum([y * (1 << i) for i, y in enumerate(ys)])
    return z3.And(*[zs[i] == ((X + Y) / (1 << i)) % 2 for i in range(n)])
run(f'add_bits both secret n={n}', fn2, goal2)
