import sys, time, os
sys.argv = ['x', '--no-log']
import z3
from symx1 import *
import symx1
from mpyc.runtime import mpc
from mpyc import finfields, thresha, asyncoro, sectypes
shim_finfields(finfields); symx1.shim_reciprocal(finfields)
VARS = {}
def fresh(name, lo, hi):
    v = z3.Int(name); VARS[name] = (v, lo, hi)
    Ctx.cur.solver.add(v >= lo, v < hi)
    return SymInt(v, lo, hi - 1)
L, Fb = 8, 4
secfxp = mpc.SecFxp(L, Fb)
F = secfxp.field; p = F.modulus
cnt = [0]
class AwList(list):
    def __await__(self):
        return list(self)
        yield
def random_bits(sftype, n, signed=False):
    field = sftype.field if issubclass(sftype, mpc.SecureObject) else sftype
    out = []
    for _ in range(n):
        cnt[0] += 1
        b = fresh(f'b{cnt[0]}', 0, 2)
        out.append(field(2*b - 1 if signed else b))
    if issubclass(sftype, mpc.SecureObject): out = [sftype(a) for a in out]
    return AwList(out)
mpc.random_bits = random_bits
def call(self, s, n=None):
    n_ = 1 if n is None else n
    out = []
    for i in range(n_):
        cnt[0] += 1; out.append(fresh(f'prf{cnt[0]}', 0, self.max))
    return out[0] if n is None else out
thresha.PRF.__call__ = call

def fn():
    cnt[0] = 0
    a = fresh('a', -(1 << L-1), 1 << L-1)      # product-scale value (2f fractional bits), l-bit integer part
    x = secfxp(F(a), integral=False)
    y = mpc.trunc(x)                              # real probabilistic truncation by f bits
    sh = y.share.result() if hasattr(y.share, 'result') else y.share
    return a.t, sh.value.t, list(getattr(Ctx.cur, 'side', []))

t0 = time.time()
results, stats = explore(fn, max_paths=5000)
print(f'trunc l={L} f={Fb} k={mpc.options.sec_param}: paths={stats["paths"]} wall={time.time()-t0:.1f}s')
t1 = time.time(); bad = 0
for pc, (a, y, side) in results:
    s = z3.Solver(); s.set('timeout', 60000)
    for v, lo, hi in VARS.values(): s.add(v >= lo, v < hi)
    s.add(*pc); s.add(*side)
    q = a / (1 << Fb)    # z3 int div = floor for positive divisor
    ys = z3.If(y > p // 2, y - p, y)
    s.add(z3.Not(z3.Or(ys == q, z3.And(ys == q + 1, a % (1 << Fb) != 0))))
    r = str(s.check())
    if r != 'unsat': bad += 1; print(r, s.model() if r == 'sat' else ''); break
print('final queries', len(results), 'bad', bad, f'{time.time()-t1:.1f}s')
