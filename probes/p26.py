"""L2 sweep 2: secfxp mul bounds, unit_vector, find, if_else, in_prod with trunc, secfxp division one check."""
import faulthandler
faulthandler.dump_traceback_later(1500, exit=True)
from l2kit import *
import l2kit
sectypes.SecureInteger._output_conversion = staticmethod(lambda a: a.__int__())
def run(label, fn, goal, max_paths=3000, timeout=60000):
    VARS.clear(); l2kit.EXTRA.clear(); cnt[0] = 0
    t0 = time.time()
    def fn2():
        l2kit.rb_calls[0] = 0
        return fn()
    try:
        results, stats = explore(fn2, max_paths=max_paths)
    except Exception as e:
        print(f'{label}: EXPLORE FAILED {type(e).__name__}: {str(e)[:160]}'); return
    print(f'{label}: paths={stats["paths"]} complete={stats.get("complete")} aborted={stats["aborted"]} exec+feas={time.time()-t0:.1f}s', end=' | ')
    prove(results, goal, timeout=timeout, label='goals')

# secfxp(8,4): value = v/16
secfxp = mpc.SecFxp(8, 4); Ff = secfxp.field; pf = Ff.modulus
def f_fxpmul():
    a = fresh('a', -(1 << 7), 1 << 7); b = fresh('b', -(1 << 7), 1 << 7)
    l2kit.assume(z3.And(a.t * b.t < (1 << 11), a.t * b.t >= -(1 << 11)))     # product in range
    z = secfxp(Ff(a), integral=False) * secfxp(Ff(b), integral=False)
    return a.t, b.t, val(z), sides()
def g_fxpmul(r):
    a, b, z, _ = r
    zs = signed(z, pf)
    # within one unit 2^-f of exact product a*b/256 (in units of 1/16: a*b/16)
    return z3.And(16 * zs <= a * b + 16, 16 * zs >= a * b - 16)
run('secfxp8:4 mul within 1 unit', f_fxpmul, g_fxpmul)

L = 4
secint = mpc.SecInt(L); F = secint.field; p = F.modulus
for n in (3, 4, 5):
    def f_uv(n=n):
        a = fresh('a', 0, n)
        u = mpc.unit_vector(secint(F(a)), n)
        return a.t, [val(x) for x in u], sides()
    run(f'unit_vector n={n}', f_uv, lambda r, n=n: z3.And(*[r[1][i] == z3.If(r[0] == i, 1, 0) for i in range(n)]))

def f_find():
    bits = [fresh(f'x{i}', 0, 2) for i in range(4)]
    ix = mpc.find([secint(F(b)) for b in bits], 1)
    return [b.t for b in bits], val(ix), sides()
def g_find(r):
    bits, ix, _ = r
    exp = z3.IntVal(4)
    for i in range(3, -1, -1): exp = z3.If(bits[i] == 1, i, exp)
    return ix == exp
run('find first 1 in 4 bits', f_find, g_find)
