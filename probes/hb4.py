"""End-to-end probe: SMT verdict on pc-write pairs + minimal-perturbation replay (adjacent / swapped enabling deliveries)."""
import sys, time
import hb0, hb2
from hb0 import *
from hb2 import build, wkey
import z3

def ext_anc(H, h):
    while h is not None:
        if H[h]['ext'] is not None: return h
        h = H[h]['parent']

def perturbed_run(m, t, prog, ref_net, w1, w2, mode):
    """reference policy, but delivery identified by key w2 is made adjacent-after w1 ('batch') or before w1 ('swap')."""
    k1, k2 = wkey(ref_net, w1), wkey(ref_net, w2)
    # map keys to write ids lazily during the run: run_instrumented works with wids of the *new* run, which coincide
    # with the reference ids as long as the run has not diverged; use batch/order on ids directly.
    if mode == 'batch':
        return run_instrumented(m, t, prog, batch={w1: w2})[0]
    return run_instrumented(m, t, prog, order=[w2, w1], only_party=k1[1])[0]

def check(prog, m=3, t=1, label=''):
    res, net, parties = run_instrumented(m, t, prog)
    pclog = list(hb0.PCLOG)
    nq = 0; tsol = 0; confirmed = None
    for P in range(m):
        hb0.PCLOG[:] = pclog
        H, HP, T, E, cons, cands = build(net, parties, P)
        s = z3.Solver(); s.set('timeout', 60000); s.add(*cons)
        for e1, e2 in cands:
            s.push(); s.add(T[e2['hid']] < T[e1['hid']])
            t1 = time.time(); r = str(s.check()); nq += 1; tsol += time.time() - t1; s.pop()
            if r != 'sat': continue
            a1, a2 = ext_anc(H, e1['hid']), ext_anc(H, e2['hid'])
            if a1 is None or a2 is None: continue
            w1, w2 = H[a1]['ext'], H[a2]['ext']
            for mode in ('batch', 'swap'):
                out = perturbed_run(m, t, prog, net, w1, w2, mode)
                if out is None or out != res:
                    confirmed = (P, e1['coro'], e1['counter'], e2['coro'], e2['counter'], mode, wkey(net, w1), wkey(net, w2), 'DEADLOCK' if out is None else 'DIFFERENT OUTPUT')
                    break
            if confirmed: break
        if confirmed: break
    print(f'[{label}] candidates asked={nq} solver={tsol:.1f}s ->', confirmed or 'no confirmed violation')
    return confirmed

async def prog_mod_in_coro(mpc):
    secint = mpc.SecInt(16)
    x = mpc.input(secint(mpc.pid + 7))
    @mpc.coroutine
    async def f(a):
        await mpc.returnType(secint)
        b = await mpc.output(a * a)
        return a % 3
    r = f(x[0])
    ys = []
    for i in range(3):
        ys.append(await mpc.output(x[1] * x[2] + i))
    return await mpc.output(r), ys

async def prog_plain(mpc):
    secint = mpc.SecInt(16)
    x = mpc.input(secint(mpc.pid + 7))
    y = x[0] * x[1] + (x[2] % 5) + (x[0] < x[1])
    @mpc.coroutine
    async def g(a):
        await mpc.returnType(secint)
        b = await mpc.output(a * a)
        return a * a + b
    r = g(x[0])
    z = await mpc.output(x[1] * x[2])
    return await mpc.output([y, r]), z

t0 = time.time()
check(prog_mod_in_coro, label='mod inside coroutine after await')
print(f'{time.time()-t0:.1f}s'); t0 = time.time()
check(prog_plain, label='ordinary program (% in main, comparison, nested coroutine)')
print(f'{time.time()-t0:.1f}s')
