"""C29 probe: comparator network of the real mpc._sort / sorted / min_max with ideal compare-exchange on z3 terms."""
import sys, time
sys.argv = ['x', '--no-log']
import z3
from mpyc.runtime import mpc

class Elem:
    def __init__(self, t): self.t = t
    def __lt__(self, o): return Cmp(self.t < o.t)
    def __ge__(self, o): return Cmp(self.t >= o.t)
class Cmp:
    def __init__(self, c): self.c = c
ncmp = [0]
def if_swap(c, x, y):
    ncmp[0] += 1
    return [Elem(z3.If(c.c, y.t, x.t)), Elem(z3.If(c.c, x.t, y.t))]
def if_else(c, x, y):
    ncmp[0] += 1
    return Elem(z3.If(c.c, x.t, y.t))
mpc.if_swap = if_swap; mpc.if_else = if_else

def check(n, boolean):
    ncmp[0] = 0
    if boolean:
        xs = [z3.Bool(f'b{i}') for i in range(n)]
        ins = [Elem(z3.If(b, 1, 0)) for b in xs]
    else:
        xs = [z3.Int(f'x{i}') for i in range(n)]
        ins = [Elem(x) for x in xs]
    out = mpc.sorted(ins)
    ys = [e.t for e in out]
    s = z3.Solver(); s.set('timeout', 120000)
    srt = z3.And(*[ys[i] <= ys[i+1] for i in range(n-1)])
    if boolean:
        perm = z3.Sum(ys) == z3.Sum([e.t for e in ins])
    else:
        perm = z3.And(*[z3.Sum([z3.If(y == x, 1, 0) for y in ys]) == z3.Sum([z3.If(x2 == x, 1, 0) for x2 in xs]) for x in xs])
    s.add(z3.Not(z3.And(srt, perm)))
    t0 = time.time(); r = s.check()
    return r, time.time() - t0, ncmp[0]

for n in (2, 3, 4, 5, 6, 7, 8):
    print('int keys n=%d:' % n, *check(n, False))
for n in (8, 12, 16, 24, 32):
    print('0/1 keys n=%d:' % n, *check(n, True))
# min_max
for n in (3, 5, 8):
    xs = [z3.Int(f'x{i}') for i in range(n)]
    lo, hi = mpc.min_max([Elem(x) for x in xs])
    s = z3.Solver(); s.add(z3.Not(z3.And(*[lo.t <= x for x in xs], z3.Or(*[lo.t == x for x in xs]), *[hi.t >= x for x in xs], z3.Or(*[hi.t == x for x in xs]))))
    t0 = time.time(); print('min_max n=%d:' % n, s.check(), f'{time.time()-t0:.2f}s')
