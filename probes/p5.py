import sys, time, os
sys.argv = ['x', '--no-log'] + sys.argv[1:]
import z3
from symx1 import *
import symx1
from mpyc.runtime import mpc
from mpyc import finfields, thresha, asyncoro, sectypes
import mpyc.runtime as R

shim_finfields(finfields)
symx1.shim_reciprocal(finfields)
VARS = {}
def fresh(name, lo, hi):
    v = z3.Int(name)
    VARS[name] = (v, lo, hi)
    Ctx.cur.solver.add(v >= lo, v < hi)
    return SymInt(v, lo, hi - 1)

L = int(os.getenv('L', '4'))
secint = mpc.SecInt(L)
F = secint.field
p = F.modulus
print('l', L, 'k', mpc.options.sec_param, 'p bits', p.bit_length())

cnt = [0]
# ideal random bits (contract of random_bits: values in {0,1} or {-1,1})
async def _rb(sftype, n, signed=False):
    out = []
    field = sftype.field if issubclass(sftype, mpc.SecureObject) else sftype
    for _ in range(n):
        cnt[0] += 1
        b = fresh(f'b{cnt[0]}', 0, 2)
        out.append(field(2*b - 1 if signed else b))
    if issubclass(sftype, mpc.SecureObject):
        out = [sftype(a) for a in out]
    return out
def random_bits(sftype, n, signed=False):
    # synchronous version (no_async mode): return list directly
    out = []
    field = sftype.field if issubclass(sftype, mpc.SecureObject) else sftype
    for _ in range(n):
        cnt[0] += 1
        b = fresh(f'b{cnt[0]}', 0, 2)
        out.append(field(2*b - 1 if signed else b))
    if issubclass(sftype, mpc.SecureObject):
        out = [sftype(a) for a in out]
    return out
class AwList(list):
    def __await__(self):
        return list(self)
        yield
def random_bits2(sftype, n, signed=False):
    return AwList(random_bits(sftype, n, signed))
mpc.random_bits = random_bits2
# PRF stub
def call(self, s, n=None):
    n_ = 1 if n is None else n
    out = []
    for i in range(n_):
        cnt[0] += 1
        out.append(fresh(f'prf{cnt[0]}', 0, self.max))
    return out[0] if n is None else out
thresha.PRF.__call__ = call

class ProdObj:
    def __init__(self, e): self.e = e
orig_prod = mpc.prod
def prod(x, start=1):
    return ProdObj(list(x))
mpc.prod = prod
def is_zero_public(a):
    # a = stype(ProdObj)
    e = a.share.e
    def z(x):
        v = x.value if hasattr(x, 'value') else x
        if v.cong is not None:
            u = v.cong[0]
            if u.lo is not None and -p < u.lo and u.hi < p: return u.t == 0
        return v.t == 0
    return asyncoro._AwaitableFuture(SymBool(z3.Or(*[z(x) for x in e])))
mpc.is_zero_public = is_zero_public
# let stype(ProdObj) pass through
orig_init = sectypes.SecureInteger.__init__
def init(self, value=None):
    if isinstance(value, ProdObj):
        asyncoro.SecureObject.__init__(self, value)
    else:
        orig_init(self, value)
sectypes.SecureInteger.__init__ = init

def fn():
    cnt[0] = 0
    a = fresh('a', -(1 << L-1), 1 << L-1)
    b = fresh('b', -(1 << L-1), 1 << L-1)
    x, y = secint(F(a)), secint(F(b))
    z = x < y
    sh = z.share.result() if hasattr(z.share, "result") else z.share
    return a.t, b.t, sh.value.t, list(getattr(Ctx.cur, 'side', []))

t0 = time.time()
results, stats = explore(fn, max_paths=5000)
print(f'paths={stats["paths"]} branch-queries={stats["queries"]} solver={stats["solver_time"]:.1f}s wall={time.time()-t0:.1f}s')
bad = 0; t1 = time.time()
for pc, (a, b, z, side) in results:
    s = z3.Solver(); s.set('timeout', 60000)
    for v, lo, hi in VARS.values(): s.add(v >= lo, v < hi)
    s.add(*pc); s.add(*side)
    s.add(z != z3.If(a < b, 1, 0))
    r = str(s.check())
    if r != 'unsat':
        bad += 1; print(r, s.model() if r == 'sat' else '')
        break
print('final queries', len(results), 'bad', bad, f'{time.time()-t1:.1f}s')
pc, (a, b, z, side) = results[0]
print('Z =', z)
print('SIDE =', side)
print('PC =', pc)
