import z3, time
for p in (3, 5, 7, 11, 13, 101, 2**61-1):
    a = z3.Int('a'); s = z3.Solver(); s.set('timeout', 30000)
    s.add(a >= 0, a < p)
    # square-and-multiply with reductions, as pow(a, p-1, p) would do symbolically
    e = p - 1; r = None; b = a
    while e:
        if e & 1: r = b if r is None else (r * b) % p
        e >>= 1
        if e: b = (b * b) % p
    s.add((1 - r) % p != z3.If(a == 0, 1, 0))
    t0 = time.time(); print(p, s.check(), f'{time.time()-t0:.2f}s')
# nested: is_zero(a*b + c) over p=7 with three variables
p = 7
a, b, c = z3.Ints('a b c'); s = z3.Solver(); s.set('timeout', 60000)
for v in (a, b, c): s.add(v >= 0, v < p)
x = (a*b + c) % p
r = None; bb = x; e = p-1
while e:
    if e & 1: r = bb if r is None else (r*bb) % p
    e >>= 1
    if e: bb = (bb*bb) % p
s.add((1 - r) % p != z3.If(x == 0, 1, 0))
t0 = time.time(); print('nested p=7', s.check(), f'{time.time()-t0:.2f}s')
