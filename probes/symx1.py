"""Prototype 2: shadow symbolic ints with path exploration (DFS over branch decisions)."""
import z3, builtins, time

class Unmodelled(Exception):
    pass

class PathAbort(BaseException):
    pass

class Ctx:
    """One exploration: runs fn repeatedly, one path per run."""
    cur = None
    def __init__(self, assumptions=(), timeout_ms=20000):
        self.assumptions = list(assumptions)
        self.prefix = []       # forced decisions for this run
        self.decisions = []    # (cond, taken, other_feasible)
        self.pc = []
        self.solver = z3.Solver()
        self.solver.set('timeout', timeout_ms)
        self.solver.add(*self.assumptions)
        self.nqueries = 0
        self.solver_time = 0.0
    def check(self, *extra):
        t0 = time.time()
        self.solver.push()
        self.solver.add(*extra)
        r = str(self.solver.check())
        self.solver.pop()
        self.nqueries += 1
        self.solver_time += time.time() - t0
        return r
    def concretize(self, term, limit=4096):
        """Fork on the value of term: returns a concrete int v with term == v added to the path condition."""
        for _ in range(limit):
            self.solver.push(); self.solver.add(*self.pc)
            r = str(self.solver.check()); self.nqueries += 1
            if r != 'sat':
                self.solver.pop()
                if r == 'unsat': raise PathAbort()
                raise Unmodelled('solver unknown in concretize')
            v = self.solver.model().eval(term, model_completion=True).as_long()
            self.solver.pop()
            if self.branch(term == v):
                return v
        raise Unmodelled('concretize limit')

    def branch(self, cond):
        cond = z3.simplify(cond)
        if z3.is_true(cond): return True
        if z3.is_false(cond): return False
        i = len(self.decisions)
        if i < len(self.prefix):
            taken = self.prefix[i]
            self.decisions.append((cond, taken, None))
        else:
            rt = self.check(*self.pc, cond)
            rf = self.check(*self.pc, z3.Not(cond))
            if rt == 'unknown' or rf == 'unknown':
                raise Unmodelled('solver unknown at branch')
            if rt == 'sat':
                taken = True; other = (rf == 'sat')
            elif rf == 'sat':
                taken = False; other = False
            else:
                raise PathAbort()
            self.decisions.append((cond, taken, other))
        self.pc.append(cond if taken else z3.Not(cond))
        return taken


def explore(fn, assumptions=(), max_paths=1000):
    """Run fn() over all feasible paths (DFS over branch decisions)."""
    stack = []   # list of [taken, other_pending]
    results = []
    stats = dict(paths=0, queries=0, solver_time=0.0, aborted=0)
    while True:
        ctx = Ctx(assumptions)
        ctx.prefix = [d[0] for d in stack]
        Ctx.cur = ctx
        try:
            res = fn()
            results.append((list(ctx.pc), res))
        except PathAbort:
            stats['aborted'] += 1
        finally:
            Ctx.cur = None
        stats['paths'] += 1; stats['queries'] += ctx.nqueries; stats['solver_time'] += ctx.solver_time
        for cond, taken, other in ctx.decisions[len(stack):]:
            stack.append([taken, bool(other)])
        while stack and not stack[-1][1]:
            stack.pop()
        if not stack or stats['paths'] >= max_paths:
            stats['complete'] = not stack
            break
        stack[-1] = [not stack[-1][0], False]
    return results, stats


def _t(x):
    if isinstance(x, SymInt): return x.t
    if isinstance(x, SymBool): return z3.If(x.t, z3.IntVal(1), z3.IntVal(0))
    if isinstance(x, bool): return z3.IntVal(int(x))
    if isinstance(x, int): return z3.IntVal(x)
    raise Unmodelled(f'operand {type(x)}')

class SymBool:
    def __init__(self, t): self.t = t
    def __bool__(self): return Ctx.cur.branch(self.t)

QFORK = [True]
EXACTDIV = [True]

def _pydivmod(a, b):
    """Python floor division / modulo for a symbolic divisor b != 0 (z3 div/mod are Euclidean)."""
    q = z3.If(b > 0, a / b, z3.If(a % b == 0, a / b, a / b - 1))     # for b < 0: floor(a/b) = -ceil(a/|b|)... derived below
    # Euclidean: a = b*qe + re, 0 <= re < |b|.  Python: r has the sign of b.
    qe, re = a / b, a % b
    q = z3.If(z3.Or(b > 0, re == 0), qe, qe + 1)
    if QFORK[0] and not z3.is_int_value(z3.simplify(b)):
        v = Ctx.cur.concretize(q)              # quotient forking: keeps every later step linear
        return v, SymInt(a - v * b)
    r = z3.If(z3.Or(b > 0, re == 0), re, re + b)
    return SymInt(q), SymInt(r)

def _guard(f):
    def g(s, o):
        if not isinstance(o, (SymInt, SymBool, bool, int)):
            return NotImplemented
        return f(s, o)
    g.__name__ = f.__name__
    return g

def _rng(o):
    if isinstance(o, SymInt): return o.lo, o.hi
    if isinstance(o, SymBool): return 0, 1
    o = int(o); return o, o

def _iv_add(a, b):
    return (None if None in (a[0], b[0]) else a[0] + b[0], None if None in (a[1], b[1]) else a[1] + b[1])
def _iv_neg(a):
    return (None if a[1] is None else -a[1], None if a[0] is None else -a[0])
def _iv_mul(a, b):
    if None in a or None in b: return (None, None)
    c = [a[0]*b[0], a[0]*b[1], a[1]*b[0], a[1]*b[1]]
    return (min(c), max(c))

import os
BITVARS = [os.getenv('BITVARS', '1') == '1']

def _is01ite(t):
    if z3.is_app(t) and t.decl().kind() == z3.Z3_OP_ITE:
        a, b = t.arg(1), t.arg(2)
        if z3.is_int_value(a) and z3.is_int_value(b):
            return True
    return False

def _mulite(x, y):
    """x*y, distributing over an ite with numeral branches (keeps goals linear)."""
    if _is01ite(x):
        return z3.If(x.arg(0), x.arg(1).as_long() * y, x.arg(2).as_long() * y)
    if _is01ite(y):
        return z3.If(y.arg(0), y.arg(1).as_long() * x, y.arg(2).as_long() * x)
    return x * y

class U:
    """Unreduced integer term with interval (plain value, no congruence view)."""
    __slots__ = ('t', 'lo', 'hi')
    def __init__(s, t, lo, hi): s.t = t; s.lo = lo; s.hi = hi

def _u_of(o, p):
    """Unreduced representative of o modulo p (o: SymInt / int / SymBool)."""
    if isinstance(o, SymInt):
        if o.cong is not None and o.cong[1] == p:
            return o.cong[0]
        return U(o.t, o.lo, o.hi)
    lo, hi = _rng(o)
    return U(_t(o), lo, hi)

def _reduce(u, p):
    """Canonical (term, lo, hi) of u mod p using interval info."""
    if u.lo is not None and u.hi is not None:
        if 0 <= u.lo and u.hi < p: return u.t, u.lo, u.hi
        if u.lo // p == u.hi // p:
            q = u.lo // p
            return u.t - q*p, u.lo - q*p, u.hi - q*p
    return u.t % p, 0, p - 1

def _cong2(s, o):
    ps = s.cong[1] if isinstance(s, SymInt) and s.cong else None
    po = o.cong[1] if isinstance(o, SymInt) and o.cong else None
    p = ps or po
    if p is None or (ps and po and ps != po): return None
    return p

class SymInt:
    """Shadow integer: canonical z3 Int term + sound interval, and optionally a congruence
    view cong=(U, p) meaning value == U mod p with U an unreduced term (lazy modular reduction)."""
    __slots__ = ('t', 'lo', 'hi', 'cong', 'bits')
    def __init__(s, t, lo=None, hi=None, cong=None, bits=None): s.t = t; s.lo = lo; s.hi = hi; s.cong = cong; s.bits = bits
    @staticmethod
    def from_bits(bits):
        t = z3.IntVal(0)
        for j, b in enumerate(bits): t = t + b * (1 << j)
        return SymInt(t, 0, (1 << len(bits)) - 1, None, list(bits))
    @_guard
    def __add__(s, o):
        lo, hi = _iv_add((s.lo, s.hi), _rng(o))
        p = _cong2(s, o); cong = None
        if p:
            a, b = _u_of(s, p), _u_of(o, p)
            cong = (U(a.t + b.t, *_iv_add((a.lo, a.hi), (b.lo, b.hi))), p)
        return SymInt(s.t + _t(o), lo, hi, cong)
    __radd__ = __add__
    @_guard
    def __sub__(s, o):
        return s.__add__(-o if isinstance(o, SymInt) else (-int(o) if not isinstance(o, SymBool) else -SymInt(_t(o), 0, 1)))
    @_guard
    def __rsub__(s, o):
        return (-s).__add__(o)
    @_guard
    def __mul__(s, o):
        if isinstance(o, InvConst):
            ctx = Ctx.cur
            ctx.nfresh = getattr(ctx, 'nfresh', 0) + 1
            y = z3.Int(f'fdiv{ctx.nfresh}')
            k = z3.Int(f'fdivk{ctx.nfresh}')
            u = _u_of(s, o.p)
            # exact-division detection: if d | U is valid on this path, the quotient is U div d
            if EXACTDIV[0] and u.lo is not None and u.hi is not None and o.d > 1:
                if ctx.check(*ctx.pc, u.t % o.d != 0) == 'unsat':
                    q = SymInt(u.t / o.d, u.lo // o.d, u.hi // o.d)
                    return q % o.p
            side = z3.And(y >= 0, y < o.p, y * o.d - u.t == k * o.p)
            if u.lo is not None and u.hi is not None:
                side = z3.And(side, k >= (0 - u.hi) // o.p - 1, k <= ((o.p - 1) * o.d - u.lo) // o.p + 1)
            ctx.solver.add(side); ctx.side = getattr(ctx, 'side', []) + [side]
            return SymInt(y, 0, o.p - 1)
        lo, hi = _iv_mul((s.lo, s.hi), _rng(o))
        p = _cong2(s, o); cong = None
        def mul2(xt, xr, yt, yr):
            # a factor known to lie in {0,1} turns the product into an ite (keeps goals linear)
            def small(r): return None not in r and r[1] - r[0] <= 2
            def split(ft, fr, ot):
                out = z3.IntVal(fr[1]) * ot
                for v in range(fr[1] - 1, fr[0] - 1, -1):
                    out = z3.If(ft == v, z3.IntVal(v) * ot, out)
                return out
            if small(xr) and not z3.is_int_value(xt): return split(xt, xr, yt)
            if small(yr) and not z3.is_int_value(yt): return split(yt, yr, xt)
            return _mulite(xt, yt)
        if p:
            a, b = _u_of(s, p), _u_of(o, p)
            cong = (U(mul2(a.t, (a.lo, a.hi), b.t, (b.lo, b.hi)), *_iv_mul((a.lo, a.hi), (b.lo, b.hi))), p)
        return SymInt(mul2(s.t, (s.lo, s.hi), _t(o), _rng(o)), lo, hi, cong)
    __rmul__ = __mul__
    def __neg__(s):
        cong = None
        if s.cong:
            a = s.cong[0]; cong = (U(-a.t, *_iv_neg((a.lo, a.hi))), s.cong[1])
        return SymInt(-s.t, *_iv_neg((s.lo, s.hi)), cong)
    def __pos__(s): return s
    @_guard
    def __mod__(s, o):
        if isinstance(o, int) and not isinstance(o, bool) and o > 1 and (o & (o - 1)) == 0 and BITVARS[0]:
            n = o.bit_length() - 1
            if s.bits is not None:
                return SymInt.from_bits(s.bits[:n])
            if s.lo is not None and s.lo >= 0 and n <= 16:
                ctx = Ctx.cur
                ctx.nfresh = getattr(ctx, 'nfresh', 0) + 1
                q = z3.Int(f'bq{ctx.nfresh}')
                bits = [z3.Int(f'bv{ctx.nfresh}_{j}') for j in range(n)]
                low = SymInt.from_bits(bits)
                side = z3.And(q >= 0, s.t == q * o + low.t, *[z3.And(b >= 0, b <= 1) for b in bits])
                if s.hi is not None: side = z3.And(side, q <= s.hi // o)
                ctx.solver.add(side); ctx.side = getattr(ctx, 'side', []) + [side]
                return low
        if isinstance(o, int) and not isinstance(o, bool) and o > 0:
            u = _u_of(s, o)
            t, lo, hi = _reduce(u, o)
            return SymInt(t, lo, hi, (u, o))
        return SymInt(s.t % _t(o))
    @_guard
    def __rmod__(s, o): return SymInt(_t(o) % s.t)
    @_guard
    def __floordiv__(s, o):
        if isinstance(o, int) and o > 0:
            return SymInt(s.t / o, None if s.lo is None else s.lo // o, None if s.hi is None else s.hi // o)
        return SymInt(s.t / _t(o))
    def __divmod__(s, o):
        if isinstance(o, int) and not isinstance(o, bool) and o > 0:
            return s // o, s % o
        return _pydivmod(s.t, _t(o))
    def __rdivmod__(s, o):
        return _pydivmod(_t(o), s.t)
    def __rfloordiv__(s, o): return _pydivmod(_t(o), s.t)[0]
    def __abs__(s):
        lo = 0 if (s.lo is None or s.hi is None) else (0 if s.lo <= 0 <= s.hi else min(abs(s.lo), abs(s.hi)))
        hi = None if (s.lo is None or s.hi is None) else max(abs(s.lo), abs(s.hi))
        return SymInt(z3.If(s.t >= 0, s.t, -s.t), lo, hi)
    def __lshift__(s, o):
        assert isinstance(o, int); return s * (1 << o)
    def __rshift__(s, o):
        assert isinstance(o, int)
        if s.bits is not None:
            return SymInt.from_bits(s.bits[o:]) if o < len(s.bits) else SymInt(z3.IntVal(0), 0, 0)
        return s // (1 << o)
    def __and__(s, o):
        assert isinstance(o, int) and (o & (o+1)) == 0, o
        if s.bits is not None:
            return SymInt.from_bits(s.bits[:(o+1).bit_length() - 1])
        return s % (o+1)
    __rand__ = __and__
    @_guard
    def __eq__(s, o):
        lo, hi = _rng(o)
        if None not in (s.lo, s.hi, lo, hi) and (s.hi < lo or hi < s.lo): return False
        return SymBool(s.t == _t(o))
    @_guard
    def __ne__(s, o):
        lo, hi = _rng(o)
        if None not in (s.lo, s.hi, lo, hi) and (s.hi < lo or hi < s.lo): return True
        return SymBool(s.t != _t(o))
    @_guard
    def __lt__(s, o): return SymBool(s.t < _t(o))
    @_guard
    def __le__(s, o): return SymBool(s.t <= _t(o))
    @_guard
    def __gt__(s, o): return SymBool(s.t > _t(o))
    @_guard
    def __ge__(s, o): return SymBool(s.t >= _t(o))
    def __pow__(s, e, mod=None):
        assert isinstance(e, int) and e >= 0
        r = 1; b = s
        while e:
            if e & 1: r = r * b if not isinstance(r, int) or r != 1 else b
            e >>= 1
            if e: b = b * b
            if mod is not None and not isinstance(r, int): r = r % mod
            if mod is not None and e: b = b % mod
        return r
    def __hash__(s): raise Unmodelled('hash of SymInt')
    def __index__(s): raise Unmodelled('index of SymInt')
    def __int__(s): raise Unmodelled('int() of SymInt')
    def __bool__(s): return Ctx.cur.branch(s.t != 0)
    def __repr__(s): return f'Sym({s.t})[{s.lo},{s.hi}]'
    def to_bytes(s, *a, **k): raise Unmodelled('to_bytes')


class InvConst(int):
    """Concrete modular inverse of d modulo p (an int), remembering d and p."""
    def __new__(cls, v, d, p):
        o = int.__new__(cls, v); o.d = d; o.p = p
        return o

def shim_reciprocal(finfields):
    orig = finfields.PrimeFieldElement._reciprocal.__func__
    def _reciprocal(cls, a):
        v = orig(cls, a)
        if isinstance(a, int) and not isinstance(v, SymInt):
            return InvConst(v, a % cls.modulus, cls.modulus)
        return v
    finfields.PrimeFieldElement._reciprocal = classmethod(_reciprocal)

class _IntMeta(type):
    def __instancecheck__(cls, x):
        return builtins.isinstance(x, (builtins.int, SymInt))
    def __call__(cls, x=0, *a):
        if builtins.isinstance(x, SymInt): return x
        return builtins.int(x, *a)
    def __getattr__(cls, name):
        return getattr(builtins.int, name)

class IntShim(metaclass=_IntMeta):
    pass

def shim_finfields(finfields):
    finfields.__dict__['int'] = IntShim
    finfields.PrimeFieldElement._mix_types = IntShim
