import os
os.environ['MPYC_NOGMPY'] = '1'
import math
from mpyc import gmpy

def check_invert(x: int, m: int) -> int:
    """
    pre: 1 <= m <= 64 and -64 <= x <= 64
    post: (__return__ == -1 and math.gcd(x, m) != 1) or (m == 1 and __return__ == 0) or (0 < __return__ < m and (x * __return__) % m == 1)
    """
    try:
        return gmpy.invert(x, m)
    except ZeroDivisionError:
        return -1

def check_gcdext(a: int, b: int) -> bool:
    """
    pre: -40 <= a <= 40 and -40 <= b <= 40
    post: __return__
    """
    g, s, t = gmpy.gcdext(a, b)
    return g == math.gcd(a, b) and g == a*s + b*t

def check_isqrt_iroot(x: int, n: int) -> bool:
    """
    pre: 0 <= x <= 5000 and 1 <= n <= 5
    post: __return__
    """
    y, b = gmpy.iroot(x, n)
    return y**n <= x < (y+1)**n and b == (y**n == x)

def check_jacobi(x: int, y: int) -> bool:
    """
    pre: -30 <= x <= 30 and 1 <= y <= 31 and y % 2 == 1
    post: __return__
    """
    j = gmpy.jacobi(x, y)
    return j in (-1, 0, 1) and (j == 0) == (math.gcd(x, y) != 1)
