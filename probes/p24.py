import faulthandler
faulthandler.dump_traceback_later(900, exit=True)
"""L2 sweep at m=1 (real code, symbolic masks): lsb, mod b, trailing_zeros, sgn(EQ), abs, unit_vector, find."""
from l2kit import *
import l2kit
sectypes.SecureInteger._output_conversion = staticmethod(lambda a: a.__int__())
def run(label, fn, goal, max_paths=3000, timeout=60000):
    VARS.clear(); l2kit.EXTRA.clear(); cnt[0] = 0
    t0 = time.time()
    try:
        def fn2():
            l2kit.rb_calls[0] = 0
            return fn()
        results, stats = explore(fn2, max_paths=max_paths)
    except Exception as e:
        print(f'{label}: EXPLORE FAILED {type(e).__name__}: {str(e)[:120]}'); return
    print(f'{label}: paths={stats["paths"]} complete={stats.get("complete")} aborted={stats["aborted"]} exec+feas={time.time()-t0:.1f}s', end=' | ')
    prove(results, goal, timeout=timeout, label='goals')

L = 4
secint = mpc.SecInt(L); F = secint.field; p = F.modulus
def inp(name='a'):
    a = fresh(name, -(1 << L-1), 1 << L-1); return a, secint(F(a))

def f_lsb():
    a, x = inp(); return a.t, val(mpc.lsb(x)), sides()
run('lsb', f_lsb, lambda r: r[1] == r[0] % 2)

for b in (3, 5, 4):
    def f_mod(b=b):
        a, x = inp(); return a.t, val(x % b), sides()
    run(f'mod {b}', f_mod, lambda r, b=b: r[1] == r[0] % b)

def f_tz():
    a, x = inp(); return a.t, [val(z) for z in mpc.trailing_zeros(x)], sides()
def g_tz(r):
    a, bits, _ = r
    u = z3.If(a < 0, a + (1 << L), a)
    # correct up to and including the least significant 1
    cl = []
    for i in range(L):
        lower_zero = z3.And(*[(u / (1 << j)) % 2 == 0 for j in range(i)]) if i else z3.BoolVal(True)
        cl.append(z3.Implies(lower_zero, bits[i] == (u / (1 << i)) % 2))
    return z3.And(*cl)
run('trailing_zeros', f_tz, g_tz)

# sgn EQ / full sgn with ideal prod+is_zero_public as in p5
class ProdObj:
    def __init__(self, e): self.e = e
mpc.prod = lambda x, start=1: ProdObj(list(x))
def is_zero_public(a):
    def z(x):
        v = x.value if hasattr(x, 'value') else x
        if v.cong is not None:
            u = v.cong[0]
            if u.lo is not None and -p < u.lo and u.hi < p: return u.t == 0
        return v.t == 0
    return asyncoro._AwaitableFuture(SymBool(z3.Or(*[z(x) for x in a.share.e])))
mpc.is_zero_public = is_zero_public
orig_init = sectypes.SecureInteger.__init__
def init(self, value=None):
    if isinstance(value, ProdObj): asyncoro.SecureObject.__init__(self, value)
    else: orig_init(self, value)
sectypes.SecureInteger.__init__ = init

def f_eq():
    a, x = inp(); return a.t, val(mpc.sgn(x, EQ=True)), sides()
run('sgn EQ (a == 0)', f_eq, lambda r: r[1] == z3.If(r[0] == 0, 1, 0))
def f_sgn():
    a, x = inp(); return a.t, val(mpc.sgn(x)), sides()
run('sgn (3-valued)', f_sgn, lambda r: signed(r[1], p) == z3.If(r[0] < 0, -1, z3.If(r[0] == 0, 0, 1)))
def f_abs():
    a, x = inp(); return a.t, val(abs(x)), sides()
run('abs', f_abs, lambda r: signed(r[1], p) == z3.If(r[0] < 0, -r[0], r[0]))
