import sys, time, functools, itertools
sys.argv = ['x', '--no-log']
import z3
from mpyc import mpctools
E = z3.DeclareSort('E')
F = z3.Function('F', E, E, E)
a, b, c = z3.Consts('a b c', E)
assoc = z3.ForAll([a, b, c], F(F(a, b), c) == F(a, F(b, c)))
class El:
    def __init__(s, t): s.t = t
f = lambda x, y: El(F(x.t, y.t))
for n in (1, 2, 3, 5, 8, 13, 16, 24):
    xs = [El(z3.Const(f'x{i}', E)) for i in range(n)]
    t0 = time.time()
    res = []
    r1 = mpctools.reduce(f, xs); r2 = functools.reduce(f, xs)
    s = z3.Solver(); s.set('timeout', 60000); s.add(assoc); s.add(r1.t != r2.t); res.append(str(s.check()))
    for method in ('Sklansky', 'Brent-Kung'):
        acc1 = list(mpctools.accumulate(xs, f, method=method)); acc2 = list(itertools.accumulate(xs, f))
        s = z3.Solver(); s.set('timeout', 60000); s.add(assoc)
        s.add(z3.Or(*[u.t != v.t for u, v in zip(acc1, acc2)]) if n > 0 else z3.BoolVal(False)); res.append(str(s.check()))
    print(n, res, f'{time.time()-t0:.2f}s')
# sanity: without associativity the claim must fail (sat)
xs = [El(z3.Const(f'x{i}', E)) for i in range(4)]
s = z3.Solver(); s.add(mpctools.reduce(f, xs).t != functools.reduce(f, xs).t); print('no-assoc', s.check())
