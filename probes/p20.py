"""C20 probe: extension field GF(p^d) operators on elements with symbolic coefficient lists."""
import sys, time, os
os.environ['MPYC_NOGMPY'] = '1'
sys.argv = ['x', '--no-log']
import z3
import symx1
from symx1 import *
from mpyc import gmpy, gfpx, finfields
for mod in (gmpy, gfpx, finfields): mod.__dict__['int'] = IntShim
finfields.PrimeFieldElement._mix_types = IntShim

def elem(F, name):
    p = F.characteristic; d = F.ext_deg
    poly = type(F.modulus)
    cs = []
    for i in range(d):
        v = z3.Int(f'{name}{i}'); Ctx.cur.solver.add(v >= 0, v < p); cs.append(SymInt(v, 0, p - 1))
    # normalise: strip leading zeros via the real constructor path (forks)
    lst = list(cs)
    while lst and not lst[-1]: del lst[-1]
    return F(poly(lst, check=False)), [c.t for c in cs]

def coeffs(e, d):
    v = list(e.value.value)
    v = v + [0] * (d - len(v))
    return [c.t if isinstance(c, SymInt) else z3.IntVal(c) for c in v]

def run(F, label, body, nvars, max_paths=50000):
    p, d = F.characteristic, F.ext_deg
    def fn():
        els = []; vs = []
        for k in range(nvars):
            e, v = elem(F, 'abc'[k]); els.append(e); vs.append(v)
        lhs, rhs = body(*els)
        return coeffs(lhs, d), coeffs(rhs, d)
    t0 = time.time()
    results, stats = explore(fn, max_paths=max_paths)
    texp = time.time() - t0; t1 = time.time(); bad = 0
    for pc, (l, r) in results:
        s = z3.Solver(); s.set('timeout', 30000)
        for k in range(nvars):
            for i in range(d):
                v = z3.Int(f'{"abc"[k]}{i}'); s.add(v >= 0, v < p)
        s.add(*pc); s.add(z3.Or(*[x != y for x, y in zip(l, r)]))
        rr = str(s.check())
        if rr != 'unsat': bad += 1; print('   ', label, rr, s.model() if rr == 'sat' else ''); break
    print(f'GF({p}^{d}) {label}: paths={stats["paths"]} complete={stats.get("complete")} explore={texp:.1f}s goals={len(results)} bad={bad} prove={time.time()-t1:.1f}s')

for q in (9, 25, 27):
    pp, dd = gmpy.factor_prime_power(q)
    F = finfields.GF(finfields.find_irreducible(pp, dd))
    run(F, 'a*b == b*a', lambda a, b: (a * b, b * a), 2)
    run(F, 'a*(b+c) == a*b + a*c', lambda a, b, c: (a * (b + c), a * b + a * c), 3)
    if q <= 9:
        run(F, '(a*b)*c == a*(b*c)', lambda a, b, c: ((a * b) * c, a * (b * c)), 3)
