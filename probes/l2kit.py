"""Probe kit: m=1 runtime with shadow ints, symbolic randomness and optional ideal stubs."""
import sys, time, os
sys.argv = ['x', '--no-log']
import z3
import symx1
from symx1 import *
from mpyc.runtime import mpc
from mpyc import finfields, thresha, asyncoro, sectypes

shim_finfields(finfields); symx1.shim_reciprocal(finfields)
for mod in (sectypes, sys.modules['mpyc.runtime'], sys.modules['mpyc.random'], sys.modules['mpyc.seclists'], sys.modules['mpyc.statistics']):
    mod.__dict__['int'] = IntShim
VARS = {}
EXTRA = []
cnt = [0]

def assume(c):
    Ctx.cur.solver.add(c); EXTRA.append(c)

def fresh(name, lo, hi):
    v = z3.Int(name); VARS[name] = (v, lo, hi)
    Ctx.cur.solver.add(v >= lo, v < hi)
    return SymInt(v, lo, hi - 1)

def assumptions():
    return [z3.And(v >= lo, v < hi) for v, lo, hi in VARS.values()]

class AwList(list):
    def __await__(self):
        return list(self)
        yield

RB_CAP = [4]
rb_calls = [0]

def _random_bits(sftype, n, signed=False):
    rb_calls[0] += 1
    if rb_calls[0] > RB_CAP[0]: raise symx1.PathAbort()     # bounded restarts
    field = sftype.field if issubclass(sftype, mpc.SecureObject) else sftype
    f = getattr(sftype, 'frac_length', 0) if issubclass(sftype, mpc.SecureObject) else 0
    out = []
    for _ in range(n):
        cnt[0] += 1
        b = fresh(f'rb{cnt[0]}', 0, 2)
        out.append(field((2*b - 1 if signed else b) * (1 << f)))
    if issubclass(sftype, mpc.SecureObject):
        out = [sftype(a, True) if f else sftype(a) for a in out]
    return AwList(out)
mpc.random_bits = _random_bits

def _prf_call(self, s, n=None):
    n_ = 1 if n is None else n
    out = [fresh(f'prf_{self.key.hex()[:6]}_{s.hex()}_{self.max}_{i}', 0, self.max) for i in range(n_)]
    return out[0] if n is None else out
thresha.PRF.__call__ = _prf_call

def signed(v, p):
    """signed representative term of canonical field value term v"""
    return z3.If(v > p // 2, v - p, v)

def val(x):
    """z3 term (canonical field value) of a secure number result"""
    sh = x.share
    if hasattr(sh, 'result'): sh = sh.result()
    return sh.value.t if isinstance(sh.value, SymInt) else z3.IntVal(sh.value)

def ideal_comparisons():
    """Replace sgn/is_zero by their C01 contract (exact results)."""
    def sgn(a, l=None, LT=False, EQ=False):
        stype = type(a); F = stype.field; p = F.modulus; f = stype.frac_length
        sh = a.share.result() if hasattr(a.share, 'result') else a.share
        v = sh.value
        t = v.t if isinstance(v, SymInt) else z3.IntVal(v)
        s = signed(t, p)
        if LT: r = z3.If(s < 0, 1, 0)
        elif EQ: r = z3.If(s == 0, 1, 0)
        else: r = z3.If(s < 0, -1, z3.If(s == 0, 0, 1))
        lo, hi = (0, 1) if (LT or EQ) else (-1, 1)
        e = F(SymInt(r, lo, hi) * (1 << f))
        return stype(e, True) if f else stype(e)
    mpc.sgn = sgn
    mpc.is_zero = lambda a: sgn(a, EQ=True)

def prove(results, goal_fn, timeout=60000, label=''):
    t1 = time.time(); bad = 0; n = 0
    for pc, res in results:
        s = z3.Solver(); s.set('timeout', timeout)
        s.add(*assumptions()); s.add(*EXTRA); s.add(*pc)
        side = res[-1] if isinstance(res, tuple) and isinstance(res[-1], list) else []
        s.add(*side)
        s.add(z3.Not(goal_fn(res)))
        r = str(s.check()); n += 1
        if r != 'unsat':
            bad += 1
            print('   ', label, r, s.model() if r == 'sat' else s.reason_unknown())
            break
    print(f'{label}: goals={n} bad={bad} {time.time()-t1:.1f}s')
    return bad

def sides():
    return list(getattr(Ctx.cur, 'side', []))
