"""C25 probe: gmpy stubs (pure-Python) on bounded symbolic integers via path exploration."""
import sys, time, os, math
os.environ['MPYC_NOGMPY'] = '1'
sys.argv = ['x', '--no-log']
import z3
import symx1
from symx1 import *
from mpyc import gmpy
gmpy.__dict__['int'] = IntShim

def run(label, fn, goal, assume, max_paths=20000, timeout=30000):
    t0 = time.time()
    results, stats = explore(fn, max_paths=max_paths)
    texp = time.time() - t0
    bad = 0; t1 = time.time()
    for pc, res in results:
        s = z3.Solver(); s.set('timeout', timeout)
        s.add(*assume); s.add(*pc); s.add(z3.Not(goal(res)))
        r = str(s.check())
        if r != 'unsat':
            bad += 1; print('   ', label, r, s.model() if r == 'sat' else ''); break
    print(f'{label}: paths={stats["paths"]} complete={stats.get("complete")} aborted={stats["aborted"]} explore={texp:.1f}s goals={len(results)} bad={bad} prove={time.time()-t1:.1f}s')

B = int(os.getenv('B', '32'))
x, m = z3.Ints('x m')
def sym(v, lo, hi):
    Ctx.cur.solver.add(v >= lo, v <= hi); return SymInt(v, lo, hi)

# invert: for 1 <= m <= B, |x| <= B
def f_invert():
    xs, ms = sym(x, -B, B), sym(m, 1, B)
    try:
        return ('ok', gmpy.invert(xs, ms))
    except ZeroDivisionError:
        return ('zde', None)
def g_invert(res):
    tag, y = res
    d = z3.Int('d')
    coprime = z3.Not(z3.Exists([d], z3.And(d >= 2, d <= B, x % d == 0, m % d == 0)))
    if tag == 'zde':
        return z3.And(z3.Not(coprime), m != 1) if True else None
    yt = y.t if isinstance(y, SymInt) else z3.IntVal(y)
    return z3.And(z3.Or(coprime, m == 1), z3.If(m == 1, yt == 0, z3.And(yt > 0, yt < m, (x * yt) % m == 1)))
run(f'invert |x|<={B} 1<=m<={B}', f_invert, g_invert, [x >= -B, x <= B, m >= 1, m <= B])

# gcdext
a, b = z3.Ints('a b')
def f_gcdext():
    as_, bs = sym(a, -B, B), sym(b, -B, B)
    return gmpy.gcdext(as_, bs)
def g_gcdext(res):
    g, s, t = [v.t if isinstance(v, SymInt) else z3.IntVal(v) for v in res]
    d = z3.Int('d')
    isgcd = z3.And(g >= 0, z3.If(z3.And(a == 0, b == 0), g == 0,
                  z3.And(g >= 1, a % g == 0, b % g == 0, z3.Not(z3.Exists([d], z3.And(d > g, d <= B, a % d == 0, b % d == 0))))))
    return z3.And(isgcd, g == a*s + b*t)
run(f'gcdext |a|,|b|<={B}', f_gcdext, g_gcdext, [a >= -B, a <= B, b >= -B, b <= B])

# jacobi vs multiplicativity/definition surrogate: j in {-1,0,1}, j == 0 iff gcd != 1
y = z3.Int('y')
def f_jac():
    xs, ys = sym(x, -B, B), sym(y, 1, B)
    Ctx.cur.solver.add(y % 2 == 1)
    return gmpy.jacobi(xs, ys)
def g_jac(res):
    j = res.t if isinstance(res, SymInt) else z3.IntVal(res)
    d = z3.Int('d')
    coprime = z3.Not(z3.Exists([d], z3.And(d >= 2, d <= B, x % d == 0, y % d == 0)))
    return z3.And(j >= -1, j <= 1, (j == 0) == z3.Not(coprime))
run(f'jacobi |x|<={B} odd y<={B}', f_jac, g_jac, [x >= -B, x <= B, y >= 1, y <= B, y % 2 == 1])
