"""Concrete replay of the to_bits counterexample on the unshimmed code: m=1, l=4, a=-8, r_divl=0, r_modl=11."""
import sys
sys.argv = ['x', '--no-log']
from mpyc.runtime import mpc
from mpyc import thresha
secint = mpc.SecInt(4)
F = secint.field
bits_wanted = [1, 1, 0, 1]     # r_modl = 11
class AwList(list):
    def __await__(self):
        return list(self)
        yield
mpc.random_bits = lambda sftype, n, signed=False: AwList([F(b) for b in bits_wanted[:n]])
thresha.PRF.__call__ = lambda self, s, n=None: 0 if n is None else [0] * n      # r_divl = 0
for a in (-8, -5, 3):
    out = mpc.run(mpc.output(mpc.to_bits(secint(a))))
    ref = [((a + 16) >> i) & 1 for i in range(4)]
    print('a =', a, 'to_bits ->', out, 'expected', ref, 'OK' if out == ref else 'WRONG')
