import sys, time, os
import z3
import symx1
from symx1 import *
import simnet0
from simnet0 import *

TABLE = {}
VARS = {}

def fresh(name, lo, hi):
    """Deterministic named symbolic var with range assumption lo <= v < hi."""
    if name not in VARS:
        v = z3.Int(name)
        VARS[name] = (v, lo, hi)
    v, lo, hi = VARS[name]
    ctx = Ctx.cur
    if name not in ctx.__dict__.setdefault('declared', set()):
        ctx.declared.add(name)
        ctx.solver.add(v >= lo, v < hi)
        ctx.assumptions.append(z3.And(v >= lo, v < hi))
    return SymInt(v)

def patch_party(pid, mods):
    finfields = mods['mpyc.finfields']; thresha = mods['mpyc.thresha']
    shim_finfields(finfields)
    cnt = [0]
    def randbelow(n):
        cnt[0] += 1
        return fresh(f'rb_p{pid}_{cnt[0]}', 0, n)
    thresha.secrets = type('S', (), {'randbelow': staticmethod(randbelow), 'token_bytes': __import__('secrets').token_bytes})
    orig_to, orig_from = finfields.FiniteFieldElement.to_bytes.__func__, finfields.FiniteFieldElement.from_bytes.__func__
    def to_bytes(cls, x):
        x = list(x)
        if any(isinstance(v, SymInt) for v in x):
            tok = b'\xf5SYM' + len(TABLE).to_bytes(8, 'little')
            TABLE[tok] = x
            return tok
        return orig_to(cls, x)
    def from_bytes(cls, data):
        data = bytes(data)
        if data in TABLE:
            return list(TABLE[data])
        return orig_from(cls, data)
    finfields.FiniteFieldElement.to_bytes = classmethod(to_bytes)
    finfields.FiniteFieldElement.from_bytes = classmethod(from_bytes)
    # PRF stub: consistent symbolic outputs keyed by (key, input, index)
    PRF = thresha.PRF
    def call(self, s, n=None):
        n_ = 1 if n is None else n
        out = [fresh(f'prf_{self.key.hex()[:8]}_{s.hex()}_{self.max}_{i}', 0, self.max) for i in range(n_)]
        return out[0] if n is None else out
    PRF.__call__ = call

orig_load = simnet0.load_party
def load_party(pid, m, t, net, extra_args=()):
    mpc, loop, mods = orig_load(pid, m, t, net, extra_args)
    patch_party(pid, mods)
    return mpc, loop, mods
simnet0.load_party = load_party

# deterministic PRSS keys so that var names are stable across path re-executions
import secrets as _secrets
_kc = [0]
def token_bytes(n):
    _kc[0] += 1
    return _kc[0].to_bytes(n, 'little')
_secrets.token_bytes = token_bytes

def experiment(m, t, extra=()):
    L = 8
    async def prog(mpc):
        secint = mpc.SecInt(L)
        F = secint.field
        xi = fresh(f'x{mpc.pid}', -(1 << L-1), 1 << L-1)
        x = mpc.input(secint(F(xi)))
        y = x[0] * x[1] + x[2]
        out = await mpc.output(y, raw=True)
        return F.modulus, out.value
    def fn():
        _kc[0] = 0
        TABLE.clear()
        res, net, parties = simnet0.run_parties(m, t, prog, extra_args=['-K', '8', *extra], seed=1)
        return res
    t0 = time.time()
    results, stats = explore(fn)
    print(f'm={m} t={t} {extra}: paths={stats["paths"]} branch-queries={stats["queries"]} ({stats["solver_time"]:.2f}s) wall={time.time()-t0:.2f}s')
    x = [VARS[f'x{i}'][0] for i in range(3)]
    for pc, res in results:
        for pid, (p, term) in enumerate(res):
            s = z3.Solver(); s.set('timeout', 60000)
            for v, lo, hi in VARS.values(): s.add(v >= lo, v < hi)
            s.add(*pc)
            s.add(term.t != (x[0]*x[1] + x[2] + (1 if os.getenv("MUT") else 0)) % p)
            t1 = time.time(); r = s.check()
            print(f'   party {pid}: p={p} final query {r} in {time.time()-t1:.2f}s; term size {len(term.t.sexpr())}')

experiment(3, 1)
experiment(3, 1, ['--no-prss'])
