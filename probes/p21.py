"""C21 probe: prime-field sqrt/is_sqr on a symbolic element (real finfields code, pow shim)."""
import sys, time, os
os.environ['MPYC_NOGMPY'] = '1'
sys.argv = ['x', '--no-log']
import z3
import symx1
from symx1 import *
from mpyc import gmpy, finfields
for mod in (gmpy, finfields): mod.__dict__['int'] = IntShim
finfields.PrimeFieldElement._mix_types = IntShim
gmpy.__dict__['pow'] = lambda x, e, m=None: x.__pow__(e, m) if isinstance(x, SymInt) else pow(x, e, m)
symx1.QFORK[0] = True

def run(p):
    F = finfields.GF(p)
    a = z3.Int('a')
    def fn():
        Ctx.cur.solver.add(a >= 0, a < p)
        x = F(SymInt(a, 0, p - 1))
        sq = x.is_sqr()
        if isinstance(sq, SymBool): sq = bool(sq)
        r = x.sqrt() if sq else None
        return sq, (r.value.t if (r is not None and isinstance(r.value, SymInt)) else (None if r is None else z3.IntVal(r.value)))
    t0 = time.time()
    try:
        results, stats = explore(fn, max_paths=5000)
    except Exception as e:
        print(f'p={p}: explore failed: {type(e).__name__} {e} after {time.time()-t0:.1f}s'); return
    texp = time.time() - t0; t1 = time.time(); bad = 0
    y = z3.Int('y')
    issq = z3.Or(*[a == (v * v) % p for v in range(p)])
    for pc, (sq, r) in results:
        s = z3.Solver(); s.set('timeout', 60000)
        s.add(a >= 0, a < p, *pc)
        goal = z3.And(issq, (r * r) % p == a) if sq else z3.Not(issq)
        s.add(z3.Not(goal))
        rr = str(s.check())
        if rr != 'unsat': bad += 1; print('   p=%d' % p, rr, s.model() if rr == 'sat' else ''); break
    print(f'p={p} (p%4={p%4}): paths={stats["paths"]} complete={stats.get("complete")} explore={texp:.1f}s goals={len(results)} bad={bad} prove={time.time()-t1:.1f}s')

for p in (7, 11, 13, 17, 19, 23, 29, 31, 43):
    run(p)
