import faulthandler
faulthandler.dump_traceback_later(900, exit=True)
"""L2 sweep at m=1 (real code, symbolic masks): lsb, mod b, trailing_zeros, sgn(EQ), abs, unit_vector, find."""
from l2kit import *
import l2kit
sectypes.SecureInteger._output_conversion = staticmethod(lambda a: a.__int__())
def run(label, fn, goal, max_paths=3000, timeout=60000):
    VARS.clear(); l2kit.EXTRA.clear(); cnt[0] = 0
    t0 = time.time()
    try:
        def fn2():
            l2kit.rb_calls[0] = 0
            return fn()
        results, stats = explore(fn2, max_paths=max_paths)
    except Exception as e:
        print(f'{label}: EXPLORE FAILED {type(e).__name__}: {str(e)[:120]}'); return
    print(f'{label}: paths={stats["paths"]} complete={stats.get("complete")} aborted={stats["aborted"]} exec+feas={time.time()-t0:.1f}s', end=' | ')
    prove(results, goal, timeout=timeout, label='goals')

L = 4
secint = mpc.SecInt(L); F = secint.field; p = F.modulus
def inp(name='a'):
    a = fresh(name, -(1 << L-1), 1 << L-1); return a, secint(F(a))


class ProdObj:
    def __init__(self, e): self.e = e
mpc.prod = lambda x, start=1: ProdObj(list(x))
def is_zero_public(a):
    def z(x):
        v = x.value if hasattr(x, 'value') else x
        if v.cong is not None:
            u = v.cong[0]
            if u.lo is not None and -p < u.lo and u.hi < p: return u.t == 0
        return v.t == 0
    return asyncoro._AwaitableFuture(SymBool(z3.Or(*[z(x) for x in a.share.e])))
mpc.is_zero_public = is_zero_public
orig_init = sectypes.SecureInteger.__init__
def init(self, value=None):
    if isinstance(value, ProdObj): asyncoro.SecureObject.__init__(self, value)
    else: orig_init(self, value)
sectypes.SecureInteger.__init__ = init
def f_abs():
    a, x = inp(); return a.t, val(abs(x)), sides()
run('abs', f_abs, lambda r: signed(r[1], p) == z3.If(r[0] < 0, -r[0], r[0]))
def f_max():
    a, x = inp('a'); b, y = inp('b'); return a.t, b.t, val(mpc.max(x, y)), sides()
run('max(a,b)', f_max, lambda r: signed(r[2], p) == z3.If(r[0] < r[1], r[1], r[0]), max_paths=3000)
