import sys, time
from simnet0 import *

async def prog(mpc):
    secint = mpc.SecInt(16)
    secfxp = mpc.SecFxp(16)
    x = mpc.input(secint(mpc.pid + 3))
    y = x[0] * x[1] + x[2]
    z = (x[0] < x[1]) + (y % 5)
    a = mpc.input(secfxp(1.5 * (mpc.pid + 1), integral=False))
    b = a[0] * a[1] / a[2]
    return await mpc.output([y, z]), await mpc.output(b), await mpc.output(mpc.sorted([x[2], x[0], x[1]]))

t0 = time.time()
for seed in range(3):
    res, net, parties = run_parties(3, 1, prog, seed=seed, chunk=7)
    print(seed, res, sum(len(b''.join(c.log[0]))+len(b''.join(c.log[1])) for c in net.conns), 'bytes')
res, net, parties = run_parties(3, 1, prog, extra_args=['--no-prss'], seed=1, chunk=5)
print('noprss', res)
res, net, parties = run_parties(5, 2, prog, seed=1)
print('m=5', res)
print(time.time() - t0)
