"""L2 probes at m=1: convert (C06), integral flags (C03), seclist ops (C31), _randbelow (C33)."""
from l2kit import *
import l2kit

sectypes.SecureInteger._output_conversion = staticmethod(lambda a: a.__int__())

def run(label, fn, goal, max_paths=2000, timeout=60000):
    VARS.clear(); l2kit.EXTRA.clear(); cnt[0] = 0
    t0 = time.time()
    results, stats = explore(fn, max_paths=max_paths)
    print(f'{label}: paths={stats["paths"]} complete={stats.get("complete")} aborted={stats["aborted"]} exec+feas={time.time()-t0:.1f}s', end=' | ')
    prove(results, goal, timeout=timeout, label='goals')

# ---- C06: secint(8) -> secfxp(16,4) and back (rounding), secint -> secint
secint8 = mpc.SecInt(8); secfxp = mpc.SecFxp(12, 4); secint12 = mpc.SecInt(12)
p8, pf, p12 = secint8.field.modulus, secfxp.field.modulus, secint12.field.modulus
def c06_a():
    a = fresh('a', -128, 128)
    y = mpc.convert(secint8(secint8.field(a)), secfxp)
    return a.t, val(y), y.integral, sides()
run('C06 secint8->secfxp12:4', c06_a, lambda r: z3.And(signed(r[1], pf) == r[0] * 16, r[2] == True))
def c06_b():
    a = fresh('a', -(1 << 11), 1 << 11)      # scaled fixed-point value (f=4)
    y = mpc.convert(secfxp(secfxp.field(a), integral=False), secint12)
    return a.t, val(y), sides()
run('C06 secfxp12:4->secint12 (neighbouring integer)', c06_b,
    lambda r: z3.Or(signed(r[1], p12) == r[0] / 16, z3.And(signed(r[1], p12) == r[0] / 16 + 1, r[0] % 16 != 0)))

# ---- C03: flags for mul variants (one step, arbitrary valid pre-state)
F = secfxp.field; f = 4
def c03_mul(kind):
    def fn():
        ia = fresh('ia', 0, 2); ib = fresh('ib', 0, 2)          # symbolic flags, concretised by branching
        a = fresh('a', -(1 << 7), 1 << 7); b = fresh('b', -(1 << 7), 1 << 7)
        fa = bool(ia == 1); fb = bool(ib == 1)
        av = a * 16 if fa else a
        bv = b * 16 if fb else b
        x = secfxp(F(av), integral=fa)
        if kind == 'sec':
            y = secfxp(F(bv), integral=fb); z = x * y
        elif kind == 'int':
            z = x * 3
        else:
            z = x * 0.75
        return val(z), z.integral, sides()
    return fn
for kind in ('sec', 'int', 'float'):
    run(f'C03 flag soundness secfxp mul ({kind})', c03_mul(kind),
        lambda r: z3.BoolVal(True) if not r[1] else signed(r[0], pf) % 16 == 0)

# ---- C31: seclist set/get/del with one-hot secret index
def c31(op):
    n = 4
    def fn():
        xs = [fresh(f'x{i}', -100, 100) for i in range(n)]
        u = [fresh(f'u{i}', 0, 2) for i in range(n)]
        l2kit.EXTRA.clear(); l2kit.assume(z3.Sum([v.t for v in u]) == 1)
        v = fresh('v', -100, 100)
        s = mpc.seclist([secint8(secint8.field(x)) for x in xs])
        idx = [secint8(secint8.field(b)) for b in u]
        if op == 'get':
            out = [s[idx]]
        elif op == 'set':
            s[idx] = secint8(secint8.field(v)); out = list(s)
        elif op == 'del':
            del s[idx]; out = list(s)
        elif op == 'insert':
            idx5 = idx + [secint8(0)]
            s.insert(idx5, secint8(secint8.field(v))); out = list(s)
        return [x.t for x in xs], [b.t for b in u], v.t, [signed(val(o), p8) for o in out], sides()
    return fn
def c31_goal(op):
    def goal(r):
        xs, u, v, out, _ = r
        n = len(xs); cl = []
        for k in range(n):           # case: index == k
            ref = list(xs)
            if op == 'get': ref = [xs[k]]
            elif op == 'set': ref[k] = v
            elif op == 'del': del ref[k]
            elif op == 'insert': ref.insert(k, v)
            cl.append(z3.Implies(u[k] == 1, z3.And(len(ref) == len(out), *[a == b for a, b in zip(ref, out)])))
        return z3.And(*cl)
    return goal
for op in ('get', 'set', 'del', 'insert'):
    run(f'C31 seclist {op} n=4', c31(op), c31_goal(op))

# ---- C33: _randbelow uniform: accept <=> value(bits) < n and output == value(bits)
def c33(n):
    def fn():
        calls = [0]
        orig = mpc.random_bits
        def capped(sftype, k, signed=False):
            calls[0] += 1
            if calls[0] > 2: raise symx1.PathAbort()      # unroll: initial draw + one restart
            return orig(sftype, k, signed)
        mpc.random_bits = capped
        try:
            y = mpc.random._randbelow(secint8, n)
        finally:
            mpc.random_bits = orig
        bits = [VARS[k][0] for k in sorted(VARS, key=lambda s: int(s[2:])) if k.startswith('rb')]
        return val(y), bits, sides()
    return fn
for n in (3, 5, 6, 7):
    k = (n - 1).bit_length()
    def goal(r, n=n, k=k):
        y, bits, _ = r
        first = bits[:k]; v = z3.Sum([b * (1 << i) for i, b in enumerate(first)])
        used_restart = len(bits) > k
        return z3.And(y >= 0, y < n) if used_restart else z3.And(v < n, y == v)
    run(f'C33 _randbelow n={n}', c33(n), goal, max_paths=60)
