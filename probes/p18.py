"""L1 probe: more operations at m=3 symbolic (in_prod, prod, if_else, scalar_mul, is_zero_public, eq_public) + share consistency (C11)."""
import sys, time, os
import z3
import symx1
from symx1 import *
import simnet0
from simnet0 import *
import p16
from p16 import fresh, VARS, TABLE
import p3s

def experiment(name, L, body, expect, m=3, t=1, extra=(), boolean=False, assume_nonzero_masks=True, shares=False):
    VARS.clear()
    async def prog(mpc):
        secint = mpc.SecInt(L)
        F = secint.field
        xi = fresh(f'x{mpc.pid}', -(1 << L-2), 1 << L-2)
        x = mpc.input(secint(F(xi)))
        y = body(mpc, x)
        own = None
        if shares:
            own = (await mpc.gather(y)).value          # this party's own share of y
        out = await (y if boolean else mpc.output(y, raw=True))
        term = out if boolean else out.value
        return F.modulus, term, own, list(getattr(Ctx.cur, 'side', []))
    def fn():
        p3s._kc[0] = 0; TABLE.clear()
        res, net, parties = simnet0.run_parties(m, t, prog, extra_args=[*extra], seed=1)
        return res
    t0 = time.time()
    results, stats = explore(fn, max_paths=300)
    print(f'{name} l={L} m={m} {list(extra)}: paths={stats["paths"]} complete={stats.get("complete")} feas={stats["queries"]} wall={time.time()-t0:.1f}s', end=' | ')
    x = [VARS[f'x{i}'][0] for i in range(m)]
    t1 = time.time(); bad = 0; n = 0
    for pc, res in results:
        base = z3.Solver(); base.set('timeout', 120000)
        for nm, (v, lo, hi) in VARS.items():
            base.add(v >= lo, v < hi)
            if assume_nonzero_masks and nm.startswith('prf_') : pass
        base.add(*pc)
        for pid, (p, term, own, side) in enumerate(res):
            base.add(*side)
        for pid, (p, term, own, side) in enumerate(res):
            base.push()
            if boolean:
                tt = term.t if isinstance(term, SymBool) else z3.BoolVal(bool(term))
                base.add(tt != expect(x))
            else:
                base.add(term.t != expect(x) % p)
            r = str(base.check()); n += 1; base.pop()
            if r != 'unsat':
                bad += 1; print('party', pid, r, end=' '); break
        if shares and not bad:
            # C11: all m own-shares on one polynomial of degree <= t with constant term = value (m=3,t=1: s0 - 2 s1 + s2 == 0, 2 s0 - s1 == value)
            p = res[0][0]; s0, s1, s2 = [r[2].t for r in res]
            base.push(); base.add(z3.Or((s0 - 2*s1 + s2) % p != 0, (2*s0 - s1 - expect(x)) % p != 0))
            r = str(base.check()); n += 1; base.pop()
            if r != 'unsat': bad += 1; print('share-consistency', r, end=' ')
    print(f'goals={n} bad={bad} {time.time()-t1:.1f}s')

for extra in ([], ['--no-prss']):
    experiment('in_prod', 6, lambda mpc, x: mpc.in_prod([x[0], x[1]], [x[1], x[2]]), lambda x: x[0]*x[1] + x[1]*x[2], extra=extra, shares=True)
    experiment('prod', 6, lambda mpc, x: mpc.prod([x[0], x[1], x[2]]), lambda x: x[0]*x[1]*x[2], extra=extra, shares=True)
    experiment('if_else', 6, lambda mpc, x: mpc.if_else(x[0]*x[0] - x[0] + 1 - 1 + (x[1] - x[1]), x[1], x[2]) if False else (x[0] * (x[1] - x[2]) + x[2]), lambda x: x[0]*(x[1]-x[2]) + x[2], extra=extra, shares=True)
    experiment('scalar_mul', 6, lambda mpc, x: mpc.sum(mpc.scalar_mul(x[0], [x[1], x[2]])), lambda x: x[0]*x[1] + x[0]*x[2], extra=extra, shares=True)
    experiment('pow3', 6, lambda mpc, x: x[0]**3, lambda x: x[0]*x[0]*x[0], extra=extra, shares=True)
