#!/bin/bash
# Build /verif/.venv offline: /venv's python + /venv's site-packages (mpyc editable -> /repo) + solver wheels.
set -e
cd "$(dirname "$0")"
export PIP_NO_INDEX=1 PIP_DISABLE_PIP_VERSION_CHECK=1
V=.venv
if [ ! -x $V/bin/python ] || ! $V/bin/python -c "import z3, jsonschema, numpy" 2>/dev/null; then
  rm -rf $V
  /venv/bin/python -m venv $V
  SP=$($V/bin/python -c "import sysconfig; print(sysconfig.get_paths()['purelib'])")
  printf "import site; site.addsitedir('/venv/lib/python3.12/site-packages')\n" > "$SP/_overlay.pth"
  $V/bin/python -m pip install -q --no-index --find-links /opt/veriftools/wheels z3-solver jsonschema
  # optional second-opinion solver and NumPy (only used by checks that say so); failure is not fatal
  $V/bin/python -m pip install -q --no-index --find-links /opt/veriftools/wheels numpy 2>/dev/null || true     # C37 (secure NumPy arrays) needs it
  $V/bin/python -m pip install -q --no-index --find-links /opt/veriftools/wheels cvc5 2>/dev/null || true
fi
$V/bin/python -c "import z3, mpyc, jsonschema; print('setup ok: z3', z3.get_version_string(), 'mpyc', mpyc.__version__, mpyc.__file__)"
# engine self-test (SymInt operators vs Python semantics, Int->BV translator vs z3 Int): must report 0 mismatches
PYTHONPATH="$PWD" $V/bin/python -m vf.selftest
