"""Independent oracles (not using mpyc code)."""
import itertools


def lagrange(xs, x, p):
    """Lagrange coefficients mod prime p for interpolation points xs evaluated at x."""
    out = []
    for i, xi in enumerate(xs):
        num, den = 1, 1
        for j, xj in enumerate(xs):
            if i != j:
                num = num * (x - xj) % p
                den = den * (xi - xj) % p
        out.append(num * pow(den, -1, p) % p)
    return out


def interp(xs, ys, x, p):
    """Value at x of the polynomial through (xs, ys) -- ys may be symbolic; result unreduced."""
    lam = lagrange(xs, x, p)
    acc = 0
    for l, y in zip(lam, ys):
        acc = acc + y * l
    return acc


def next_prime(n):
    n += 1
    while n < 2 or any(n % d == 0 for d in range(2, int(n**0.5) + 1)):
        n += 1
    return n


def configs(max_m, maximal_only=False):
    out = []
    for m in range(1, max_m + 1):
        for t in range(0, m):
            if 2 * t < m and (not maximal_only or t == (m - 1) // 2):
                out.append((m, t))
    return out


def pname(p):
    return str(p) if p < 100000 else f'2^{p.bit_length()}'
