"""Loading the real mpyc package for a harness: shims (symbolic mode only) and environment stubs
(both modes -- a replay needs the randomness sources pinned to the model's values)."""
import builtins
import importlib
import os
import sys

os.environ.setdefault('MPYC_NONUMPY', '1')
os.environ['MPYC_NOGMPY'] = '1'

INT_SHIM_MODULES = ['mpyc.finfields', 'mpyc.thresha', 'mpyc.runtime', 'mpyc.sectypes', 'mpyc.gfpx',
                    'mpyc.gmpy', 'mpyc.secgroups', 'mpyc.statistics', 'mpyc.random', 'mpyc.seclists',
                    'mpyc.mpctools', 'mpyc.fingroups']


def purge_mpyc():
    saved = {k: v for k, v in sys.modules.items() if k == 'mpyc' or k.startswith('mpyc.')}
    for k in saved:
        del sys.modules[k]
    return saved


def import_mpyc(argv):
    """Import a fresh private copy of the mpyc package with the given command line; the copy is
    removed from sys.modules afterwards (returned as a dict)."""
    import secrets as _secrets
    saved = purge_mpyc()
    old_argv = sys.argv
    sys.argv = ['vf'] + list(argv)
    # PRSS keys are drawn by Runtime.__init__ during import: make them deterministic, distinct symbols
    tag = 0
    for a in argv:
        if a.startswith('-I'):
            tag = builtins.int(a[2:])
    kc = [0]
    real_token_bytes = _secrets.token_bytes

    def token_bytes(n=32):
        kc[0] += 1
        return bytes([0x4b, tag]) + kc[0].to_bytes(n - 2, 'little')
    _secrets.token_bytes = token_bytes
    try:
        importlib.import_module('mpyc.runtime')
        mods = {k: v for k, v in sys.modules.items() if k == 'mpyc' or k.startswith('mpyc.')}
    finally:
        _secrets.token_bytes = real_token_bytes
        sys.argv = old_argv
        purge_mpyc()
        sys.modules.update(saved)
    return mods


def import_plain(*names):
    """Import mpyc submodules that do not need a runtime (finfields, gfpx, gmpy, thresha, ...)."""
    saved = purge_mpyc()
    try:
        for n in names:
            importlib.import_module(n)
        mods = {k: v for k, v in sys.modules.items() if k == 'mpyc' or k.startswith('mpyc.')}
    finally:
        purge_mpyc()
        sys.modules.update(saved)
    return mods


class Token(bytes):
    """Opaque byte string standing for a list of (possibly symbolic) field values on the wire."""


class Party:
    """One party's private copy of the package."""

    def __init__(self, mods, pid, env):
        self.mods = mods
        self.pid = pid
        self.env = env
        self.rt_mod = mods.get('mpyc.runtime')
        self.mpc = self.rt_mod.mpc if self.rt_mod else None
        self.randbelow_log = []       # (site pid, bound)
        self.n_randbelow = 0

    def __getattr__(self, name):
        mods = object.__getattribute__(self, 'mods')
        if 'mpyc.' + name in mods:
            return mods['mpyc.' + name]
        raise AttributeError(name)


def install(env, mods, pid=0, table=None, prf_stub=True, rand_stub=True, keytag=None):
    """Apply shims (sym mode) and stubs (both modes) to a private module copy."""
    from vf import symx
    party = Party(mods, pid, env)
    sym = env.mode == 'sym'
    ff = mods.get('mpyc.finfields')
    thresha = mods.get('mpyc.thresha')
    rtm = mods.get('mpyc.runtime')
    sectypes = mods.get('mpyc.sectypes')
    gmpy = mods.get('mpyc.gmpy')

    if sym:
        for name in INT_SHIM_MODULES:
            if name in mods:
                mods[name].__dict__['int'] = symx.IntShim
                env.shims.add(f'{name}.int=IntShim')
        if ff:
            ff.PrimeFieldElement._mix_types = symx.IntShim
            env.shims.add('PrimeFieldElement._mix_types=IntShim')
            gfpx_mod = mods.get('mpyc.gfpx')
            if gfpx_mod is not None and hasattr(ff, 'ExtensionFieldElement'):
                ff.ExtensionFieldElement._mix_types = (symx.IntShim, gfpx_mod.Polynomial)
                ff.BinaryFieldElement._mix_types = (symx.IntShim, gfpx_mod.BinaryPolynomial)
                env.shims.add('ExtensionFieldElement._mix_types=(IntShim, Polynomial)')
            orig_rec = ff.PrimeFieldElement._reciprocal.__func__

            def _reciprocal(cls, a, _orig=orig_rec):
                if isinstance(a, symx.SymInt):
                    import z3
                    c = z3.simplify(a.t)
                    if z3.is_int_value(c):             # a constant in symbolic clothing (e.g. the result of a stub on forked values)
                        a = c.as_long()
                    else:
                        return symx._sym_invert(a, cls.modulus)
                v = _orig(cls, a)
                return symx.InvConst(v, a % cls.modulus, cls.modulus)
            ff.PrimeFieldElement._reciprocal = classmethod(_reciprocal)
            env.shims.add('PrimeFieldElement._reciprocal->InvConst/fraction view')
            # token table for symbolic values on the wire
            if table is not None:
                o_to = ff.FiniteFieldElement.to_bytes.__func__
                o_from = ff.FiniteFieldElement.from_bytes.__func__

                def to_bytes(cls, x, _o=o_to):
                    x = list(x)

                    def issym(v):
                        if isinstance(v, symx.SymInt):
                            return True
                        inner = getattr(v, 'value', None)       # polynomial (extension / binary field element value)
                        if isinstance(inner, symx.SymInt):
                            return True
                        return isinstance(inner, list) and any(isinstance(c, symx.SymInt) for c in inner)
                    if any(issym(v) for v in x):
                        # polynomials cross the wire as their integer encoding (each party has its own copy of the polynomial classes)
                        x = [v if isinstance(v, (symx.SymInt, builtins.int)) else v.__int__() for v in x]
                        tok = Token(b'\xf5SYM' + len(table).to_bytes(8, 'little'))
                        table[bytes(tok)] = (cls, x)
                        return tok
                    return _o(cls, x)

                def from_bytes(cls, data, _o=o_from):
                    data = bytes(data)
                    if data in table:
                        return list(table[data][1])
                    return _o(cls, data)
                ff.FiniteFieldElement.to_bytes = classmethod(to_bytes)
                ff.FiniteFieldElement.from_bytes = classmethod(from_bytes)
                env.stubs.add('field.to_bytes/from_bytes: token table for lists with symbolic values (contract: C22)')
        if sectypes:
            sectypes.SecureInteger._output_conversion = staticmethod(lambda a: a.__int__())
        if gmpy:
            def _powmod(x, y, m):
                return pow(x, y, m)
            gmpy.__dict__['pow'] = _sym_pow
            env.shims.add('gmpy.pow -> SymInt.__pow__')

    if rand_stub:
        def randbelow(n, _p=party):
            _p.n_randbelow += 1
            _p.randbelow_log.append(n)
            return env.fresh(f'rb_p{pid}_{_p.n_randbelow}', 0, n)

        def randbits(k, _p=party):
            _p.n_randbelow += 1
            return env.fresh(f'rbits_p{pid}_{_p.n_randbelow}', 0, 1 << k)
        import secrets as _secrets
        kc = [0]

        def token_bytes(n):
            kc[0] += 1
            tag = keytag if keytag is not None else pid
            return bytes([0x4b, tag]) + kc[0].to_bytes(n - 2, 'little')
        stub = type('secrets_stub', (), dict(randbelow=staticmethod(randbelow), randbits=staticmethod(randbits),
                                             token_bytes=staticmethod(token_bytes),
                                             SystemRandom=_secrets.SystemRandom, choice=_secrets.choice))
        for mname in ('mpyc.thresha', 'mpyc.runtime', 'mpyc.random', 'mpyc.sectypes', 'mpyc.seclists', 'mpyc.secgroups'):
            if mname in mods and 'secrets' in mods[mname].__dict__:
                mods[mname].__dict__['secrets'] = stub
        env.stubs.add('secrets.randbelow(n) -> fresh variable in [0,n), argument recorded')
        env.stubs.add('secrets.token_bytes -> deterministic distinct 128-bit key symbols')

    if prf_stub and thresha:
        def prf_call(self, s, n=None):
            if isinstance(n, tuple):
                # shape-n array: the real PRF fills the array from the same flat sequence as the list version (C-order reshape)
                import math
                flat = prf_call(self, s, math.prod(n))
                arr = thresha.np.empty(len(flat), dtype=object)
                for i_, v_ in enumerate(flat):
                    arr[i_] = v_
                return arr.reshape(n)
            n_ = 1 if n is None else n
            out = [env.fresh(f'prf_{self.key.hex()[:8]}_{bytes(s).hex()}_{self.max}_{i}', 0, self.max) if self.max > 1 else 0
                   for i in range(n_)]
            return out[0] if n is None else out
        thresha.PRF.__call__ = prf_call
        env.stubs.add('thresha.PRF.__call__ -> variable per (key, input, bound, index) in [0,bound) (contract: C17)')
    return party


def _sym_pow(x, y, m=None):
    from vf import symx
    if isinstance(x, symx.SymInt) or isinstance(y, symx.SymInt):
        if isinstance(x, symx.SymInt):
            return x.__pow__(y, m)
        return y.__rpow__(x, m)
    return builtins.pow(x, y, m) if m is not None else builtins.pow(x, y)


def load_single(env, args=(), **kw):
    """m=1 runtime (synchronous: a share is the value)."""
    mods = import_mpyc(['--no-log', *args])
    sys.modules.update(mods)          # m=1 harnesses use the copy as the live package
    kw.setdefault('table', {})
    return install(env, mods, 0, **kw)


def fval(x):
    """field value (int or SymInt) of a secure number / field element / future thereof."""
    sh = getattr(x, 'share', x)
    if hasattr(sh, 'result'):
        sh = sh.result()
    return getattr(sh, 'value', sh)


def signed(env, v, p):
    """signed representative of a canonical field value."""
    c = getattr(v, 'cong', None)
    if c is not None and c[1] == p and c[0].lo is not None and c[0].hi is not None and -(p // 2) < c[0].lo and c[0].hi < p // 2:
        from vf import symx
        return symx.SymInt(c[0].t, c[0].lo, c[0].hi)       # v == U mod p with |U| < p/2: the unreduced term U is the signed representative
    return env.ite(v > p // 2, v - p, v)
