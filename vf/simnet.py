"""simnet -- the real MPyC runtime for m parties in one process.

Every party gets a private copy of the mpyc package (own module globals, own Runtime), its own
deterministic event loop (BaseEventLoop with a dummy selector and virtual time) and in-memory
transports; Runtime.start()/shutdown() and MessageExchanger run unmodified.  The harness owns
three kinds of decision: which party runs one loop iteration, which directed connection delivers,
and how many bytes."""
import asyncio
import random as pyrandom
import sys
from asyncio import base_events, events

from vf import kit


class _DummySelector:
    def __init__(self, loop):
        self.loop = loop

    def select(self, timeout=None):
        if timeout and timeout > 0:
            self.loop._vtime += timeout
        return []

    def close(self):
        pass


class SimLoop(base_events.BaseEventLoop):
    def __init__(self, net, pid):
        super().__init__()
        self._vtime = 0.0
        self._selector = _DummySelector(self)
        self.net = net
        self.pid = pid

    def time(self):
        return self._vtime

    def _process_events(self, event_list):
        pass

    def _write_to_self(self):
        pass

    async def create_server(self, factory, host=None, port=None, **kw):
        return self.net.listen(self, factory, port)

    async def create_connection(self, factory, host=None, port=None, **kw):
        return self.net.connect(self, factory, port)

    def call_exception_handler(self, context):
        # exceptions inside MPyC coroutine tasks surface in done-callbacks: never swallow them
        exc = context.get('exception')
        self.net.errors.append(exc if exc is not None else RuntimeError(str(context.get('message'))))

    def step(self):
        events._set_running_loop(self)
        try:
            self._run_once()
        finally:
            events._set_running_loop(None)
        if self.net.errors:
            raise self.net.errors[0]


class SimTransport(asyncio.Transport):
    def __init__(self, net, conn, side):
        super().__init__()
        self.net, self.conn, self.side = net, conn, side
        self.closing = False

    def write(self, data):
        c = self.conn
        if c.dead[self.side]:
            return
        src, dst = c.pids[self.side], c.pids[1 - self.side]
        self.net.wire.append((src, dst, data))
        c.queues[self.side].extend(data)

    def writelines(self, lst):
        for x in lst:
            self.write(x)

    def close(self):
        if not self.closing:
            self.closing = True
            self.conn.close_requested = True

    def is_closing(self):
        return self.closing

    def get_extra_info(self, name, default=None):
        return default


class Conn:
    def __init__(self):
        self.queues = [bytearray(), bytearray()]      # side 0: client->server, side 1: server->client
        self.protos = [None, None]
        self.loops = [None, None]
        self.pids = [None, None]
        self.dead = [False, False]
        self.close_requested = False
        self.closed = False

    def pending(self, side):
        return len(self.queues[side])


class Server:
    def __init__(self, net, port):
        self.net, self.port = net, port

    def close(self):
        self.net.listeners.pop(self.port, None)


class Net:
    def __init__(self):
        self.listeners = {}
        self.conns = []
        self.wire = []               # (src pid, dst pid, data) for every transport write
        self.errors = []

    def listen(self, loop, factory, port):
        self.listeners[port] = (loop, factory)
        return Server(self, port)

    def connect(self, loop, factory, port):
        if port not in self.listeners:
            raise ConnectionRefusedError(port)
        sloop, sfactory = self.listeners[port]
        c = Conn()
        cp, sp = factory(), sfactory()
        c.protos = [cp, sp]
        c.loops = [loop, sloop]
        c.pids = [loop.pid, sloop.pid]
        ct, st = SimTransport(self, c, 0), SimTransport(self, c, 1)
        self.conns.append(c)
        sloop.call_soon(sp.connection_made, st)
        cp.connection_made(ct)
        return ct, cp

    def deliverable(self):
        return [(c, side) for c in self.conns for side in (0, 1) if c.queues[side] and not c.dead[1 - side]]

    def deliver(self, c, side, n=None):
        """Deliver the next n bytes (default: everything queued)."""
        q = c.queues[side]
        if n is None or n >= len(q):
            n = len(q)
        data = bytes(q[:n])
        del q[:n]
        dst = 1 - side
        c.loops[dst].call_soon(c.protos[dst].data_received, data)

    def process_closes(self):
        for c in self.conns:
            if c.close_requested and not c.closed and not c.queues[0] and not c.queues[1]:
                c.closed = True
                for i in (0, 1):
                    if not c.dead[i]:
                        c.loops[i].call_soon(c.protos[i].connection_lost, None)


class Deadlock(Exception):
    pass


class Sim:
    """m parties loaded and ready; run(program) executes start(); program(party); shutdown() at every party."""

    def __init__(self, env, m, t, args=(), table=None, install=True, per_party_args=None):
        self.env = env
        self.m, self.t = m, t
        self.net = Net()
        self.table = table if table is not None else {}
        self.parties = []
        self.loops = []
        for i in range(m):
            loop = SimLoop(self.net, i)
            asyncio.set_event_loop(loop)
            try:
                extra = list(args) + list((per_party_args or {}).get(i, []))
                mods = kit.import_mpyc([f'-M{m}', f'-I{i}', f'-T{t}', '--no-log', *extra])
            finally:
                asyncio.set_event_loop(None)
            party = kit.install(env, mods, i, table=self.table) if install else kit.Party(mods, i, env)
            party.loop = loop
            self.parties.append(party)
            self.loops.append(loop)
        self.tasks = []
        self.steps = 0

    def start(self, program, shutdown=True):
        for party in self.parties:
            async def main(party=party):
                mpc = party.mpc
                await mpc.start()
                r = await program(party)
                if shutdown:
                    await mpc.shutdown()
                return r
            self.tasks.append(party.loop.create_task(main()))

    def done(self):
        if any(tk.done() and not tk.cancelled() and tk.exception() is not None for tk in self.tasks):
            return True
        return all(tk.done() for tk in self.tasks)

    def choices(self):
        ch = [('step', i) for i, l in enumerate(self.loops) if l._ready and not getattr(l, 'crashed', False)]
        ch += [('deliver', cs) for cs in self.net.deliverable()]
        return ch

    def idle_step(self):
        """Nothing ready and nothing deliverable: advance virtual time of parties with timers."""
        timers = [i for i, l in enumerate(self.loops) if l._scheduled and not getattr(l, 'crashed', False)]
        if not timers:
            raise Deadlock([tk.done() for tk in self.tasks])
        for i in timers:
            self.loops[i].step()

    def run_canonical(self, max_steps=200000):
        """Round-robin: every party with ready callbacks runs one iteration, then every queued chunk is delivered whole."""
        while not self.done():
            self.steps += 1
            if self.steps > max_steps:
                raise RuntimeError('max steps')
            self.net.process_closes()
            ch = self.choices()
            if not ch:
                self.idle_step()
                continue
            for kind, arg in ch:
                if kind == 'step':
                    self.loops[arg].step()
                else:
                    c, side = arg
                    self.net.deliver(c, side)
        return self.results()

    def results(self):
        for tk in self.tasks:
            if tk.done() and not tk.cancelled() and tk.exception() is not None:
                raise tk.exception()
        return [tk.result() for tk in self.tasks]

    def run_random(self, seed, chunk=None, max_steps=400000):
        rng = pyrandom.Random(seed)
        while not self.done():
            self.steps += 1
            if self.steps > max_steps:
                raise RuntimeError('max steps')
            self.net.process_closes()
            ch = self.choices()
            if not ch:
                self.idle_step()
                continue
            kind, arg = rng.choice(ch)
            if kind == 'step':
                self.loops[arg].step()
            else:
                c, side = arg
                n = None if chunk is None else rng.randint(1, min(chunk, len(c.queues[side])))
                self.net.deliver(c, side, n)
        return self.results()


def run(env, m, t, program, args=(), mode='canonical', seed=0, chunk=None, **kw):
    sim = Sim(env, m, t, args, **kw)
    sim.start(program)
    if mode == 'canonical':
        res = sim.run_canonical()
    else:
        res = sim.run_random(seed, chunk)
    return res, sim
