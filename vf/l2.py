"""L2: protocol arithmetic at m=1 (a share is the value; _reshare/output are identities by the real
code), every mask, random bit and PRF output symbolic, the *real* security parameter and field size."""
import sys

from vf import kit


class AwList(list):
    def __await__(self):
        return list(self)
        yield


class L2:
    def __init__(self, env, args=(), ideal_bits=True, ideal_zero_test=False, ideal_cmp=False, rb_cap=None, k=30, fork_mod=0,
                 public_reciprocal=False, ideal_mod=False):
        self.env = env
        if env.mode == 'sym':
            from vf import symx
            symx.FORK_MOD_MAX[0] = fork_mod
        self.party = kit.load_single(env, ['-K', str(k), *args])
        self.mpc = self.party.mpc
        self.mods = self.party.mods
        self.asyncoro = self.mods['mpyc.asyncoro']
        self.sectypes = self.mods['mpyc.sectypes']
        self.n_bits = 0
        self.draw_starts = []
        self.rb_calls = 0
        self.rb_cap = rb_cap
        if ideal_bits:
            self._ideal_random_bits()
        if ideal_zero_test and env.mode == 'sym':      # replays run the real prod / is_zero_public
            self._ideal_zero_test()
        if ideal_cmp and env.mode == 'sym':            # replays run the real comparison protocol
            self._ideal_comparisons()
        if public_reciprocal:
            self._public_reciprocal()
        if ideal_mod and env.mode == 'sym':            # replays run the real reduction protocol
            self._ideal_mod()

    # ------------------------------------------------------------------ ideal functionalities
    def _ideal_random_bits(self):
        env, mpc = self.env, self.mpc

        def random_bits(sftype, n, signed=False):
            self.rb_calls += 1
            if self.rb_cap is not None and self.rb_calls > self.rb_cap and env.mode == 'sym':      # replays run the real sub-protocols, which draw bits of their own
                env.cut(f'more than {self.rb_cap} calls of random_bits on one path (restart of a rejection loop)')
            issec = isinstance(sftype, type) and issubclass(sftype, mpc.SecureObject)
            field = sftype.field if issec else sftype
            f = getattr(sftype, 'frac_length', 0) if issec else 0
            out = []
            self.draw_starts.append(self.n_bits + 1)
            for _ in range(n):
                self.n_bits += 1
                b = env.fresh(f'bit{self.n_bits}', 0, 2)
                out.append(field((2 * b - 1 if signed else b) * (1 << f)))
            if issec:
                out = [sftype(a, True) if f else sftype(a) for a in out]
            return AwList(out)
        mpc.random_bits = random_bits
        env.stubs.add('Runtime.random_bits -> fresh bits (ideal functionality; its own subject in C33)')

    def _ideal_zero_test(self):
        """prod + is_zero_public replaced by their contract: 'some factor is 0' (C01-H1 checks them at L1)."""
        import builtins
        env, mpc, asyncoro, sectypes = self.env, self.mpc, self.asyncoro, self.sectypes

        class ProdObj:
            def __init__(self, e):
                self.e = e
        self.ProdObj = ProdObj
        mpc.prod = lambda x, start=1: ProdObj(list(x))

        def is_zero_public(a):
            def iszero(x):
                return kit.fval(x) == 0
            if isinstance(a, ProdObj):
                e = a.e
            elif isinstance(getattr(a, 'share', None), ProdObj):
                e = a.share.e
            else:
                e = [a]         # plain secure number: contract "result == (value is zero)"
            return asyncoro._AwaitableFuture(env.any(iszero(x) for x in e))
        mpc.is_zero_public = is_zero_public
        for cls in (sectypes.SecureInteger, sectypes.SecureFixedPoint):
            orig = cls.__init__

            def init(self, value=None, *a, _orig=orig, **kw):
                if isinstance(value, ProdObj):
                    asyncoro.SecureObject.__init__(self, value)
                    if kw or a:
                        self.integral = True
                else:
                    _orig(self, value, *a, **kw)
            cls.__init__ = init
        env.stubs.add('Runtime.prod + is_zero_public -> "some factor is zero" (contract; checked on the real code in C01 L1 runs)')

    def _ideal_comparisons(self):
        env, mpc = self.env, self.mpc

        def sgn(a, l=None, LT=False, EQ=False):
            stype = type(a)
            F = stype.field
            p = F.modulus
            f = stype.frac_length
            v = kit.fval(a)
            s = kit.signed(env, v, p)
            if LT:
                r = env.ite(s < 0, 1, 0)
            elif EQ:
                r = env.ite(s == 0, 1, 0)
            else:
                r = env.ite(s < 0, -1, env.ite(s == 0, 0, 1))
            e = F(r * (1 << f))
            return stype(e, True) if f else stype(e)
        mpc.sgn = sgn
        mpc.is_zero = lambda a: sgn(a, EQ=True)
        env.stubs.add('Runtime.sgn/is_zero -> exact sign (contract established by C01 comparison harnesses)')

    def _ideal_mod(self):
        """secure integer divmod by a public divisor replaced by its contract (established for the real protocol by C01's
        division/remainder harnesses); used where several reductions in one call would multiply the mask forks."""
        env, mpc = self.env, self.mpc
        from vf import symx

        def divmod_(a, other):
            other = a._coerce(other)
            if other is NotImplemented:
                return NotImplemented
            stype = type(a)
            F = stype.field
            bv = kit.fval(other).__index__()
            s = kit.signed(env, kit.fval(a), F.modulus)
            with symx.no_fork():
                q, r = s // bv, s % bv
            return stype(F(q)), stype(F(r))
        self.sectypes.SecureInteger.__divmod__ = divmod_
        self.sectypes.SecureInteger.__mod__ = lambda a, b: divmod_(a, b)[1]
        env.stubs.add('SecureInteger.__divmod__(a, public b) -> (a // b, a mod b) (contract established by the C01 division/remainder harnesses; symbolic run only)')

    def _public_reciprocal(self):
        """Runtime.reciprocal of a *public* value (as in x // b, where b is coerced to a secure constant):
        replaced by the plain field inverse (contract; the masked protocol itself is a subject of C04)."""
        mpc = self.mpc
        orig = mpc.reciprocal

        def reciprocal(a):
            sh = a.share
            if hasattr(sh, 'result') and getattr(sh, 'done', lambda: False)():
                sh = sh.result()
            v = getattr(sh, 'value', None)
            const = False
            if hasattr(v, 't'):
                import z3
                const = z3.is_int_value(z3.simplify(v.t))      # a constant in symbolic clothing (operands forked by value)
            if not hasattr(sh, 'result') and (not hasattr(v, 't') or const):
                return type(a)(sh.reciprocal())
            return orig(a)
        mpc.reciprocal = reciprocal
        self.env.stubs.add('Runtime.reciprocal(public constant) -> field inverse (contract; masked protocol checked in C04)')

    # ------------------------------------------------------------------ helpers
    def secint(self, l):
        return self.mpc.SecInt(l)

    def val(self, x):
        return kit.fval(x)

    def sval(self, x):
        """signed integer value of a secure number result."""
        F = type(x).field
        return kit.signed(self.env, kit.fval(x), F.modulus)

    def cap_calls(self, obj, name, cap, note):
        """Stated bound on a restart loop: more than `cap` calls of obj.name on one path cuts the path."""
        env = self.env
        orig = getattr(obj, name)
        key = f'cap:{name}'

        def wrapped(*a, **kw):
            if env.count(key) > cap:
                env.cut(note)
            return orig(*a, **kw)
        setattr(obj, name, wrapped)
