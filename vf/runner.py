"""Runs the harness instances of one check in worker processes (hard wall-clock kill), replays
models on the unshimmed code, validates the translation, writes evidence, decides the exit code."""
import importlib
import json
import os
import subprocess
import sys
import time
from dataclasses import dataclass, field

ROOT = os.path.dirname(os.path.dirname(os.path.abspath(__file__)))
WORK = os.getenv('VF_WORK') or os.path.join(ROOT, '.work')
EVID = os.getenv('VF_EVIDENCE_DIR') or os.path.join(ROOT, 'evidence')
REPLAYS = os.path.join(WORK, 'replays') if os.getenv('VF_WORK') else os.path.join(ROOT, 'replays')
PY = os.path.join(ROOT, '.venv', 'bin', 'python')
NPROC = int(os.getenv('VF_NPROC', '14'))


@dataclass
class Inst:
    name: str
    fn: object                      # harness function fn(env)  (kind 'sym') or fn(params, seed, mode, values) (kind 'custom')
    params: dict = field(default_factory=dict)
    timeout: int = 120              # seconds wall clock for the symbolic run
    max_paths: int = 5000
    kind: str = 'sym'
    n_validate: int = 1
    goal_timeout_ms: int = None
    expect: str = 'hold'            # 'hold' | 'violated' (seeded-fault / reachability twins)
    twin: bool = False


def load_check(cid):
    return importlib.import_module(f'vf.checks.{cid.lower()}')


# ------------------------------------------------------------------------------- child side

def child_main(argv):
    cid, tier, idx, mode, out = argv[:5]
    seed = int(os.getenv('VERIF_SEED', '0') or 0)
    sys.setrecursionlimit(20000)
    mod = load_check(cid)
    inst = mod.instances(tier)[int(idx)]
    from vf import harness
    params = dict(inst.params, tier=tier)
    if inst.kind == 'sym':
        if mode == 'sym':
            res = harness.run_sym(inst.fn, params=params, seed=seed, max_paths=inst.max_paths,
                                  n_validate=inst.n_validate, goal_timeout_ms=inst.goal_timeout_ms)
        else:
            values = json.load(open(argv[5]))
            if '__seed__' in values:
                seed = values.pop('__seed__')
            res = harness.run_conc(inst.fn, values, params=params, seed=seed)
    else:
        values = json.load(open(argv[5])) if mode != 'sym' else None
        res = inst.fn(params, seed, mode, values)
    res['instance'] = inst.name
    tmp = out + '.tmp'
    with open(tmp, 'w') as f:
        json.dump(res, f, default=str)
    os.replace(tmp, out)


# ------------------------------------------------------------------------------- parent side

class Job:
    def __init__(self, cid, tier, idx, mode, tag, timeout, values=None):
        os.makedirs(os.path.join(WORK, cid), exist_ok=True)
        self.out = os.path.join(WORK, cid, f'{tier}-{idx}-{tag}.json')
        self.log = self.out[:-5] + '.log'
        if os.path.exists(self.out):
            os.remove(self.out)
        self.args = [PY, '-m', 'vf.child', cid, tier, str(idx), mode, self.out]
        if values is not None:
            vf = self.out[:-5] + '.values.json'
            json.dump(values, open(vf, 'w'))
            self.args.append(vf)
        self.timeout = timeout
        self.proc = None
        self.t0 = None
        self.result = None
        self.idx = idx
        self.tag = tag

    def start(self):
        env = dict(os.environ, PYTHONPATH=(os.environ['VF_REPO'] + os.pathsep + ROOT) if os.environ.get('VF_REPO') else ROOT, MPYC_NONUMPY=os.environ.get('MPYC_NONUMPY', '1'),
                   PYTHONHASHSEED='0', PYTHONDONTWRITEBYTECODE='1')
        self.t0 = time.time()
        self.proc = subprocess.Popen(self.args, cwd=ROOT, env=env, stdout=open(self.log, 'w'),
                                     stderr=subprocess.STDOUT)

    def poll(self):
        if self.proc.poll() is None:
            if time.time() - self.t0 > self.timeout:
                self.proc.kill()
                self.proc.wait()
                self.result = dict(status='timeout', error=f'wall-clock limit {self.timeout}s', wall=self.timeout)
                return True
            return False
        if os.path.exists(self.out):
            self.result = json.load(open(self.out))
        else:
            tail = open(self.log).read()[-3000:]
            self.result = dict(status='crash', error=tail, wall=time.time() - self.t0)
        return True


def run_jobs(jobs):
    pending = list(jobs)
    running = []
    while pending or running:
        while pending and len(running) < NPROC:
            j = pending.pop(0)
            j.start()
            running.append(j)
        for j in list(running):
            if j.poll():
                running.remove(j)
        time.sleep(0.02)
    return jobs


def known_findings():
    known, fixed = [], []
    p = os.path.join(ROOT, 'KNOWN_FINDINGS.txt')
    if os.path.exists(p):
        for line in open(p):
            line = line.strip()
            if line.startswith('known:'):
                d = dict(kv.split('=', 1) for kv in line.split()[1:3])
                known.append((d.get('property'), d.get('signature'), line))
            elif line.startswith('fixed:'):
                fixed.append(line)
    return known, fixed


def _same_obs(a, b):
    da = {}
    for l, v in a:
        da.setdefault(l, []).append(v)
    db = {}
    for l, v in b:
        db.setdefault(l, []).append(v)
    diffs = []
    for l in da:
        if l.endswith('?'):
            continue
        if l in db and da[l] != db[l]:
            diffs.append((l, da[l], db[l]))
    return diffs


def run_check(cid, tier, only=None, verbose=True):
    t0 = time.time()
    seed = int(os.getenv('VERIF_SEED', '0') or 0)
    mod = load_check(cid)
    insts = mod.instances(tier)
    sel = [i for i, it in enumerate(insts) if only is None or only in it.name]
    cap = int(os.getenv('VF_MAX_INST_TIMEOUT', '0') or 0)
    jobs = run_jobs([Job(cid, tier, i, 'sym', 'sym', min(insts[i].timeout, cap) if cap else insts[i].timeout) for i in sel])
    # second round: replays of models and translator validation on the real unshimmed code
    rjobs = []
    for j in jobs:
        r = j.result
        for k, mdl in enumerate(r.get('models', [])):
            rjobs.append((j, 'model', k, Job(cid, tier, j.idx, 'conc', f'replay{k}', 300, mdl['values'])))
        for k, v in enumerate(r.get('validation', []) if not insts[j.idx].twin else []):
            rjobs.append((j, 'val', k, Job(cid, tier, j.idx, 'conc', f'val{k}', 300, v['values'])))
    # instances whose symbolic run was inconclusive: a bounded concrete search (boundary-biased values) on the unshimmed code.
    # It can only turn "inconclusive" into a reproduced violation, never into "held".
    for j in jobs:
        r = j.result
        if r.get('status') not in ('ok',) and not insts[j.idx].twin:
            for k in range(int(os.getenv('VF_FALLBACK_RUNS', '8'))):
                rjobs.append((j, 'search', k, Job(cid, tier, j.idx, 'conc', f'search{k}', 300, {'__seed__': 1000 + k})))
    run_jobs([x[3] for x in rjobs])

    known, _fixed = known_findings()
    violations, known_hits, problems = [], [], []
    tot = dict(paths=0, decisions=0, goals=0, unsat=0, sat=0, unknown=0, feas_queries=0, solver_time=0.0,
               validated=0, replayed=0, cuts=0, aborted=0)
    functions, shims, stubs, assumptions, samples, per_inst = {}, set(), set(), set(), [], []
    twins_ok = twins = 0
    slow = []
    for j in jobs:
        it = insts[j.idx]
        r = j.result
        info = dict(instance=it.name, status=r.get('status'), paths=r.get('paths', 0), goals=r.get('goals', 0),
                    unsat=r.get('unsat', 0), sat=r.get('sat', 0), unknown=r.get('unknown', 0),
                    wall=r.get('wall'), solver_s=r.get('solver_time'), expect=it.expect)
        per_inst.append(info)
        for (lab, dt, verdict) in r.get('slow_goals', []):
            slow.append((dt, it.name, lab, verdict))
        reproduced = []
        for (jj, kind, k, rj) in rjobs:
            if jj is not j:
                continue
            rr = rj.result
            if kind == 'search':
                if rr.get('status') in ('ok', 'exception') and (rr.get('failures') or rr.get('status') == 'exception'):
                    lab = (rr.get('failures') or ['exception'])[0]
                    reproduced.append((dict(label=lab, values=rr.get('values', {}), observed=[], from_concrete_search=True), rr))
                continue
            if kind == 'model':
                tot['replayed'] += 1
                mdl = r['models'][k]
                if rr.get('status') in ('ok', 'exception') and (rr.get('failures') or rr.get('status') == 'exception'):
                    reproduced.append((mdl, rr))
                else:
                    info.setdefault('unreproduced', []).append(dict(label=mdl['label'], replay_status=rr.get('status'),
                                                                    error=(rr.get('error') or '')[:300]))
            else:
                v = r['validation'][k]
                if rr.get('status') == 'assumption_failed':
                    continue        # the concrete replay left the stated bounds (e.g. one more restart): not a validation sample
                if rr.get('status') != 'ok':
                    problems.append(f'{it.name}: validation replay {rr.get("status")}: {(rr.get("error") or "")[:400]}')
                    continue
                diffs = _same_obs(v['observed'], rr.get('observed', []))
                if r.get('sat', 0) or r.get('unknown', 0):
                    pass        # instance already has failing obligations: those are replayed and reported separately
                elif diffs or rr.get('failures'):
                    problems.append(f'{it.name}: translator validation mismatch {diffs[:3]} failures={rr.get("failures")}')
                else:
                    tot['validated'] += 1
        if it.twin:
            twins += 1
            # a twin must come back violated (seeded wrong oracle / reachability witness)
            if (r.get('sat', 0) > 0 or r.get('unknown', 0) > 0) and reproduced:
                twins_ok += 1
            else:
                problems.append(f'{it.name}: twin expected a reproduced violation, got {info}')
            continue
        for key in tot:
            if key in r and isinstance(r[key], (int, float)):
                tot[key] += r[key]
        functions.update(r.get('functions', {}))
        shims.update(r.get('shims', []))
        stubs.update(r.get('stubs', []))
        assumptions.update(r.get('assumptions', []))
        for s in r.get('samples', [])[:1]:
            if len(samples) < 4:
                samples.append(dict(instance=it.name, **s))
        if r.get('status') != 'ok' and not reproduced:
            problems.append(f'{it.name}: {r.get("status")}: {(r.get("error") or "")[:1500]}')
            continue
        if reproduced:
            for mdl, rr in reproduced:
                sig = f'{it.name}:{mdl["label"]}'
                hit = [k for k in known if k[0] == cid and k[1] == sig]
                os.makedirs(REPLAYS, exist_ok=True)
                import re
                safe = re.sub(r'[^A-Za-z0-9_.,=#\[\]()<>-]+', '_', f'{it.name}-{mdl["label"]}')[:140]
                rp = os.path.join(REPLAYS, f'{cid}-{safe}.json')
                json.dump(dict(property=cid, tier=tier, instance=it.name, index=j.idx, label=mdl['label'],
                               values=mdl['values'], symbolic_observed=mdl.get('observed'),
                               replay=dict(failures=rr.get('failures'), status=rr.get('status'), error=rr.get('error'),
                                           observed=rr.get('observed'))), open(rp, 'w'), indent=1, default=str)
                if hit:
                    if (sig, hit[0][2]) not in known_hits:
                        known_hits.append((sig, hit[0][2]))
                elif (sig, rp) not in violations:
                    violations.append((sig, rp))
        elif r.get('sat', 0) or r.get('unknown', 0):
            problems.append(f'{it.name}: {r.get("sat",0)} sat / {r.get("unknown",0)} unknown goals without reproduced '
                            f'counterexample: {info.get("unreproduced")}')
    wall = time.time() - t0
    status = 'violation' if violations else ('inconclusive' if problems else 'held')
    ev = dict(
        property_id=cid, tier=tier, seed=seed, level=getattr(mod, 'LEVEL', 'model_checking'),
        coverage=dict(
            states=tot['paths'], transitions=tot['decisions'] + tot['goals'],
            traces_validated_against_impl=tot['validated'],
            obligations=tot['goals'], discharged=tot['unsat'],
            evaluations=tot['goals'] + tot['feas_queries'], distinct_nontrivial=tot['unsat'],
            rule=('states = feasible paths of the real code executed on shadow values; transitions = symbolic branch '
                  'decisions on those paths plus proof obligations discharged at path ends; obligations are distinct '
                  '(label, path-condition, goal) triples, each decided by z3 over all values of the symbolic variables; '
                  'distinct_nontrivial = obligations answered unsat (none is syntactically trivial: trivially true '
                  'goals are simplified away before counting). ' + getattr(mod, 'RULE', '')),
            samples=samples or [dict(note='no sample recorded')],
            exhaustive=False,
            explanation=getattr(mod, 'EXPLANATION', ''),
            bounds=getattr(mod, 'BOUNDS', {}).get(tier, getattr(mod, 'BOUNDS', {})),
            functions_encoded=functions, shims=sorted(shims), stubs=sorted(stubs),
            queries=dict(goal_unsat=tot['unsat'], goal_sat=tot['sat'], goal_unknown=tot['unknown'],
                         feasibility=tot['feas_queries']),
            solver_time_s=round(tot['solver_time'], 2), paths_cut=tot['cuts'], paths_aborted=tot['aborted'],
            models_replayed=tot['replayed'], twins=dict(run=twins, violated_as_expected=twins_ok),
            instances=per_inst, outside_claim=getattr(mod, 'OUTSIDE', []),
            slowest_obligations=[dict(solver_s=a, instance=b, obligation=c, verdict=d) for a, b, c, d in sorted(slow, reverse=True)[:8]],
            status=status, problems=problems[:10],
        ),
        assumptions=sorted(assumptions) + list(getattr(mod, 'ASSUMPTIONS', [])),
        wall_s=round(wall, 2), violations=len(violations),
    )
    os.makedirs(EVID, exist_ok=True)
    with open(os.path.join(EVID, f'{cid}.json'), 'w') as f:
        json.dump(ev, f, indent=1, default=str)
    if verbose:
        for i in per_inst:
            print(f"  {i['instance']:<44} {i['status']:<10} paths={i['paths']:<5} goals={i['goals']:<5} unsat={i['unsat']:<5} "
                  f"sat={i['sat']} unk={i['unknown']} wall={i['wall']} solver={i['solver_s']}")
        print(f'{cid} {tier}: {status}; obligations {tot["unsat"]}/{tot["goals"]} discharged, paths {tot["paths"]}, '
              f'validated {tot["validated"]}, twins {twins_ok}/{twins}, wall {wall:.1f}s')
    if os.getenv('VF_SLOW'):
        for a, b, c, d in sorted(slow, reverse=True)[:12]:
            print(f'  SLOW {a:7.2f}s {d:<8} {b} :: {c}')
    for sig, line in known_hits:
        print(f'KNOWN-FINDING: property={cid} {sig} {line}')
    for p in problems:
        print('INCONCLUSIVE:', p[:2000])
    for sig, rp in violations[:8]:
        print(f'VIOLATION property={cid} replay={rp}')
    if len(violations) > 8:
        print(f'... and {len(violations) - 8} more violations (see evidence/{cid}.json)')
    if violations:
        return 1
    if problems:
        return 2
    return 0


def main(argv):
    if argv and argv[0] == '--replay':
        d = json.load(open(argv[1]))
        job = Job(d['property'], d['tier'], d['index'], 'conc', 'manualreplay', 600, d['values'])
        run_jobs([job])
        print(json.dumps(job.result, indent=1)[:4000])
        return 1 if job.result.get('failures') or job.result.get('status') == 'exception' else 0
    cid = argv[0].upper()
    tier = argv[1] if len(argv) > 1 else os.getenv('VERIF_TIER', 'quick')
    only = argv[2] if len(argv) > 2 else None
    return run_check(cid, tier, only)


if __name__ == '__main__':
    sys.exit(main(sys.argv[1:]))
