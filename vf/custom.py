"""Helpers for 'custom' harness instances (kind='custom'): harnesses whose obligations are not goals over shadow
integers (uninterpreted sorts with axioms, happens-before encodings, ...).  A custom harness is a function
fn(params, seed, mode, values); in mode 'sym' it returns a result in the same format as harness.run_sym, in mode
'conc' it replays `values` on the real unshimmed code and returns failures like harness.run_conc."""
import hashlib
import inspect
import time
import traceback


class Result:
    def __init__(self):
        self.t0 = time.time()
        self.r = dict(mode='sym', status='ok', goals=0, unsat=0, sat=0, unknown=0, solver_time=0.0, models=[], validation=[],
                      samples=[], error=None, paths=0, aborted=0, feas_queries=0, feas_time=0.0, decisions=0, complete=True,
                      feas_unknown=0, functions={}, shims=[], stubs=[], assumptions=[], nvars=0, cuts=0)

    def encoded(self, *funcs):
        for f in funcs:
            f = inspect.unwrap(getattr(f, '__func__', f))
            try:
                src = inspect.getsource(f)
                file = inspect.getsourcefile(f)
                line = inspect.getsourcelines(f)[1]
            except (OSError, TypeError):
                src, file, line = repr(f), '?', 0
            self.r['functions'][f'{f.__module__}.{f.__qualname__}'] = dict(
                file=file, line=line, sha256=hashlib.sha256(src.encode()).hexdigest()[:16])

    def note(self, kind, text):
        if text not in self.r[kind]:
            self.r[kind].append(text)

    def path(self, decisions=0):
        self.r['paths'] += 1
        self.r['decisions'] += decisions

    def goal(self, label, solver, model_values=None, sample=True):
        """Decide one obligation: `solver` holds the negated goal; unsat = discharged.  model_values(model) -> JSON-able
        dict for the concrete replay."""
        t = time.time()
        v = str(solver.check())
        dt = time.time() - t
        self.r['goals'] += 1
        self.r['solver_time'] += dt
        self.r[v] = self.r.get(v, 0) + 1
        if sample and len(self.r['samples']) < 2:
            smt = solver.to_smt2()
            self.r['samples'].append(dict(obligation=label, verdict=v, solver_s=round(dt, 3),
                                          smtlib2=smt if len(smt) < 5000 else smt[:5000] + '\n; ... truncated'))
        if v == 'sat' and len(self.r['models']) < 3 and model_values is not None:
            try:
                self.r['models'].append(dict(label=label, path=0, values=model_values(solver.model()), observed=[]))
            except Exception as e:           # a model that cannot be turned into a replay is reported as unreproduced
                self.r['models'].append(dict(label=label, path=0, values={'__bad_model__': str(e)}, observed=[]))
        return v

    def validation(self, values, observed):
        self.r['validation'].append(dict(path=0, values=values, observed=observed))

    def error(self, status, msg):
        self.r['status'] = status
        self.r['error'] = msg

    def done(self):
        r = self.r
        if r['status'] == 'ok' and r['goals'] == 0:
            r['status'] = 'vacuous'
            r['error'] = 'no goals'
        r['solver_time'] = round(r['solver_time'], 3)
        r['wall'] = round(time.time() - self.t0, 3)
        for k in ('shims', 'stubs', 'assumptions'):
            r[k] = sorted(r[k])
        return r


def guarded(fn):
    """Decorator: an exception of a custom harness in 'sym' mode is a harness error (inconclusive), in 'conc' mode an
    exception raised inside /repo's code is a reproduced failure."""
    def wrapper(params, seed, mode, values):
        try:
            return fn(params, seed, mode, values)
        except Exception as e:
            tb = traceback.extract_tb(e.__traceback__)
            in_repo = bool(tb) and '/mpyc/' in tb[-1].filename and '/verif/' not in tb[-1].filename
            err = f'{type(e).__name__}: {e}\n{traceback.format_exc()[-2500:]}'
            if mode == 'sym':
                res = Result()
                res.error('error', err)
                return res.done()
            return dict(mode='conc', status='exception' if in_repo else 'harness_error', failures=[], observed=[], error=err,
                        values=values)
    wrapper.__name__ = fn.__name__
    return wrapper


def conc_result(failures, observed=(), values=None, status='ok', error=None):
    return dict(mode='conc', status=status, failures=list(failures), observed=[list(o) for o in observed], error=error,
                values=values or {})
