"""hbsmt -- orderings as solver variables.

From one instrumented reference run of the real m-party runtime (concrete inputs) an event graph per party is built:
every loop callback (handle) with the handle that scheduled it, every network write with the handle that issued it and
the delivery that enqueued data_received, and every access to a program-counter list (fork of a coroutine, PRSS uci).
Integer timestamps of the handles are the solver variables; constraints: parent before child, send before arrival,
per-connection FIFO, FIFO of each party's ready queue.  Query: can two accesses to the same program-counter list by
different tasks be ordered differently than in the reference run?  unsat for all pairs: the labels of all messages are
the same function of the program in every schedule of the model.  sat: the model is replayed on the real code by minimal
perturbation of the reference schedule (the two enabling deliveries made adjacent, or swapped)."""
import asyncio
import itertools
import time

from vf import kit, simnet


class TLoop(simnet.SimLoop):
    """SimLoop that tags every handle with id, parent handle, enqueue index and the delivery that enqueued it."""

    def __init__(self, net, pid):
        super().__init__(net, pid)
        self.current = None
        self.handles = {}
        self._enq = 0
        self.created = []          # tasks created on this loop (name, task)

    def call_soon(self, callback, *args, context=None, ext=None):
        hid = next(self.net.hid_counter)
        self._enq += 1
        self.handles[hid] = dict(party=self.pid, parent=self.current, idx=self._enq, ext=ext, ran=None,
                                 name=getattr(callback, '__qualname__', repr(callback))[:60])
        log = self.net.log

        def run(*a):
            prev, self.current = self.current, hid
            self.handles[hid]['ran'] = len(log)
            log.append(('run', self.pid, hid))
            try:
                return callback(*a)
            finally:
                self.current = prev
        return super().call_soon(run, *args, context=context)

    def create_task(self, coro, **kw):
        t = super().create_task(coro, **kw)
        self.created.append((getattr(coro, '__qualname__', type(coro).__name__), t))
        return t


class TTransport(simnet.SimTransport):
    def write(self, data):
        loop = self.conn.loops[self.side]
        net = self.net
        wid = len(net.writes)
        net.writes.append(dict(wid=wid, conn=self.conn, side=self.side, data=bytes(data), sender_hid=loop.current, sender=loop.pid))
        self.conn.wq[self.side].append(wid)
        net.wire.append((self.conn.pids[self.side], self.conn.pids[1 - self.side], bytes(data)))


class TNet(simnet.Net):
    def __init__(self):
        super().__init__()
        self.writes = []
        self.log = []
        self.pclog = []
        self.hid_counter = itertools.count(1)
        self.close_log = []
        self.keepalive = []

    def connect(self, loop, factory, port):
        if port not in self.listeners:
            raise ConnectionRefusedError(port)
        sloop, sfactory = self.listeners[port]
        c = simnet.Conn()
        c.wq = [[], []]
        cp, sp = factory(), sfactory()
        c.protos = [cp, sp]
        c.loops = [loop, sloop]
        c.pids = [loop.pid, sloop.pid]
        ct, st = TTransport(self, c, 0), TTransport(self, c, 1)
        self.conns.append(c)
        sloop.call_soon(sp.connection_made, st)
        cp.connection_made(ct)
        return ct, cp

    def deliverable(self):
        return [(c, side) for c in self.conns for side in (0, 1) if c.wq[side]]

    def deliver_write(self, c, side):
        wid = c.wq[side].pop(0)
        w = self.writes[wid]
        dst = 1 - side
        c.loops[dst].call_soon(c.protos[dst].data_received, w['data'], ext=wid)
        return wid

    def process_closes(self):
        for c in self.conns:
            if c.close_requested and not c.closed and not c.wq[0] and not c.wq[1]:
                c.closed = True
                for i in (0, 1):
                    c.loops[i].call_soon(c.protos[i].connection_lost, None)


def _load(m, t, net, args):
    parties = []
    for i in range(m):
        loop = TLoop(net, i)
        asyncio.set_event_loop(loop)
        try:
            mods = kit.import_mpyc([f'-M{m}', f'-I{i}', f'-T{t}', '--no-log', *args])
        finally:
            asyncio.set_event_loop(None)
        party = kit.Party(mods, i, None)
        party.loop = loop
        parties.append(party)
    return parties


def _tid(net, task):
    net.keepalive.append(task)
    return id(task)


def _instrument(party, net):
    """log every access to a program-counter list: which list object, which task, which handle."""
    pid, loop, mods = party.pid, party.loop, party.mods
    asyncoro = mods['mpyc.asyncoro']
    W = asyncoro._ProgramCounterWrapper
    orig = W.__init__

    def init(self, rt, coro):
        ctxobj = rt._program_counter
        ctx = id(ctxobj)
        orig(self, rt, coro)
        net.keepalive.append(ctxobj)        # ids are only unique among live objects
        net.pclog.append(dict(party=pid, hid=loop.current, ctx=ctx, task=_tid(net, asyncio.current_task(loop)), counter=rt._program_counter[0],
                              kind='fork', coro=getattr(coro, '__qualname__', '?')))
    W.__init__ = init
    rt_cls = type(party.mpc)
    orig_uci = rt_cls._prss_uci

    def uci(self):
        ctxobj = self._program_counter
        ctx = id(ctxobj)
        r = orig_uci(self)
        net.keepalive.append(ctxobj)
        net.pclog.append(dict(party=pid, hid=loop.current, ctx=ctx, task=_tid(net, asyncio.current_task(loop)), counter=self._program_counter[0],
                              kind='uci', coro=''))
        return r
    rt_cls._prss_uci = uci
    party.exchangers = []
    ME = asyncoro.MessageExchanger
    orig_me = ME.__init__

    def me_init(self, *a, _o=orig_me, **kw):
        _o(self, *a, **kw)
        party.exchangers.append(self)
    ME.__init__ = me_init
    # barrier / shutdown observations (C35): pending MPyC coroutine tasks at barrier return and at the first connection close
    party.obs = dict(barrier_pending=[], close_pending=[], levels=[])
    orig_barrier = rt_cls.barrier

    async def barrier(self, name=None, _o=orig_barrier):
        top = self._program_counter[1] == 0
        await _o(self, name)
        if top:
            me = asyncio.current_task(loop)
            party.obs['barrier_pending'].append([n for n, tk in loop.created if not tk.done() and tk is not me and n != 'Sim.main' and 'main' not in n])
            party.obs['levels'].append(self._pc_level)
    rt_cls.barrier = barrier
    orig_unset = rt_cls.unset_protocol

    def unset_protocol(self, peer_pid, _o=orig_unset):
        return _o(self, peer_pid)
    rt_cls.unset_protocol = unset_protocol
    orig_close = TTransport.close


class Run:
    pass


def run_instrumented(m, t, program, args=(), order=None, only_party=None, batch=None, max_steps=300000):
    """Reference policy: parties run to quiescence, then the write with the lowest global id is delivered (whole).
    order: write ids with delivery priority (at only_party); batch: {wid: wid2} deliver wid2 right after wid."""
    net = TNet()
    parties = _load(m, t, net, args)
    for p in parties:
        _instrument(p, net)
    tasks, gates, started = [], [], [False] * m
    for p in parties:
        gate = asyncio.Event()
        gates.append(gate)

        async def main(p=p, gate=gate):
            await p.mpc.start()
            started[p.pid] = True
            await gate.wait()
            r = await program(p.mpc)
            # every MPyC coroutine task must be finished before shutdown closes a connection: observed in TTransport.close
            p.closing = True
            await p.mpc.shutdown()
            return r
        tasks.append(p.loop.create_task(main()))
    # observe pending coroutine tasks at the first transport close of each party
    closed_seen = set()
    orig_close = TTransport.close

    def close(self):
        pid = self.conn.pids[self.side]
        if pid not in closed_seen:
            closed_seen.add(pid)
            lp = parties[pid].loop
            parties[pid].obs['close_pending'].append([n for n, tk in lp.created if not tk.done() and tk is not tasks[pid] and 'shutdown' not in n and 'main' not in n])
        return orig_close(self)
    TTransport.close = close
    prio = {w: k for k, w in enumerate(order)} if order else {}
    run = Run()
    run.gate_hid = None
    run.net, run.parties, run.tasks = net, parties, tasks
    run.deadlock = False
    run.error = None
    starve = 0
    try:
        for step in range(max_steps):
            if run.gate_hid is None and all(started) and not any(p.loop._ready for p in parties) and not net.deliverable():
                run.gate_hid = next(net.hid_counter)
                for g in gates:
                    g.set()
            if all(tk.done() for tk in tasks):
                break
            if any(tk.done() and tk.exception() is not None for tk in tasks):
                break
            net.process_closes()
            ready = [p for p in parties if p.loop._ready]
            if ready:
                for p in ready:
                    p.loop.step()
                starve += 1
                # a party spinning in a barrier (sleep(0) loop) is always ready: deliveries must not starve
                if starve < 4 or not net.deliverable():
                    continue
            starve = 0
            dl = net.deliverable()
            if dl:
                def rank(cs):
                    c, side = cs
                    wid = c.wq[side][0]
                    dst = c.loops[1 - side].pid
                    if only_party is None or dst == only_party:
                        return (0, prio.get(wid, 10**9 + wid))
                    return (0, 10**9 + wid) if not prio else (1, wid)
                c, side = min(dl, key=rank)
                wid = net.deliver_write(c, side)
                while batch and wid in batch:
                    nxt = batch[wid]
                    hit = [(c2, s2) for c2 in net.conns for s2 in (0, 1) if c2.wq[s2] and c2.wq[s2][0] == nxt]
                    if not hit:
                        break
                    wid = net.deliver_write(*hit[0])
                continue
            timers = [p for p in parties if p.loop._scheduled]
            if not timers:
                run.deadlock = True
                break
            timers[0].loop.step()
        else:
            run.deadlock = True        # no termination within the step budget (e.g. a barrier that never returns)
    except Exception as e:       # exception of the real code in a loop callback
        run.error = e
    finally:
        TTransport.close = orig_close
    if run.deadlock or run.error is not None or not all(tk.done() for tk in tasks):
        run.results = None
        if run.error is None:
            for tk in tasks:
                if tk.done() and tk.exception() is not None:
                    run.error = tk.exception()
    else:
        excs = [tk.exception() for tk in tasks]
        if any(e is not None for e in excs):
            run.results = None
            run.error = [e for e in excs if e is not None][0]
        else:
            run.results = [tk.result() for tk in tasks]
    return run


def frames_of(run):
    """independent frame parser over the per-connection byte streams: {(src,dst): [(label, size)]}; handshake stripped."""
    import struct
    streams = {}
    for (src, dst, data) in run.net.wire:
        streams.setdefault((src, dst), bytearray()).extend(data)
    out = {}
    rt0 = run.parties[0].mpc
    m = len(run.parties)
    for (src, dst), data in streams.items():
        data = bytes(data)
        off = 0
        if src < dst:        # client -> server: pid + PRSS keys first
            nkeys = 0
            if not rt0.options.no_prss:
                t = rt0.threshold
                nkeys = sum(1 for S in itertools.combinations(range(m), m - t) if S[0] == src and dst in S)
            off = 2 + 16 * nkeys
        fr = []
        while off + 12 <= len(data):
            pc, size = struct.unpack_from('<qI', data, off)
            fr.append((pc, size))
            off += 12 + size
        out[(src, dst)] = (fr, off == len(data))
    return out


class PartyGraph:
    """event graph of party P from a reference run (no solver objects yet)."""

    def __init__(self, run, P):
        net, parties = run.net, run.parties
        self.run, self.P, self.net = run, P, net
        H = {}
        for p in parties:
            H.update(p.loop.handles)
        self.H = H
        self.HP = {h for h, d in H.items() if d['party'] == P and d['ran'] is not None and h > run.gate_hid}
        self._deps = {}
        ev = [e for e in net.pclog if e['party'] == P]
        self.cands = []
        for e1, e2 in itertools.combinations(ev, 2):
            if e1['ctx'] != e2['ctx'] or e1['hid'] == e2['hid'] or e1['task'] == e2['task']:
                continue
            if e1['hid'] not in self.HP or e2['hid'] not in self.HP:
                continue
            if e1['hid'] in set(self.anc(e2['hid'])) or e2['hid'] in set(self.anc(e1['hid'])):
                continue
            self.cands.append((e1, e2))

    def anc(self, h):
        while h is not None:
            yield h
            h = self.H[h]['parent']

    def deps(self, wid):
        """handles of P that causally precede write wid (through ancestor chains of other parties)"""
        memo = self._deps
        if wid in memo:
            return memo[wid]
        memo[wid] = out = set()
        w = self.net.writes[wid]
        if w['sender_hid'] is None:
            return out
        if w['sender'] == self.P:
            out.add(w['sender_hid'])
            return out
        for a in self.anc(w['sender_hid']):
            if self.H[a]['ext'] is not None:
                out |= self.deps(self.H[a]['ext'])
        return out

    def past(self, hids):
        """causal past of the given handles within party P (closed under parent and send-before-arrival)."""
        R, todo = set(), list(hids)
        while todo:
            h = todo.pop()
            if h in R or h not in self.HP:
                continue
            R.add(h)
            d = self.H[h]
            if d['parent'] is not None:
                todo.append(d['parent'])
            if d['ext'] is not None:
                todo.extend(self.deps(d['ext']))
        return R

    def encode(self, R):
        """constraints over the handles in R (a causally closed set): returns (T, E, constraints)."""
        import z3
        H = self.H
        R = sorted(R)
        T = {h: z3.Int(f'T{h}') for h in R}
        E = {h: z3.Int(f'E{h}') for h in R if H[h]['ext'] is not None}
        cons = []
        for h in R:
            d = H[h]
            cons.append(T[h] >= 0)
            if d['parent'] is not None and d['parent'] in T:
                cons.append(T[d['parent']] < T[h])
            if d['ext'] is not None:
                cons.append(E[h] < T[h])
                cons.append(E[h] >= 0)
                for g in self.deps(d['ext']):
                    if g in T:
                        cons.append(T[g] < E[h])
        per_conn = {}
        for h in E:
            w = self.net.writes[H[h]['ext']]
            per_conn.setdefault((id(w['conn']), w['side']), []).append((H[h]['ext'], h))
        for lst in per_conn.values():
            lst.sort()
            for (_, h1), (_, h2) in zip(lst, lst[1:]):
                cons.append(E[h1] < E[h2])
        K = 100000

        def key(h):
            d = H[h]
            if d['ext'] is not None:
                return E[h] * K
            if d['parent'] is None or d['parent'] not in T:
                return z3.IntVal(d['idx'])
            return T[d['parent']] * K + d['idx']
        for h, g in itertools.combinations(R, 2):
            cons.append(z3.Implies(key(h) < key(g), T[h] < T[g]))
            cons.append(z3.Implies(key(g) < key(h), T[g] < T[h]))
            cons.append(T[h] != T[g])
        return T, E, cons


def ext_anc(H, h):
    while h is not None:
        if H[h]['ext'] is not None:
            return h
        h = H[h]['parent']
    return None


def wkey(net, wid):
    w = net.writes[wid]
    c = w['conn']
    src, dst = c.pids[w['side']], c.pids[1 - w['side']]
    seq = sum(1 for v in net.writes[:wid] if v['conn'] is c and v['side'] == w['side'])
    return (src, dst, seq)


def analyse(m, t, program, args=(), query_timeout_ms=30000, max_queries=60, budget_s=240):
    """Reference run + per-party encoding + order-flip queries + perturbation replays.
    Returns dict(reference=run, queries=[...], confirmed=[...], stats)."""
    import z3
    t0 = time.time()
    ref = run_instrumented(m, t, program, args)
    out = dict(reference=ref, queries=[], confirmed=[], unreproduced=[], stats=dict(parties=[], solver_s=0.0, replays=0), samples=[])
    if ref.results is None:
        return out
    asked = set()
    for P in range(m):
        G = PartyGraph(ref, P)
        H = G.H
        out['stats']['parties'].append(dict(party=P, handles=len(G.HP), candidates=len(G.cands)))
        for e1, e2 in G.cands:
            if len(out['queries']) >= max_queries or time.time() - t0 > budget_s:
                out['stats']['truncated'] = True
                break
            a1, a2 = ext_anc(H, e1['hid']), ext_anc(H, e2['hid'])
            sig = (P, a1, a2)
            R = G.past([e1['hid'], e2['hid']])
            T, E, cons = G.encode(R)
            s = z3.Solver()
            s.set('timeout', query_timeout_ms)
            s.add(*cons)
            s.add(T[e2['hid']] < T[e1['hid']])
            t1 = time.time()
            r = str(s.check())
            dt = time.time() - t1
            out['stats']['solver_s'] += dt
            q = dict(party=P, pair=f'{e1["coro"].split(".")[-1] or e1["kind"]}#{e1["counter"]} vs {e2["coro"].split(".")[-1] or e2["kind"]}#{e2["counter"]}',
                     verdict=r, solver_s=round(dt, 2), handles=len(R), constraints=len(cons))
            out['queries'].append(q)
            if len(out['samples']) < 3:
                out['samples'].append(dict(obligation=f'party {P}: can "{q["pair"]}" (two accesses to one program-counter list by different tasks) be reordered? '
                                                      f'{len(cons)} happens-before constraints over the {len(R)} callbacks in their causal past', verdict=r))
            if r != 'sat' or a1 is None or a2 is None or sig in asked:
                continue
            asked.add(sig)
            w1, w2 = H[a1]['ext'], H[a2]['ext']
            reproduced = False
            for mode in ('batch', 'swap'):
                if mode == 'batch':
                    alt = run_instrumented(m, t, program, args, batch={w1: w2})
                else:
                    alt = run_instrumented(m, t, program, args, order=[w2, w1], only_party=wkey(ref.net, w1)[1])
                out['stats']['replays'] += 1
                if alt.results is None or alt.results != ref.results:
                    out['confirmed'].append(dict(party=P, pair=q['pair'], mode=mode, w1=w1, w2=w2, k1=wkey(ref.net, w1), k2=wkey(ref.net, w2),
                                                 outcome='deadlock/exception' if alt.results is None else 'different outputs',
                                                 error=repr(alt.error)[:300] if alt.error is not None else None))
                    reproduced = True
                    break
            if not reproduced:
                out['unreproduced'].append(q['pair'])
            if reproduced:
                return out
    out['stats']['wall'] = round(time.time() - t0, 2)
    return out


# ------------------------------------------------------------------ shared driver for the C08 / C09 / C35 checks

def label_problems(run):
    """C09 facts of one run: labels pairwise distinct per directed connection, streams parse completely, nothing left in any
    exchanger's buffers (no unconsumed payload, no receive still waiting)."""
    probs = []
    for (src, dst), (fr, complete) in frames_of(run).items():
        labels = [l for l, _ in fr]
        if len(set(labels)) != len(labels):
            probs.append(f'duplicate label on connection {src}->{dst}')
        if not complete:
            probs.append(f'byte stream {src}->{dst} does not end at a frame boundary')
    for p in run.parties:
        for ex in p.exchangers:
            buf = ex.buffers
            if buf:
                kinds = ['waiting receive' if hasattr(v, 'set_result') else 'unconsumed payload' for v in buf.values()]
                probs.append(f'party {p.pid}: {len(buf)} entries left in buffers for peer {ex.peer_pid} at shutdown: {sorted(set(kinds))}')
            if ex.bytes:
                probs.append(f'party {p.pid}: {len(ex.bytes)} unparsed bytes left from peer {ex.peer_pid}')
    return probs


def barrier_problems(run, name):
    probs = []
    for p in run.parties:
        for i, pend in enumerate(p.obs['barrier_pending']):
            if pend:
                probs.append(f'party {p.pid}: barrier {i} returned with MPyC coroutines still running: {pend[:4]}')
        for lv in p.obs['levels']:
            if lv != 0:
                probs.append(f'party {p.pid}: _pc_level == {lv} after a top-level barrier returned')
        for pend in p.obs['close_pending']:
            if pend:
                probs.append(f'party {p.pid}: connection closed while MPyC coroutines were still running: {pend[:4]}')
        if not p.obs['close_pending'] and len(run.parties) > 1 and run.results is not None and p.pid < len(run.parties) - 1:
            probs.append(f'party {p.pid}: shutdown completed without closing its connections')
    for c in run.net.conns:
        if run.results is not None and not c.closed:
            probs.append(f'connection {c.pids} still open after shutdown of all parties')
    return probs


def run_problems(name, m, run, what):
    from vf import hbcorpus
    probs = hbcorpus.check_results(name, m, run.results)
    if run.results is not None:
        if what in ('C09', 'all'):
            probs += label_problems(run)
        if what in ('C35', 'all'):
            probs += barrier_problems(run, name)
    return probs


def random_run(m, t, program, args, seed, max_steps=300000):
    """concrete fallback (only used when the symbolic stage is inconclusive): random delivery order / interleaving."""
    import random
    rnd = random.Random(seed)
    net = TNet()
    parties = _load(m, t, net, args)
    for p in parties:
        _instrument(p, net)
    tasks = []
    for p in parties:
        async def main(p=p):
            await p.mpc.start()
            r = await program(p.mpc)
            await p.mpc.shutdown()
            return r
        tasks.append(p.loop.create_task(main()))
    run = Run()
    run.net, run.parties, run.tasks, run.deadlock, run.error, run.gate_hid = net, parties, tasks, False, None, 0
    try:
        for step in range(max_steps):
            if all(tk.done() for tk in tasks) or any(tk.done() and tk.exception() is not None for tk in tasks):
                break
            net.process_closes()
            ch = [('s', p) for p in parties if p.loop._ready] + [('d', cs) for cs in net.deliverable()]
            if not ch:
                timers = [p for p in parties if p.loop._scheduled]
                if not timers:
                    run.deadlock = True
                    break
                timers[0].loop.step()
                continue
            k, a = rnd.choice(ch)
            if k == 's':
                a.loop.step()
            else:
                net.deliver_write(*a)
        else:
            run.deadlock = True
    except Exception as e:
        run.error = e
    ok = not run.deadlock and run.error is None and all(tk.done() and tk.exception() is None for tk in tasks)
    run.results = [tk.result() for tk in tasks] if ok else None
    return run
