"""Corpus of MPC programs for the schedule checks (C08, C09, C35).  Each program is an async function of a party's mpc
object and returns plain Python values; inputs are concrete, so the expected outputs are concrete too."""


async def p_arith(mpc):
    secint = mpc.SecInt(16)
    x = mpc.input(secint(mpc.pid + 7))
    y = x[0] * x[1] + x[-1]
    z = mpc.in_prod(x, x)
    w = mpc.prod(x)
    return await mpc.output([y, z, w]), await mpc.output(y - z, receivers=0)


async def p_compare_mod(mpc):
    secint = mpc.SecInt(16)
    x = mpc.input(secint(5 * mpc.pid + 3))
    a, b = x[0], x[-1]
    r = [a < b, a == b, (a + b) % 5, mpc.max(a, b), abs(a - b), (a * 7) // 4]
    return await mpc.output(r)


async def p_mod_in_coroutine(mpc):
    """a % b evaluated inside an MPyC coroutine after a network wait, while main keeps forking (the Runtime.mod finding)"""
    secint = mpc.SecInt(16)
    x = mpc.input(secint(mpc.pid + 7))

    @mpc.coroutine
    async def f(a):
        await mpc.returnType(secint)
        b = await mpc.output(a * a)
        return a % 3 + (b % 2)
    r = f(x[0])
    ys = []
    for i in range(3):
        ys.append(await mpc.output(x[-1] * x[0] + i))
    return await mpc.output(r), ys


async def p_nested(mpc):
    """nested user coroutines, awaiting an already-completed result, coroutine results used by later coroutines"""
    secint = mpc.SecInt(16)
    x = mpc.input(secint(2 * mpc.pid + 1))

    @mpc.coroutine
    async def g(a, b):
        await mpc.returnType(secint)
        c = await mpc.output(a + b)
        return a * b + c

    @mpc.coroutine
    async def h(a):
        await mpc.returnType(secint)
        u = g(a, a)
        v = g(a, u)
        return u * v
    r1 = h(x[0])
    r2 = g(x[-1], x[0])
    o1 = await mpc.output(r2)
    o2 = await mpc.output(r2)        # already completed
    o3 = await mpc.output(r1 + r2)
    return o1, o2, o3


async def p_pending_vectors(mpc):
    """vector operations whose operands are still pending (in_prod, matrix_prod, scalar_mul, schur_prod of products)"""
    secint = mpc.SecInt(16)
    x = mpc.input(secint(mpc.pid + 2))
    a, b = x[0], x[-1]
    u = [a * b, a * a, b * b]
    v = [b * b * a, a + b, a * b]
    r = mpc.in_prod(u, v)
    s = mpc.schur_prod(u, v)
    M = mpc.matrix_prod([u[:2], v[:2]], [v[:2], u[:2]])
    w = mpc.scalar_mul(r, u)
    o1 = await mpc.output(r)
    o2 = await mpc.output(s + w + M[0] + M[1])
    return o1, o2


async def p_fxp_convert(mpc):
    secfxp = mpc.SecFxp(16, 8)
    secint = mpc.SecInt(16)
    x = mpc.input(secfxp(1.5 + mpc.pid))
    y = x[0] * x[-1] + (0.75 if len(mpc.parties) % 2 else 0.25)   # products are exact, y integral: no probabilistic rounding
    z = mpc.convert(y, secint)
    w = mpc.convert(z * 2, secfxp)
    return await mpc.output([y, w]), await mpc.output(z)


async def p_random_seclist(mpc):
    """secure randomness (PRSS uci increments), secure lists, sorting"""
    secint = mpc.SecInt(16)
    x = mpc.input(secint(3 * mpc.pid + 1))
    a, b = x[0], x[-1]
    r = mpc._random(secint, 1 << 8)
    bits = mpc.random_bits(secint, 3)
    sl = mpc.seclist([a, b, a + b], secint)
    sl[mpc.unit_vector(secint(1), 3)] = a * b
    sl.sort()
    srt = mpc.sorted([b, a, a * b])
    o = await mpc.output(list(sl) + srt + [r - r, bits[0] * (1 - bits[0])])
    return o


async def p_barriers(mpc):
    """barriers at top level while coroutines (typed and returning None) are in flight"""
    secint = mpc.SecInt(16)
    x = mpc.input(secint(mpc.pid + 4))
    seen = []

    @mpc.coroutine
    async def side(a) -> None:
        v = await mpc.output(a * a)
        seen.append(int(v))

    @mpc.coroutine
    async def g(a):
        await mpc.returnType(secint)
        c = await mpc.output(a + 1)
        return a * c
    side(x[0])
    mpc.peek(x[0], 'x0')             # library coroutine with return type None
    r = g(x[-1])
    s = x[0] * x[-1] * r
    await mpc.barrier('first')
    n1 = len(seen)
    side(s)
    t_ = g(s)
    await mpc.barrier('second')
    n2 = len(seen)
    return n1, n2, await mpc.output([r, s, t_])


async def p_transfer_io(mpc):
    secint = mpc.SecInt(16)
    x = mpc.input(secint(mpc.pid + 1), senders=0)
    y = mpc.input([secint(mpc.pid), secint(2)], senders=[0, len(mpc.parties) - 1])
    msg = await mpc.transfer(('hello', mpc.pid))
    o = await mpc.output(x * y[0][0] + y[1][1], receivers=[0], threshold=mpc.threshold)
    o2 = await mpc.output(y[1][0] + x)
    m = len(mpc.parties)
    b1 = await mpc.transfer(('bcast', mpc.pid), senders=0)                       # broadcast from party 0
    b2 = await mpc.transfer(mpc.pid * 10, receivers=m - 1)                        # everybody to the last party
    b3 = await mpc.transfer(mpc.pid + 100, senders=[0, m - 1], receivers=[0])    # two senders, one receiver
    return [m_[1] for m_ in msg], o, o2, b1, b2, b3


async def p_two_inprods(mpc):
    """two concurrent inner products whose operands come from different senders (they become available in either order)"""
    secint = mpc.SecInt(16)
    m = len(mpc.parties)
    x = mpc.input(secint(3), senders=m - 2 if m > 1 else 0)
    u = mpc.input(secint(4), senders=m - 1)
    p = mpc.in_prod([x, x], [secint(5), secint(2)])
    q = mpc.in_prod([u], [secint(7)])
    r = mpc.sum([p, q, x])
    w = mpc.in_prod([p, q], [u, x])
    return await mpc.output([p, q, r, w])


CORPUS = {
    'arith': p_arith,
    'compare_mod': p_compare_mod,
    'mod_in_coroutine': p_mod_in_coroutine,
    'nested': p_nested,
    'pending_vectors': p_pending_vectors,
    'fxp_convert': p_fxp_convert,
    'random_seclist': p_random_seclist,
    'barriers': p_barriers,
    'transfer_io': p_transfer_io,
    'two_inprods': p_two_inprods,
}


# ------------------------------------------------------------------ plain-Python oracles: expected result of party pid

def _sgn(v):
    return (v > 0) - (v < 0)


def expected(name, m, pid, t=None):
    if t is None:
        t = (m - 1) // 2
    if name == 'arith':
        x = [i + 7 for i in range(m)]
        y = x[0] * x[1 % m] + x[-1]
        z = sum(a * a for a in x)
        w = 1
        for a in x:
            w *= a
        return ([y, z, w], (y - z) if pid == 0 else None)
    if name == 'compare_mod':
        x = [5 * i + 3 for i in range(m)]
        a, b = x[0], x[-1]
        return [int(a < b), int(a == b), (a + b) % 5, max(a, b), abs(a - b), (a * 7) // 4]
    if name == 'mod_in_coroutine':
        x = [i + 7 for i in range(m)]
        a = x[0]
        return (a % 3 + ((a * a) % 2), [x[-1] * x[0] + i for i in range(3)])
    if name == 'nested':
        x = [2 * i + 1 for i in range(m)]

        def g(a, b):
            return a * b + (a + b)

        def h(a):
            u = g(a, a)
            v = g(a, u)
            return u * v
        r1, r2 = h(x[0]), g(x[-1], x[0])
        return (r2, r2, r1 + r2)
    if name == 'pending_vectors':
        x = [i + 2 for i in range(m)]
        a, b = x[0], x[-1]
        u = [a * b, a * a, b * b]
        v = [b * b * a, a + b, a * b]
        r = sum(p * q for p, q in zip(u, v))
        s = [p * q for p, q in zip(u, v)]
        A, B = [u[:2], v[:2]], [v[:2], u[:2]]
        M = [[sum(A[i][k] * B[k][j] for k in range(2)) for j in range(2)] for i in range(2)]
        w = [r * p for p in u]
        return (r, s + w + M[0] + M[1])
    if name == 'fxp_convert':
        x = [1.5 + i for i in range(m)]
        y = x[0] * x[-1] + (0.75 if m % 2 else 0.25)
        z = int(y)
        assert y == z, 'corpus constants chosen so that y is integral (deterministic conversion)'
        return ([y, 2 * z], z)
    if name == 'random_seclist':
        return None         # contains secret randomness: agreement across parties; the deterministic part is checked below
    if name == 'barriers':
        x = [i + 4 for i in range(m)]

        def g(a):
            return a * (a + 1)
        r = g(x[-1])
        s = x[0] * x[-1] * r
        return (1, 2, [r, s, g(s)])
    if name == 'transfer_io':
        x = 1                       # value of sender 0
        y00, y01 = 0, 2             # from sender 0
        y10, y11 = m - 1, 2         # from sender m-1
        o = x * y00 + y11
        b1 = ('bcast', 0)
        b2 = [i * 10 for i in range(m)] if pid == m - 1 else []          # list of senders: parties that are not receivers get an empty list
        b3 = ([100, m - 1 + 100] if m > 1 else [100, 100]) if pid == 0 else []
        return ([i for i in range(m)], o if pid == 0 else None, y10 + x, b1, b2, b3)
    if name == 'two_inprods':
        x, u = 3, 4
        p = x * 5 + x * 2
        q = u * 7
        return [p, q, p + q + x, p * u + q * x]
    raise KeyError(name)


def check_results(name, m, results):
    """list of problems with the per-party results of one run (empty = as expected)."""
    probs = []
    if results is None:
        return ['no results (deadlock or exception)']
    for pid, r in enumerate(results):
        want = expected(name, m, pid)
        if want is None:
            continue
        if _norm(r) != _norm(want):
            probs.append(f'party {pid}: got {r!r}, expected {want!r}')
    if name in ('fxp_convert', 'random_seclist'):
        if any(_norm(r) != _norm(results[0]) for r in results):
            probs.append(f'parties disagree: {results!r}')
        if name == 'random_seclist' and results:
            o = [int(v) for v in results[0]]
            a, b = 1, 3 * (m - 1) + 1
            sl = sorted([a, a * b, a + b])
            srt = sorted([b, a, a * b])
            if o[:3] != sl or o[3:6] != srt or o[6] != 0 or o[7] != 0:
                probs.append(f'deterministic part wrong: {o!r}')
    return probs


def _norm(x):
    if isinstance(x, (list, tuple)):
        return [_norm(v) for v in x]
    if isinstance(x, float) and x == int(x):
        return int(x)
    return x
