import sys
from vf.runner import child_main
if __name__ == '__main__':
    child_main(sys.argv[1:])
