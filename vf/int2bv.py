"""Sound translation of a bounded integer formula into bit-vectors (for small finite fields, where
z3's nonlinear integer engine gives up but bit-blasting decides in seconds).

Every free Int variable must have a known range.  An interval is computed bottom-up for every integer
subterm; the width W is chosen so that no subterm (and no intermediate n-ary product/sum prefix) can
overflow W-bit signed arithmetic, so the BV formula is equisatisfiable with the Int formula."""
import z3


class Unsupported(Exception):
    pass


def _bits(lo, hi):
    return max(lo.bit_length() if lo >= 0 else (-lo - 1).bit_length(),
               hi.bit_length() if hi >= 0 else (-hi - 1).bit_length()) + 1


class Translator:
    def __init__(self, bounds, max_width=96):
        self.bounds = bounds
        self.max_width = max_width
        self.iv_cache = {}
        self.need = 2
        self.vars = {}
        self.extra = []
        self.nq = 0

    # ------------------------------------------------------------- intervals
    def iv(self, e):
        k = e.get_id()
        if k in self.iv_cache:
            return self.iv_cache[k]
        r = self._iv(e)
        self.need = max(self.need, _bits(*r))
        self.iv_cache[k] = r
        return r

    def _iv(self, e):
        if z3.is_int_value(e):
            v = e.as_long()
            return (v, v)
        if not z3.is_app(e):
            raise Unsupported('non-app')
        kind = e.decl().kind()
        ch = e.children()
        if kind == z3.Z3_OP_UNINTERPRETED and not ch:
            n = str(e)
            if n not in self.bounds or None in self.bounds[n]:
                raise Unsupported(f'no bounds for {n}')
            lo, hi = self.bounds[n]
            return (lo, hi)
        if kind == z3.Z3_OP_ADD:
            lo = hi = 0
            for c in ch:
                a, b = self.iv(c)
                lo, hi = lo + a, hi + b
                self.need = max(self.need, _bits(lo, hi))
            return (lo, hi)
        if kind == z3.Z3_OP_SUB:
            lo, hi = self.iv(ch[0])
            for c in ch[1:]:
                a, b = self.iv(c)
                lo, hi = lo - b, hi - a
                self.need = max(self.need, _bits(lo, hi))
            return (lo, hi)
        if kind == z3.Z3_OP_UMINUS:
            a, b = self.iv(ch[0])
            return (-b, -a)
        if kind == z3.Z3_OP_MUL:
            lo, hi = self.iv(ch[0])
            for c in ch[1:]:
                a, b = self.iv(c)
                cs = [lo * a, lo * b, hi * a, hi * b]
                lo, hi = min(cs), max(cs)
                self.need = max(self.need, _bits(lo, hi))
            return (lo, hi)
        if kind in (z3.Z3_OP_IDIV, z3.Z3_OP_DIV):
            a, b = self.iv(ch[0])
            c, d = self.iv(ch[1])
            if c <= 0 <= d:
                raise Unsupported('division by a term that may be zero')
            mx = max(abs(a), abs(b)) + 1
            return (-mx, mx)
        if kind == z3.Z3_OP_MOD:
            self.iv(ch[0])
            c, d = self.iv(ch[1])
            if c <= 0 <= d:
                raise Unsupported('mod by a term that may be zero')
            return (0, max(abs(c), abs(d)) - 1)
        if kind == z3.Z3_OP_ITE:
            self.walk_bool(ch[0])
            a, b = self.iv(ch[1])
            c, d = self.iv(ch[2])
            return (min(a, c), max(b, d))
        raise Unsupported(f'int op {e.decl().name()}')

    def walk_bool(self, e):
        k = ('b', e.get_id())
        if k in self.iv_cache:
            return
        self.iv_cache[k] = True
        if z3.is_true(e) or z3.is_false(e):
            return
        kind = e.decl().kind()
        ch = e.children()
        if kind in (z3.Z3_OP_AND, z3.Z3_OP_OR, z3.Z3_OP_NOT, z3.Z3_OP_IMPLIES, z3.Z3_OP_XOR, z3.Z3_OP_IFF):
            for c in ch:
                self.walk_bool(c)
            return
        if kind == z3.Z3_OP_ITE:
            for c in ch:
                self.walk_bool(c)
            return
        if kind in (z3.Z3_OP_EQ, z3.Z3_OP_DISTINCT):
            if z3.is_bool(ch[0]):
                for c in ch:
                    self.walk_bool(c)
            else:
                for c in ch:
                    self.iv(c)
            return
        if kind in (z3.Z3_OP_LE, z3.Z3_OP_LT, z3.Z3_OP_GE, z3.Z3_OP_GT):
            for c in ch:
                self.iv(c)
            return
        if kind == z3.Z3_OP_UNINTERPRETED and not ch:
            return
        raise Unsupported(f'bool op {e.decl().name()}')

    # ------------------------------------------------------------- translation
    def tr(self, e, W, cache):
        k = e.get_id()
        if k in cache:
            return cache[k]
        r = self._tr(e, W, cache)
        cache[k] = r
        return r

    def _divmod(self, a, b, W):
        q0 = a / b            # bvsdiv: truncation toward zero
        r0 = z3.SRem(a, b)    # sign follows dividend
        zero = z3.BitVecVal(0, W)
        neg = r0 < zero
        q = z3.If(neg, z3.If(b > zero, q0 - 1, q0 + 1), q0)
        r = z3.If(neg, z3.If(b > zero, r0 + b, r0 - b), r0)
        return q, r

    def _tr(self, e, W, cache):
        if z3.is_int_value(e):
            return z3.BitVecVal(e.as_long(), W)
        kind = e.decl().kind()
        ch = e.children()
        if kind == z3.Z3_OP_UNINTERPRETED and not ch:
            n = str(e)
            v = z3.BitVec(n, W)
            self.vars[n] = v
            return v
        T = lambda c: self.tr(c, W, cache)
        if kind == z3.Z3_OP_ADD:
            r = T(ch[0])
            for c in ch[1:]:
                r = r + T(c)
            return r
        if kind == z3.Z3_OP_SUB:
            r = T(ch[0])
            for c in ch[1:]:
                r = r - T(c)
            return r
        if kind == z3.Z3_OP_UMINUS:
            return -T(ch[0])
        if kind == z3.Z3_OP_MUL:
            r = T(ch[0])
            for c in ch[1:]:
                r = r * T(c)
            return r
        if kind in (z3.Z3_OP_IDIV, z3.Z3_OP_DIV, z3.Z3_OP_MOD):
            i = 0 if kind != z3.Z3_OP_MOD else 1
            if z3.is_int_value(ch[1]):
                # constant divisor: a = n*q + r, 0 <= r < |n| with fresh q, r (no division circuit)
                key = ('qr', ch[0].get_id(), ch[1].as_long())
                if key not in cache:
                    n = ch[1].as_long()
                    a = T(ch[0])
                    self.nq += 1
                    q = z3.BitVec(f'q!bv{self.nq}', W)
                    r = z3.BitVec(f'r!bv{self.nq}', W)
                    lo, hi = self.iv(ch[0])
                    mx = max(abs(lo), abs(hi)) // abs(n) + 1
                    self.extra.append(z3.And(a == z3.BitVecVal(n, W) * q + r, r >= 0, r < abs(n),
                                             q >= z3.BitVecVal(-mx, W), q <= z3.BitVecVal(mx, W)))
                    cache[key] = (q, r)
                return cache[key][i]
            return self._divmod(T(ch[0]), T(ch[1]), W)[i]
        if kind == z3.Z3_OP_ITE:
            return z3.If(self.trb(ch[0], W, cache), T(ch[1]), T(ch[2]))
        raise Unsupported(f'int op {e.decl().name()}')

    def trb(self, e, W, cache):
        k = ('b', e.get_id())
        if k in cache:
            return cache[k]
        r = self._trb(e, W, cache)
        cache[k] = r
        return r

    def _trb(self, e, W, cache):
        if z3.is_true(e) or z3.is_false(e):
            return e
        kind = e.decl().kind()
        ch = e.children()
        B = lambda c: self.trb(c, W, cache)
        T = lambda c: self.tr(c, W, cache)
        if kind == z3.Z3_OP_AND:
            return z3.And(*[B(c) for c in ch])
        if kind == z3.Z3_OP_OR:
            return z3.Or(*[B(c) for c in ch])
        if kind == z3.Z3_OP_NOT:
            return z3.Not(B(ch[0]))
        if kind == z3.Z3_OP_IMPLIES:
            return z3.Implies(B(ch[0]), B(ch[1]))
        if kind == z3.Z3_OP_XOR:
            return z3.Xor(B(ch[0]), B(ch[1]))
        if kind == z3.Z3_OP_ITE:
            return z3.If(B(ch[0]), B(ch[1]), B(ch[2]))
        if kind in (z3.Z3_OP_EQ, z3.Z3_OP_IFF):
            if z3.is_bool(ch[0]):
                return B(ch[0]) == B(ch[1])
            return T(ch[0]) == T(ch[1])
        if kind == z3.Z3_OP_DISTINCT:
            if z3.is_bool(ch[0]):
                return z3.Distinct(*[B(c) for c in ch])
            return z3.Distinct(*[T(c) for c in ch])
        if kind == z3.Z3_OP_LE:
            return T(ch[0]) <= T(ch[1])
        if kind == z3.Z3_OP_LT:
            return T(ch[0]) < T(ch[1])
        if kind == z3.Z3_OP_GE:
            return T(ch[0]) >= T(ch[1])
        if kind == z3.Z3_OP_GT:
            return T(ch[0]) > T(ch[1])
        if kind == z3.Z3_OP_UNINTERPRETED and not ch:
            return e
        raise Unsupported(f'bool op {e.decl().name()}')


def solve_bv(assertions, bounds, timeout_ms=60000, max_width=96):
    """Returns (verdict, model dict name->int or None, width).  verdict 'n/a' if not translatable."""
    tr = Translator(bounds, max_width)
    try:
        for a in assertions:
            tr.walk_bool(a)
        W = tr.need + 1
        if W > max_width:
            return 'n/a', None, W
        cache = {}
        bv = [tr.trb(a, W, cache) for a in assertions]
    except Unsupported:
        return 'n/a', None, 0
    s = z3.SolverFor('QF_BV')
    s.set('timeout', timeout_ms)
    for n, v in tr.vars.items():
        lo, hi = bounds[n]
        s.add(v >= z3.BitVecVal(lo, W), v <= z3.BitVecVal(hi, W))
    s.add(*bv)
    s.add(*tr.extra)
    r = str(s.check())
    model = None
    if r == 'sat':
        m = s.model()
        model = {}
        for n, v in tr.vars.items():
            x = m.eval(v, model_completion=True).as_signed_long()
            model[n] = x
    return r, model, W


def selftest(seed=0, n=60):
    """Translator validation: random small bounded formulas must get the same verdict from the Int and the BV route."""
    import random
    rnd = random.Random(seed)
    x, y, z = z3.Ints('x y z')
    bounds = {'x': (-7, 9), 'y': (0, 12), 'z': (-3, 3)}

    def rterm(d):
        if d == 0 or rnd.random() < 0.3:
            return rnd.choice([x, y, z, z3.IntVal(rnd.randint(-5, 5))])
        op = rnd.choice('+-*%/i')
        a, b = rterm(d - 1), rterm(d - 1)
        if op == '+': return a + b
        if op == '-': return a - b
        if op == '*': return a * b
        if op == '%': return a % rnd.choice([2, 3, 5, 7, 11])
        if op == '/': return a / rnd.choice([2, 3, 4, -3])
        return z3.If(a < b, a, b)
    bad = 0
    for _ in range(n):
        f = rterm(3) == rterm(2) if rnd.random() < 0.5 else rterm(3) <= rterm(3)
        s = z3.Solver()
        for nme, (lo, hi) in bounds.items():
            s.add(z3.Int(nme) >= lo, z3.Int(nme) <= hi)
        s.add(f)
        ri = str(s.check())
        rb, _, _ = solve_bv([f], bounds)
        if ri != rb:
            bad += 1
    return bad


if __name__ == '__main__':
    print('disagreements:', selftest())
