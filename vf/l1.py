"""L1: the real m-party runtime (simnet) on symbolic inputs / dealer randomness / PRF outputs.

A program is an async body(party, X, api) executed by every party between start() and shutdown();
it returns {label: ('out', value) | ('share', own share) | ('none', value)}.  The oracle computes
the expected plain values from the symbolic inputs.  Checks (C01, C04, C06, C07, C11, C14, C19)
pick the assertions they need from one run."""
import inspect
import sys

from vf import kit, simnet
from vf.algebra import interp

L = 8   # bit length of the secure integer type used by the L1 corpus


class Api:
    """What a program body may use besides the party's own mpc object."""

    def __init__(self, env, party, m, t, l):
        self.env, self.party, self.m, self.t, self.l = env, party, m, t, l
        self.mpc = party.mpc
        self.secint = self.mpc.SecInt(l)
        self.F = self.secint.field
        self.p = self.F.modulus

    def inp(self, X, k):
        """secure input of value X[k], provided by party k mod m."""
        s = k % self.m
        mine = self.party.pid == s
        v = self.secint(self.F(X[k])) if mine else self.secint(0)
        return self.mpc.input(v, senders=s)

    async def share(self, y):
        sh = await self.mpc.gather(y)
        return ('share', sh.value)

    async def out(self, y, **kw):
        v = await self.mpc.output(y, raw=True, **kw)
        return ('out', None if v is None else v.value)


# ------------------------------------------------------------------ corpus (secure integers)

async def p_mul_add(party, X, api):
    mpc = api.mpc
    a, b, c = api.inp(X, 0), api.inp(X, 1), api.inp(X, 2)
    y = a * b + c
    return {'y': await api.out(y), 's_y': await api.share(y), 's_a': await api.share(a)}


def o_mul_add(X):
    return {'y': X[0] * X[1] + X[2], 's_y': X[0] * X[1] + X[2], 's_a': X[0]}


async def p_linear(party, X, api):
    a, b, c = api.inp(X, 0), api.inp(X, 1), api.inp(X, 2)
    y = -(a - b) + 5 - c * 3 + (7 - a) + (+b)
    z = 2 * a - b * (-3)
    return {'y': await api.out(y), 'z': await api.out(z), 's_y': await api.share(y)}


def o_linear(X):
    y = -(X[0] - X[1]) + 5 - X[2] * 3 + (7 - X[0]) + X[1]
    return {'y': y, 'z': 2 * X[0] + 3 * X[1], 's_y': y}


async def p_in_prod(party, X, api):
    mpc = api.mpc
    a, b, c = api.inp(X, 0), api.inp(X, 1), api.inp(X, 2)
    y = mpc.in_prod([a, b], [b, c])
    w = mpc.in_prod([a, b], [a, b])
    return {'y': await api.out(y), 's_y': await api.share(y), 'w': await api.out(w)}


def o_in_prod(X):
    return {'y': X[0] * X[1] + X[1] * X[2], 's_y': X[0] * X[1] + X[1] * X[2], 'w': X[0] * X[0] + X[1] * X[1]}


async def p_prod3(party, X, api):
    mpc = api.mpc
    a, b, c = api.inp(X, 0), api.inp(X, 1), api.inp(X, 2)
    y = mpc.prod([a, b, c])
    return {'y': await api.out(y), 's_y': await api.share(y)}


def o_prod3(X):
    return {'y': X[0] * X[1] * X[2], 's_y': X[0] * X[1] * X[2]}


async def p_pow3(party, X, api):
    a = api.inp(X, 0)
    y = a ** 3
    return {'y': await api.out(y), 's_y': await api.share(y)}


def o_pow3(X):
    return {'y': X[0] ** 3, 's_y': X[0] ** 3}


async def p_vec(party, X, api):
    mpc = api.mpc
    a, b, c = api.inp(X, 0), api.inp(X, 1), api.inp(X, 2)
    v = mpc.scalar_mul(a, [b, c])
    s = mpc.sum(v)
    sp = mpc.schur_prod([a, b], [c, a])
    va = mpc.vector_add([a, b], [c, c])
    vs = mpc.vector_sub([a, b], [c, c])
    return {'s': await api.out(s), 's_s': await api.share(s), 'sp0': await api.out(sp[0]), 'sp1': await api.out(sp[1]),
            'va1': await api.out(va[1]), 'vs0': await api.out(vs[0]), 's_sp1': await api.share(sp[1])}


def o_vec(X):
    return {'s': X[0] * X[1] + X[0] * X[2], 's_s': X[0] * X[1] + X[0] * X[2], 'sp0': X[0] * X[2], 'sp1': X[1] * X[0],
            'va1': X[1] + X[2], 'vs0': X[0] - X[2], 's_sp1': X[1] * X[0]}


async def p_matrix(party, X, api):
    mpc = api.mpc
    a, b, c = api.inp(X, 0), api.inp(X, 1), api.inp(X, 2)
    A = [[a, b], [c, a]]
    B = [[b, c], [a, b]]
    C = mpc.matrix_prod(A, B)
    D = mpc.matrix_prod(A, B, tr=True)
    return {'c00': await api.out(C[0][0]), 'c01': await api.out(C[0][1]), 'c10': await api.out(C[1][0]),
            'c11': await api.out(C[1][1]), 'd01': await api.out(D[0][1]), 's_c10': await api.share(C[1][0])}


def o_matrix(X):
    a, b, c = X[0], X[1], X[2]
    return {'c00': a * b + b * a, 'c01': a * c + b * b, 'c10': c * b + a * a, 'c11': c * c + a * b,
            'd01': a * a + b * b, 's_c10': c * b + a * a}


async def p_select(party, X, api):
    mpc = api.mpc
    a, b, c = api.inp(X, 0), api.inp(X, 1), api.inp(X, 3)    # X[3] is a bit
    y = mpc.if_else(c, a, b)
    u, v = mpc.if_swap(c, a, b)
    w = mpc.if_else(c, [a, b], [b, a])
    return {'y': await api.out(y), 'u': await api.out(u), 'v': await api.out(v), 'w0': await api.out(w[0]),
            's_u': await api.share(u)}


def o_select(X):
    a, b, c = X[0], X[1], X[3]
    return {'y': c * (a - b) + b, 'u': c * (b - a) + a, 'v': c * (a - b) + b, 'w0': c * (a - b) + b,
            's_u': c * (b - a) + a}


async def p_allany(party, X, api):
    mpc = api.mpc
    a, b, c = api.inp(X, 3), api.inp(X, 4), api.inp(X, 5)    # bits
    y = mpc.all([a, b, c])
    z = mpc.any([a, b, c])
    return {'y': await api.out(y), 'z': await api.out(z), 's_z': await api.share(z)}


def o_allany(X):
    a, b, c = X[3], X[4], X[5]
    return {'y': a * b * c, 'z': 1 - (1 - a) * (1 - b) * (1 - c), 's_z': 1 - (1 - a) * (1 - b) * (1 - c)}


async def p_zero_public(party, X, api):
    mpc = api.mpc
    a, b = api.inp(X, 0), api.inp(X, 1)
    e = await mpc.eq_public(a, b)
    z = await mpc.is_zero_public(a * b)
    return {'e': ('bool', e), 'z': ('bool', z)}


def o_zero_public(X):
    return {'e': X[0] == X[1], 'z': (X[0] * X[1]) == 0}


async def p_randoms(party, X, api):
    """shares of secure randomness form a consistent sharing of *some* value (C11), PRSS and dealer variants."""
    mpc = api.mpc
    r = mpc._random(api.secint)
    rb = mpc._random(api.secint, 1 << 12)
    rf = mpc._random(api.F, 1 << 12)
    if mpc.options.no_prss:
        rf = (await rf)[0]
    rf = api.secint(rf)
    a = api.inp(X, 0)
    y = a + r - r
    return {'s_r': await api.share(r), 's_rb': await api.share(rb), 's_rf': await api.share(rf), 'y': await api.out(y)}


def o_randoms(X):
    return {'y': X[0]}


async def p_output_conv(party, X, api):
    """non-raw output: the real _output_conversion (int of the signed representative); threshold given explicitly."""
    mpc = api.mpc
    a, b = api.inp(X, 0), api.inp(X, 1)
    y = a - b
    v = await mpc.output(y)
    w = await mpc.output([a, y], threshold=api.t)
    return {'v': ('int', v), 'w0': ('int', w[0]), 'w1': ('int', w[1])}


def o_output_conv(X):
    return {'v': X[0] - X[1], 'w0': X[0], 'w1': X[0] - X[1]}


async def p_zero_share(party, X, api):
    """PRSS zero sharings (degree 2t, secret 0) as used by the small-field zero tests and random_bits, added to a product before opening"""
    mpc = api.mpc
    a, b = api.inp(X, 0), api.inp(X, 1)
    F = api.F
    if mpc.options.no_prss:
        return {'y': await api.out(a * b)}
    m = len(mpc.parties)
    prfs = mpc.prfs(F.order)
    z = party.thresha.pseudorandom_share_zero(F, m, mpc.pid, prfs, mpc._prss_uci(), 2)
    sa, sb = await mpc.gather(a, b)
    c = F(sa.value * sb.value + z[0].value)           # degree-2t sharing of a*b, re-randomised
    y = await mpc.output(c, threshold=2 * mpc.threshold)
    return {'z0': ('share2t', z[0].value), 'z1': ('share2t', z[1].value), 'y': ('out', y.value)}


def o_zero_share(X):
    return {'y': X[0] * X[1], 'z0': 0, 'z1': 0}


CORPUS = {
    'zero_share': (p_zero_share, o_zero_share),
    'mul_add': (p_mul_add, o_mul_add),
    'linear': (p_linear, o_linear),
    'in_prod': (p_in_prod, o_in_prod),
    'prod3': (p_prod3, o_prod3),
    'pow3': (p_pow3, o_pow3),
    'vec': (p_vec, o_vec),
    'matrix': (p_matrix, o_matrix),
    'select': (p_select, o_select),
    'allany': (p_allany, o_allany),
    'zero_public': (p_zero_public, o_zero_public),
    'randoms': (p_randoms, o_randoms),
    'output_conv': (p_output_conv, o_output_conv),
}


# ------------------------------------------------------------------ corpus (secure prime fields, small p)

def _fld_inp(api, secfld, X, k):
    s = k % api.m
    mine = api.party.pid == s
    v = secfld(secfld.field(X[k])) if mine else secfld(0)
    return api.mpc.input(v, senders=s)


async def p_fld_zero(party, X, api):
    mpc = api.mpc
    secfld = mpc.SecFld(api.env.params['p'])
    a, b = _fld_inp(api, secfld, X, 0), _fld_inp(api, secfld, X, 1)
    e = await mpc.is_zero_public(a - b)
    z = await mpc.eq_public(a * b, secfld(0))
    return {'e': ('bool', e), 'z': ('bool', z)}


def o_fld_zero(X, p):
    return {'e': X[0] == X[1], 'z': (X[0] == 0) | (X[1] == 0)}


async def p_fld_arith(party, X, api):
    mpc = api.mpc
    secfld = mpc.SecFld(api.env.params['p'])
    a, b, c = _fld_inp(api, secfld, X, 0), _fld_inp(api, secfld, X, 1), _fld_inp(api, secfld, X, 2)
    y = a * b - c + 3
    w = (a + b) * (a - b)
    out = await mpc.output([y, w], raw=True)
    sy = await mpc.gather(y)
    return {'y': ('fld', out[0].value), 'w': ('fld', out[1].value), 's_y': ('share', sy.value)}


def o_fld_arith(X, p):
    return {'y': (X[0] * X[1] - X[2] + 3) % p, 'w': ((X[0] + X[1]) * (X[0] - X[1])) % p, 's_y': (X[0] * X[1] - X[2] + 3)}


FLD_CORPUS = {'fld_zero': (p_fld_zero, o_fld_zero), 'fld_arith': (p_fld_arith, o_fld_arith)}


def run_fld_program(env, m, t, prss, name, p, k, instrument=None):
    body, oracle = FLD_CORPUS[name]
    X = [env.fresh(f'x{i}', 0, p) for i in range(3)]
    want = oracle(X, p)
    args = ['-K', str(k)] + ([] if prss else ['--no-prss'])
    sim = simnet.Sim(env, m, t, args)
    for party in sim.parties:
        if instrument:
            instrument(party, sim)
        log_calls(party, '_randoms', 'output')
    apis = {}

    async def prog(party):
        api = Api(env, party, m, t, 8)
        apis[party.pid] = api
        return await body(party, X, api)
    sim.start(prog)
    results = guarded_run(env, sim)
    rt = sim.parties[0].mpc
    R = type(rt)
    env.encoded(R.is_zero_public, R.output, R._reshare, R.mul, R._randoms)
    return dict(X=X, want=want, results=results, sim=sim, p=p, m=m, t=t)


def zero_test_obligations(env, run, A_list, regime):
    """Decomposition of is_zero_public for prime fields of any size:
      lemma  opened value == A * R (mod p) for every party  (polynomial identity, decided by z3)
      fact   Z_p has no zero divisors
      medium/small fields: the retry loop guarantees R*S != 0 on this path, hence R != 0
      large fields: R != 0 is the documented assumption ("nonzero with high probability")
    so that the final obligation 'result <=> A == 0' is linear reasoning over the shared terms."""
    if run['results'] is None:
        return
    p, m, t = run['p'], run['m'], run['t']
    parties = run['sim'].parties
    ntests = len(A_list)
    for j, A in enumerate(A_list):
        # per party: the _randoms call and the output calls belonging to test j (no restart on this path)
        rs_vals, c_vals, R_sh, S_sh = [], [], [], []
        for party in parties:
            rl = [resolved(x) for x in party.calllog['_randoms']]
            ol = [resolved(x) for x in party.calllog['output'] if not isinstance(resolved(x), list) or True]
            # outputs opened inside the zero tests are single field elements (not lists)
            ol = [x for x in ol if not isinstance(x, list)]
            if regime == 'large':
                r = rl[j][0]
                c = ol[j]
                R_sh.append(kit.fval(r))
            else:
                r, s_ = rl[j][0], rl[j][1]
                R_sh.append(kit.fval(r))
                S_sh.append(kit.fval(s_))
                rs_vals.append(kit.fval(ol[2 * j]))
                c = ol[2 * j + 1]
            c_vals.append(kit.fval(c))
        R = secret_of(R_sh, t, p)
        no_zero_divisors(env, A, R, p)
        if regime == 'large':
            env.assume((R % p) != 0, note='multiplicative mask of is_zero_public on large fields is non-zero '
                       '(documented "nonzero with high probability"; excluded mass 1/p)')
        else:
            S = secret_of(S_sh, t, p)
            no_zero_divisors(env, R, S, p)
            for pid in range(m):
                env.lemma(f'rs_opened[{j}]@{pid}', (rs_vals[pid] - R * S) % p == 0)
        for pid in range(m):
            env.lemma(f'masked_opened[{j}]@{pid}', (c_vals[pid] - A * R) % p == 0)
        # small steps (each becomes an assumption for the next once discharged): keeps the final obligation linear
        if regime != 'large':
            env.lemma(f'mask_nonzero[{j}]', (R % p) != 0)
        for pid in range(m):
            env.lemma(f'opened_zero_iff_product_zero[{j}]@{pid}', (c_vals[pid] == 0) == ((A * R) % p == 0))
            env.lemma(f'opened_zero_iff_input_zero[{j}]@{pid}', (c_vals[pid] == 0) == ((A % p) == 0))


def log_calls(party, *names):
    """Wrap Runtime methods of this party's copy so that their return values are kept (in call order)."""
    mpc = party.mpc
    party.calllog = getattr(party, 'calllog', {})
    for name in names:
        orig = getattr(mpc, name)
        log = party.calllog.setdefault(name, [])

        def wrapped(*a, _orig=orig, _log=log, **kw):
            r = _orig(*a, **kw)
            _log.append(r)
            return r
        setattr(mpc, name, wrapped)


def resolved(x):
    if hasattr(x, 'result') and hasattr(x, 'done'):
        x = x.result()
    if hasattr(x, 'share'):
        x = x.share
        if hasattr(x, 'result'):
            x = x.result()
    return x


def secret_of(vals, t, p):
    """constant term of the degree-<=t polynomial through the first t+1 parties' share values (unreduced)."""
    xs = list(range(1, len(vals) + 1))
    return interp(xs[:t+1], vals[:t+1], 0, p)


def is_prime(n):
    if n < 2:
        return False
    for q in (2, 3, 5, 7, 11, 13, 17, 19, 23, 29, 31, 37):
        if n % q == 0:
            return n == q
    d, s = n - 1, 0
    while d % 2 == 0:
        d //= 2
        s += 1
    for a in (2, 3, 5, 7, 11, 13, 17, 19, 23, 29, 31, 37):     # deterministic for n < 3.3e24; fields here are checked by mpyc too
        x = pow(a, d, n)
        if x in (1, n - 1):
            continue
        for _ in range(s - 1):
            x = x * x % n
            if x == n - 1:
                break
        else:
            return False
    return True


def no_zero_divisors(env, x, y, p):
    """fact instance for a prime p: x*y == 0 (mod p)  <=>  x == 0 or y == 0 (mod p)."""
    assert is_prime(p)
    env.fact(((x * y) % p == 0) == (((x % p) == 0) | ((y % p) == 0)),
             'Z_p has no zero divisors (p prime, checked by the harness), instantiated for the masked zero tests')


class _AwList(list):
    def __await__(self):
        return list(self)
        yield


def install_ideal_bits(env, sim):
    """m-party ideal functionality for random_bits: a fresh degree-t sharing of a fresh bit, the same variables at every
    party (keyed by the per-party call counter, which is schedule independent for these straight-line programs)."""
    t = sim.t
    for party in sim.parties:
        mpc = party.mpc
        cnt = [0]

        def random_bits(sftype, n, signed=False, _mpc=mpc, _pid=party.pid, _cnt=cnt):
            _cnt[0] += 1
            call = _cnt[0]
            issec = isinstance(sftype, type) and issubclass(sftype, _mpc.SecureObject)
            field = sftype.field if issec else sftype
            f = getattr(sftype, 'frac_length', 0) if issec else 0
            p = field.modulus
            out = []
            for idx in range(n):
                b = env.fresh(f'gbit{call}_{idx}', 0, 2)
                v = (2 * b - 1 if signed else b) * (1 << f)
                y = 0
                for j in range(t):
                    c = env.fresh(f'gbc{call}_{idx}_{j}', 0, p)
                    y = (y + c) * (_pid + 1)
                out.append(field(y + v))
            if issec:
                out = [sftype(a, True) if f else sftype(a) for a in out]
            return _AwList(out)
        mpc.random_bits = random_bits
    env.stubs.add('Runtime.random_bits (m parties) -> fresh degree-t sharing of a fresh bit, same variables at every party (ideal functionality; C33)')


# ------------------------------------------------------------------ glue corpus: L2 protocols run with m parties

async def g_lsb(party, X, api):
    mpc = api.mpc
    a, b = api.inp(X, 0), api.inp(X, 1)
    y = mpc.lsb(a + b)
    return {'y': await api.out(y), 's_y': await api.share(y)}


def og_lsb(X):
    return {'y': (X[0] + X[1]) % 2, 's_y': (X[0] + X[1]) % 2, '_range': [X[0] + X[1]]}


async def g_tz(party, X, api):
    mpc = api.mpc
    a = api.inp(X, 0)
    bits = mpc.trailing_zeros(a)
    out = await mpc.output(bits, raw=True)
    return {f'b{i}': ('out', v.value) for i, v in enumerate(out)}


def og_tz(X):
    return {'_tz': X[0]}


async def g_to_bits(party, X, api):
    mpc = api.mpc
    a, b = api.inp(X, 0), api.inp(X, 1)
    bits = mpc.to_bits(a + b)
    out = await mpc.output(bits, raw=True)
    sh = await mpc.gather(bits[0])
    return dict({f'b{i}': ('out', v.value) for i, v in enumerate(out)}, s_b0=('share', sh.value))


def og_to_bits(X):
    return {'_bits': X[0] + X[1], '_range': [X[0] + X[1]]}


GLUE = {'lsb': (g_lsb, og_lsb), 'tz': (g_tz, og_tz), 'to_bits': (g_to_bits, og_to_bits)}


def run_glue(env, m, t, prss, name, l):
    """L2 protocol `name` executed by m parties (real output/_reshare/_random/mul), random_bits ideal."""
    body, oracle = GLUE[name]
    h = 1 << (l - 1)
    X = [env.fresh(f'x{k}', -h, h) for k in range(2)]
    want = oracle(X)
    for w in want.get('_range', []):
        env.assume((w >= -h) & (w < h), note='values stay within l bits')
    from vf import symx
    if env.mode == 'sym':
        symx.FORK_MOD_MAX[0] = 1 << l
    sim = simnet.Sim(env, m, t, ['-K', '30'] + ([] if prss else ['--no-prss']))
    install_ideal_bits(env, sim)
    apis = {}

    async def prog(party):
        api = Api(env, party, m, t, l)
        apis[party.pid] = api
        return await body(party, X, api)
    sim.start(prog)
    results = guarded_run(env, sim)
    rt = sim.parties[0].mpc
    R = type(rt)
    env.encoded(R.lsb, R.trailing_zeros, R.to_bits, R.add_bits, R._random, R._randoms, R.output, R._reshare)
    run = dict(X=X, want={k: v for k, v in want.items() if not k.startswith('_')}, results=results, sim=sim, p=apis[0].p, m=m, t=t, l=l)
    if results is None:
        return run
    p = run['p']
    with symx.no_fork():
        if '_tz' in want:
            a = want['_tz']
            u = a % (1 << l)
            for pid in range(m):
                lower_zero = True
                for i in range(l):
                    v = kit.signed(env, results[pid][f'b{i}'][1], p)
                    env.check(f'tz[{i}]@{pid}', env.implies(lower_zero, v == (u // (1 << i)) % 2))
                    lower_zero = env.all([lower_zero, (u // (1 << i)) % 2 == 0])
        if '_bits' in want:
            a = want['_bits']
            for pid in range(m):
                s = 0
                for i in range(l):
                    v = kit.signed(env, results[pid][f'b{i}'][1], p)
                    env.check(f'bit[{i}]in01@{pid}', (v == 0) | (v == 1))
                    s = s + v * (1 << i)
                env.eq(f'bits@{pid}', s, a % (1 << l))
    return run


def guarded_run(env, sim):
    """Run the simulation; a deadlock or an exception of the real code becomes a failed obligation
    (so that it is replayed and reported), never a harness error."""
    from vf.symx import Unmodelled
    try:
        return sim.run_canonical()
    except simnet.Deadlock as e:
        env.check('all_parties_terminate', False)
    except (Unmodelled, AssertionError):
        raise
    except Exception as e:
        if type(e).__name__ in ('AssumptionFailed',):
            raise
        env.check(f'no_exception[{type(e).__name__}]', False)
    return None


def make_inputs(env, l=L, small=False):
    """X[0..2]: l-bit signed values (products of the corpus stay in range by assumption), X[3..5]: bits."""
    h = 1 << (l - 1)
    X = [env.fresh(f'x{k}', -h, h) for k in range(3)]
    X += [env.fresh(f'b{k}', 0, 2) for k in range(3)]
    return X


def in_range(env, v, l=L):
    h = 1 << (l - 1)
    return (v >= -h) & (v < h)


def run_program(env, m, t, prss, name, l=L, instrument=None, sim_hook=None):
    body, oracle = CORPUS[name]
    X = make_inputs(env, l)
    want = oracle(X)
    # property precondition: results (and intermediate values) stay within l bits
    for lab, w in want.items():
        if not isinstance(w, (bool,)) and not lab.startswith('s_') and hasattr(w, '__sub__') and not _is_boolish(w):
            env.assume(in_range(env, w, l), note='results stay within l bits (precondition of C01)')
    if name == 'prod3':
        env.assume(in_range(env, X[0] * X[1], l), note='intermediate products stay within l bits')
    if name == 'pow3':
        env.assume(in_range(env, X[0] * X[0], l), note='intermediate products stay within l bits')
    if name == 'zero_public':
        env.assume(in_range(env, X[0] * X[1], l) & in_range(env, X[0] - X[1], l), note='intermediate values stay within l bits')
    if name == 'zero_share':
        env.assume(in_range(env, X[0] * X[1], l), note='intermediate values stay within l bits')
    args = ['-K', '30'] + ([] if prss else ['--no-prss'])
    sim = simnet.Sim(env, m, t, args)
    if instrument:
        for party in sim.parties:
            instrument(party, sim)
    apis = {}

    async def prog(party):
        api = Api(env, party, m, t, l)
        apis[party.pid] = api
        return await body(party, X, api)
    sim.start(prog)
    if sim_hook:
        sim_hook(sim)
    results = guarded_run(env, sim)
    p = apis[0].p
    rt = sim.parties[0].mpc
    R = type(rt)
    env.encoded(R.input, R._distribute, R.output, R._reshare, R.mul,
                sim.parties[0].thresha.random_split, sim.parties[0].thresha.recombine,
                sim.parties[0].thresha.pseudorandom_share, sim.parties[0].asyncoro.MessageExchanger.data_received,
                sim.parties[0].asyncoro.MessageExchanger.send)
    return dict(X=X, want=want, results=results, sim=sim, p=p, apis=apis)


def _is_boolish(w):
    from vf.symx import SymBool
    return isinstance(w, (SymBool, bool))


def assert_outputs(env, run, l=L):
    """C01: every party's opened value equals the Python value (exact, signed representative)."""
    if run['results'] is None:
        return
    p, want = run['p'], run['want']
    m = len(run['results'])
    for pid, res in enumerate(run['results']):
        for lab, (kind, v) in res.items():
            if kind == 'out' and lab in want:
                env.observe(f'{lab}@{pid}', v)
                env.check(f'{lab}@{pid}', kit.signed(env, v, p) == want[lab])
                env.check(f'{lab}@{pid}:reduced', (v >= 0) & (v < p))
            elif kind == 'fld' and lab in want:
                env.eq(f'{lab}@{pid}', v, want[lab])
            elif kind == 'int' and lab in want:
                env.eq(f'{lab}@{pid}', v, want[lab])
            elif kind == 'bool' and lab in want:
                env.check(f'{lab}@{pid}', env.b2i(v) == env.b2i(want[lab]))
    # all receivers obtain identical values
    for lab in run['results'][0]:
        kind = run['results'][0][lab][0]
        if kind in ('out', 'int', 'fld'):
            for pid in range(1, m):
                env.check(f'{lab}:same@{pid}', run['results'][pid][lab][1] == run['results'][0][lab][1])


def assert_sharing(env, run, t):
    """C11: the parties' own shares lie on one polynomial of degree <= t whose constant term is the value."""
    if run['results'] is None:
        return
    p, want = run['p'], run['want']
    m = len(run['results'])
    xs = list(range(1, m + 1))
    for lab, (kind, _) in run['results'][0].items():
        if kind == 'share2t':
            # zero sharing: all m shares on one polynomial of degree <= 2t with constant term 0 (needs m >= 2t+1 points, m > 2t+1 for a degree condition)
            ys = [run['results'][pid][lab][1] for pid in range(m)]
            d = 2 * t
            for j in range(d + 1, m):
                env.eq_mod(f'{lab}:degree<=2t@{j}', interp(xs[:d+1], ys[:d+1], xs[j], p), ys[j], p)
            if m >= d + 1:
                env.eq_mod(f'{lab}:secret_zero', interp(xs[:d+1], ys[:d+1], 0, p), 0, p)
            continue
        if kind != 'share':
            continue
        ys = [run['results'][pid][lab][1] for pid in range(m)]
        for j in range(t + 1, m):
            env.eq_mod(f'{lab}:degree<=t@{j}', interp(xs[:t+1], ys[:t+1], xs[j], p), ys[j], p)
        if lab in want:
            env.eq_mod(f'{lab}:secret', interp(xs[:t+1], ys[:t+1], 0, p), want[lab], p)
        for pid in range(m):
            env.check(f'{lab}:reduced@{pid}', (ys[pid] >= 0) & (ys[pid] < p))
