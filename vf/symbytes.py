"""Symbolic byte streams for the framing layer (asyncoro.MessageExchanger).

Stream   n bytes, each a solver variable (optionally a concrete prefix), read through a z3 function
View     immutable region (stream, offset, length) with symbolic offset/length  -- stands for `bytes`
Buf      growing/shrinking window over a stream                                  -- stands for `bytearray`
SymDict  dict with symbolic integer keys (lookups fork on key equality)
struct / len shims understand these objects; on ordinary objects they defer to the real ones."""
import builtins
import struct as _struct
import z3

from vf.symx import SymInt, SymBool, Ctx, Unmodelled, _t, _rng

_FMT_TABLE = {}


def fmt_marker(x):
    k = len(_FMT_TABLE)
    _FMT_TABLE[k] = x
    return f'\x01{k}\x02'


def _sym(x):
    return isinstance(x, (SymInt, SymBool))


def _add(a, b):
    return a + b


def _ite(c, a, b):
    """c: bool | SymBool"""
    if isinstance(c, bool):
        return a if c else b
    (la, ha), (lb, hb) = _rng(a), _rng(b)
    lo = None if None in (la, lb) else min(la, lb)
    hi = None if None in (ha, hb) else max(ha, hb)
    return SymInt(z3.If(c.t, _t(a), _t(b)), lo, hi)


def _min(a, b):
    if not _sym(a) and not _sym(b):
        return min(a, b)
    return _ite(a <= b, a, b)


def _max(a, b):
    if not _sym(a) and not _sym(b):
        return max(a, b)
    return _ite(a >= b, a, b)


def _clamp(x, n):
    """clamp slice bound x into [0, n] (non-negative bounds only)."""
    if not _sym(x) and x < 0:
        raise Unmodelled('negative slice bound on symbolic bytes')
    return _min(x, n)


class Stream:
    def __init__(self, env, n, name='sb', prefix=b''):
        self.env = env
        self.n = n
        self.name = name
        self.prefix = bytes(prefix)
        if env.mode == 'sym':
            self.f = z3.Function(name, z3.IntSort(), z3.IntSort())
            ctx = Ctx.cur
            self.vars = []
            for i in range(len(self.prefix), n):
                v = env.fresh(f'{name}{i}', 0, 256)
                self.vars.append(v)
                ctx.add_assumption(self.f(i) == v.t)
            for i, b in enumerate(self.prefix):
                ctx.add_assumption(self.f(i) == b)
        else:
            self.data = self.prefix + bytes(env.fresh(f'{name}{i}', 0, 256) for i in range(len(self.prefix), n))

    def byte(self, i):
        if not _sym(i):
            if i < len(self.prefix):
                return self.prefix[i]
            if i < self.n:
                return self.vars[i - len(self.prefix)]
        return SymInt(self.f(_t(i)), 0, 255)

    def le(self, off, size, signed=False):
        v = 0
        for j in range(size):
            v = v + self.byte(off + j) * (1 << (8 * j))
        if signed:
            if _sym(v):
                half = 1 << (8 * size - 1)
                v = SymInt(z3.If(v.t >= half, v.t - 2 * half, v.t), -half, half - 1)
            elif v >= 1 << (8 * size - 1):
                v -= 1 << (8 * size)
        return v

    def view(self, a, b):
        if self.env.mode == 'sym':
            return View(self, a, b - a)
        return self.data[a:b]


class View:
    """bytes-like region of a Stream."""

    def __init__(self, stream, off, n):
        self.stream, self.off, self.n = stream, off, n

    def __len__(self):
        raise Unmodelled('builtin len() of symbolic bytes (module needs the len shim)')

    def __getitem__(self, key):
        if isinstance(key, slice):
            if key.step is not None:
                raise Unmodelled('slice step')
            a = 0 if key.start is None else _clamp(key.start, self.n)
            b = self.n if key.stop is None else _clamp(key.stop, self.n)
            return View(self.stream, self.off + a, _max(b - a, 0))
        return self.stream.byte(self.off + key)

    def __eq__(self, other):
        if isinstance(other, View):
            if other.stream is not self.stream:
                return False
            r = (self.off == other.off)
            s = (self.n == other.n)
            if isinstance(r, bool) and isinstance(s, bool):
                return r and s
            return SymBool(z3.And(r.t if _sym(r) else z3.BoolVal(r), s.t if _sym(s) else z3.BoolVal(s)))
        return NotImplemented
    __hash__ = None

    def __repr__(self):
        return f'View({self.off},{self.n})'


class Buf:
    """bytearray-like window [start, end) over a Stream."""

    def __init__(self, stream, start=0, end=0):
        self.stream, self.start, self.end = stream, start, end

    def size(self):
        return self.end - self.start

    def extend(self, data):
        if isinstance(data, View):
            if data.stream is not self.stream:
                raise Unmodelled('extend from another stream')
            ctx = Ctx.cur
            if ctx.check(_t(data.off) != _t(self.end)) != 'unsat':
                if ctx.check(_t(self.end) != _t(self.start)) == 'unsat':
                    self.start = data.off         # empty buffer: rebase
                else:
                    raise Unmodelled('non-contiguous extend of symbolic buffer')
            self.end = data.off + data.n
            return
        if isinstance(data, (bytes, bytearray)) and len(data) == 0:
            return
        raise Unmodelled(f'extend with {type(data)}')

    def __len__(self):
        raise Unmodelled('builtin len() of symbolic bytearray (module needs the len shim)')

    def _view(self):
        return View(self.stream, self.start, self.size())

    def __getitem__(self, key):
        return self._view()[key]

    def __delitem__(self, key):
        if not isinstance(key, slice) or key.start not in (None, 0) or key.step is not None:
            raise Unmodelled('del of a non-prefix slice')
        n = self.size() if key.stop is None else _clamp(key.stop, self.size())
        if _sym(n):
            # fork on the number of bytes consumed: all later reads are at concrete offsets (plain byte variables)
            n = Ctx.cur.concretize(n.t)
        self.start = self.start + n

    def __repr__(self):
        return f'Buf[{self.start},{self.end})'


def symlen(x):
    if isinstance(x, View):
        return x.n
    if isinstance(x, Buf):
        return x.size()
    if isinstance(x, SymDict):
        return builtins.len(x.entries)
    if isinstance(x, Packed):
        return x.size
    if isinstance(x, Payload):
        return x.n
    if isinstance(x, ByteList):
        return builtins.len(x.items)
    return builtins.len(x)


class _BytesMeta(type):
    def __instancecheck__(cls, x):
        return builtins.isinstance(x, (builtins.bytes, View))

    def __call__(cls, x=b'', *a):
        if builtins.isinstance(x, View):
            return x
        if builtins.isinstance(x, Buf):
            return x._view()
        return builtins.bytes(x, *a)

    def __getattr__(cls, name):
        return getattr(builtins.bytes, name)


class BytesShim(metaclass=_BytesMeta):
    """stands in for the name `bytes` (a copy of a symbolic region is the region)."""


_MISSING = object()


class SymDict:
    """dict with (possibly) symbolic integer keys."""

    def __init__(self, entries=()):
        self.entries = [list(e) for e in entries]

    def _find(self, k):
        for i, (key, _) in enumerate(self.entries):
            if key == k:          # bool or SymBool (forks)
                return i
        return None

    def __contains__(self, k):
        return self._find(k) is not None

    def pop(self, k, default=_MISSING):
        i = self._find(k)
        if i is None:
            if default is _MISSING:
                raise KeyError(k)
            return default
        return self.entries.pop(i)[1]

    def __getitem__(self, k):
        i = self._find(k)
        if i is None:
            raise KeyError(k)
        return self.entries[i][1]

    def __setitem__(self, k, v):
        i = self._find(k)
        if i is None:
            self.entries.append([k, v])
        else:
            self.entries[i][1] = v

    def copy(self):
        return SymDict(self.entries)

    def items(self):
        return [tuple(e) for e in self.entries]


class FakeFuture:
    n = 0

    def __init__(self, loop=None, tag=None):
        FakeFuture.n += 1
        self.tag = tag if tag is not None else FakeFuture.n
        self._result = _MISSING

    def set_result(self, v):
        if self._result is not _MISSING:
            raise RuntimeError('invalid state: result already set')
        self._result = v

    def done(self):
        return self._result is not _MISSING

    def result(self):
        return self._result


# ------------------------------------------------------------------------------ struct shim

_CODES = {'q': (8, True), 'Q': (8, False), 'i': (4, True), 'I': (4, False), 'l': (4, True), 'L': (4, False),
          'h': (2, True), 'H': (2, False), 'b': (1, True), 'B': (1, False)}


def _parse(fmt):
    if isinstance(fmt, bytes):
        fmt = fmt.decode()
    order = '<'
    if fmt and fmt[0] in '<>=!@':
        order = fmt[0]
        fmt = fmt[1:]
    if order != '<':
        raise Unmodelled(f'struct byte order {order!r}')
    toks = []
    i = 0
    while i < len(fmt):
        c = fmt[i]
        count = None
        if c == '\x01':
            j = fmt.index('\x02', i)
            count = _FMT_TABLE[int(fmt[i + 1:j])]
            i = j + 1
            c = fmt[i]
        elif c.isdigit():
            j = i
            while fmt[j].isdigit():
                j += 1
            count = int(fmt[i:j])
            i = j
            c = fmt[i]
        elif c.isspace():
            i += 1
            continue
        toks.append((count, c))
        i += 1
    return toks


class Packed:
    """result of struct.pack with symbolic fields: list of (offset, code, value/payload)."""

    def __init__(self, fields, size):
        self.fields, self.size = fields, size


class StructShim:
    error = _struct.error
    calcsize = staticmethod(_struct.calcsize)

    @staticmethod
    def unpack_from(fmt, buf, offset=0):
        if not isinstance(buf, (View, Buf)):
            return _struct.unpack_from(fmt, buf, offset)
        v = buf._view() if isinstance(buf, Buf) else buf
        out = []
        off = offset
        for count, c in _parse(fmt):
            if c == 's':
                n = 1 if count is None else count
                out.append(View(v.stream, v.off + off, n))
                off = off + n
            elif c in _CODES:
                size, signed = _CODES[c]
                for _ in range(1 if count is None else count):
                    out.append(v.stream.le(v.off + off, size, signed))
                    off = off + size
            else:
                raise Unmodelled(f'struct code {c!r}')
        # struct.error if the buffer is too small: callers here always check lengths first; make it an obligation-free branch
        need = off
        short = (v.n < need)
        if (short if isinstance(short, bool) else bool(short)):
            raise _struct.error(f'unpack_from requires a buffer of at least {need} bytes')
        return tuple(out)

    @staticmethod
    def unpack(fmt, buf):
        return StructShim.unpack_from(fmt, buf, 0)

    @staticmethod
    def pack(fmt, *vals):
        toks = _parse(fmt)
        symbolic = any(_sym(v) or isinstance(v, (View, Payload)) for v in vals) or any(_sym(c) for c, _ in toks)
        if not symbolic:
            return _struct.pack(fmt, *vals)
        fields = []
        off = 0
        vi = 0
        for count, c in toks:
            if c == 's':
                n = 1 if count is None else count
                fields.append((off, 's', n, vals[vi]))
                vi += 1
                off = off + n
            elif c in _CODES:
                size, signed = _CODES[c]
                for _ in range(1 if count is None else count):
                    fields.append((off, c, size, vals[vi]))
                    vi += 1
                    off = off + size
            else:
                raise Unmodelled(f'struct code {c!r}')
        if vi != len(vals):
            raise _struct.error('pack expected %d items for packing (got %d)' % (vi, len(vals)))
        return Packed(fields, off)


class Payload:
    """A payload handed to send(): identified by (tag, length); bytes P(tag, j)."""

    def __init__(self, env, tag, n, maxn):
        self.tag, self.n, self.maxn = tag, n, maxn
        if env.mode == 'sym':
            self.bytes = [env.fresh(f'pl{tag}_{j}', 0, 256) for j in range(maxn)]
        else:
            self.data = bytes(env.fresh(f'pl{tag}_{j}', 0, 256) for j in range(maxn))[:n]


def write_packed(stream, base, packed):
    """Constrain stream[base : base+size] to be the encoding of a Packed frame (what transport.write would carry)."""
    ctx = Ctx.cur
    for (off, c, size, val) in packed.fields:
        if c == 's':
            n = size
            if isinstance(val, Payload):
                for j in range(val.maxn):
                    cond = z3.Implies(_t(n) > j, _t(stream.byte(base + off + j)) == _t(val.bytes[j]))
                    ctx.add_assumption(cond)
            else:
                raise Unmodelled('packing a non-Payload byte string')
        else:
            sz, signed = _CODES[c]
            ctx.add_assumption(_t(stream.le(base + off, sz, signed)) == _t(val))
    return base + packed.size


class ByteList:
    """bytes-like value of concrete length whose bytes are terms (result of SymInt.to_bytes / join of such)."""

    def __init__(self, items):
        self.items = list(items)

    def __getitem__(self, key):
        if isinstance(key, slice):
            return ByteList(self.items[key])
        return self.items[key]

    def __len__(self):
        return builtins.len(self.items)

    def __add__(self, other):
        return ByteList(self.items + list(other.items if isinstance(other, ByteList) else other))

    def __eq__(self, other):
        if isinstance(other, ByteList) and len(other) == len(self):
            cs = [a == b for a, b in zip(self.items, other.items)]
            if all(isinstance(c, bool) for c in cs):
                return all(cs)
            return SymBool(z3.And(*[c.t if _sym(c) else z3.BoolVal(c) for c in cs]))
        return False
    __hash__ = None


def symjoin(parts):
    """stands for b''.join(...) when parts may be symbolic byte lists."""
    parts = list(parts)
    if all(isinstance(p, (bytes, bytearray)) for p in parts):
        return b''.join(parts)
    out = []
    for p in parts:
        out.extend(p.items if isinstance(p, ByteList) else list(p))
    return ByteList(out)


def int_to_bytes(x, length, byteorder, signed):
    if signed:
        raise Unmodelled('signed SymInt.to_bytes')
    # Python raises OverflowError when the value does not fit: an explicit branch (obligation of the caller's harness)
    fits = (x >= 0) & (x < (1 << (8 * length))) if length > 0 else (x == 0)
    if not (fits if isinstance(fits, bool) else bool(fits)):
        raise OverflowError('int too big to convert')
    if not _sym(x):
        return builtins.int(x).to_bytes(length, byteorder)
    # definitional extension: the unique base-256 digits of x (exists because 0 <= x < 256^length on this path)
    ctx = Ctx.cur
    bs = [ctx.aux('byte', 0, 255) for _ in range(length)]
    total = z3.Sum(*[bs[j] * (1 << (8 * j)) for j in range(length)]) if length else z3.IntVal(0)
    ctx.add_side(z3.And(*[z3.And(b >= 0, b <= 255) for b in bs], total == _t(x)))
    items = [SymInt(b, 0, 255) for b in bs]
    if byteorder == 'big':
        items.reverse()
    return ByteList(items)


def bytes_to_int(data, byteorder='big', signed=False):
    if isinstance(data, ByteList):
        items = list(data.items)
        if byteorder == 'big':
            items.reverse()
        v = 0
        for j, b in enumerate(items):
            v = v + b * (1 << (8 * j))
        if signed:
            raise Unmodelled('signed from_bytes on a symbolic byte list')
        return v
    if isinstance(data, Buf):
        data = data._view()
    n = data.n
    if _sym(n):
        n = Ctx.cur.concretize(n.t)
    if byteorder != 'little':
        raise Unmodelled('big-endian from_bytes on symbolic bytes')
    return data.stream.le(data.off, n, signed)
