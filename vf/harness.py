"""Harness layer: one harness function runs either symbolically (mode 'sym': shadow values,
path exploration, goals discharged by z3) or concretely (mode 'conc': plain ints taken from a
solver model, real unshimmed code) -- the same function, so that every model can be replayed."""
import hashlib
import inspect
import json
import os
import random
import sys
import time
import traceback

GOAL_TIMEOUT_MS = int(os.getenv('VF_GOAL_TIMEOUT_MS', '60000'))


class Env:
    cur = None

    def __init__(self, mode, values=None, seed=0, params=None):
        self.mode = mode
        self.values = dict(values or {})
        self.seed = seed
        self.params = params or {}
        self.vars = {}            # name -> (lo, hi)  (declared over all paths)
        self.functions = {}       # qualname -> info on encoded functions
        self.shims = set()
        self.stubs = set()
        self.assumption_notes = set()
        self.reset_path()
        self.conc_failures = []
        self.counters = {}
        Env.cur = self

    # ---------------------------------------------------------------- per path
    def reset_path(self):
        self.goals = []           # (label, z3 bool, n_pc, n_side, n_assm)
        self.observed = []        # (label, value)
        self.declared = set()
        self.path_counters = {}

    def count(self, key):
        self.path_counters[key] = self.path_counters.get(key, 0) + 1
        return self.path_counters[key]

    # ---------------------------------------------------------------- values
    def fresh(self, name, lo, hi):
        """Symbolic variable (or its replay value) in [lo, hi)."""
        assert lo < hi, (name, lo, hi)
        if self.mode == 'sym':
            import z3
            from vf.symx import SymInt, Ctx
            ctx = Ctx.cur
            v = z3.Int(name)
            if name in self.vars and self.vars[name] != (lo, hi):
                raise RuntimeError(f'variable {name} redeclared with another range')
            self.vars[name] = (lo, hi)
            if name not in self.declared:
                self.declared.add(name)
                ctx.add_assumption(z3.And(v >= lo, v < hi))
            return SymInt(v, lo, hi - 1)
        self.vars[name] = (lo, hi)
        if name in self.values:
            v = int(self.values[name])
        else:
            rnd = random.Random(f'{self.seed}/{name}')
            if rnd.random() < 0.4:
                v = rnd.choice([lo, hi - 1, min(lo + 1, hi - 1), max(hi - 2, lo), (lo + hi) // 2, 0 if lo <= 0 < hi else lo])
            else:
                v = rnd.randrange(lo, hi)
            self.values[name] = v
        if not lo <= v < hi:
            raise RuntimeError(f'replay value {name}={v} outside [{lo},{hi})')
        return v

    def var(self, name):
        """A variable already introduced (by a stub) on this path, with the range the code gave it."""
        if name not in self.vars or (self.mode == 'sym' and name not in self.declared):
            raise KeyError(f'variable {name} was not introduced on this path')
        lo, hi = self.vars[name]
        return self.fresh(name, lo, hi)

    def fresh_bool(self, name):
        b = self.fresh(name, 0, 2)
        return b == 1

    def assume(self, cond, note=None):
        if note:
            self.assumption_notes.add(note)
        if self.mode == 'sym':
            from vf.symx import Ctx, _b
            Ctx.cur.add_assumption(_b(cond))
        else:
            if not cond:
                raise AssumptionFailed(note or 'assumption')

    def cut(self, note):
        """Stated bound reached (e.g. second restart of a rejection loop): path is outside the claim."""
        self.assumption_notes.add('cut: ' + note)
        if self.mode == 'sym':
            from vf.symx import Ctx, PathAbort
            self.counters['cuts'] = self.counters.get('cuts', 0) + 1
            raise PathAbort()
        raise AssumptionFailed('cut: ' + note)

    # ---------------------------------------------------------------- obligations
    def lemma(self, label, cond):
        """An obligation that, once discharged, is available as an assumption to the later obligations of the
        same path (sound: it was shown to hold under the path condition)."""
        self.check(label, cond, lemma=True)

    def fact(self, cond, note):
        """A true mathematical fact the solver cannot derive itself (e.g. an instance of 'Z_p has no zero
        divisors' for a prime p verified by the harness); recorded in the evidence."""
        self.assumption_notes.add('fact: ' + note)
        if self.mode == 'sym':
            from vf.symx import Ctx, _b
            Ctx.cur.add_assumption(_b(cond))
        elif not cond:
            raise RuntimeError('harness fact is false on concrete values: ' + note)

    def check(self, label, cond, lemma=False):
        if self.mode == 'sym':
            from vf.symx import Ctx, _b
            ctx = Ctx.cur
            self.goals.append((label, _b(cond), len(ctx.pc), len(ctx.side), len(ctx.assumptions), lemma))
        else:
            ok = bool(cond)
            self.observed.append((label + '?', ok))
            if not ok:
                self.conc_failures.append(label)

    # ---- obligations about the path condition itself (uniformity arguments, C33)
    def pc_subst(self, pairs):
        """sym mode: the current path condition with variables renamed (pairs of SymInt variables) as a SymBool.
        The path condition may mention declared variables only (no auxiliary definitions), otherwise Unmodelled."""
        import z3
        from vf.symx import Ctx, SymBool, Unmodelled
        ctx = Ctx.cur
        pcs = z3.And(*ctx.pc) if ctx.pc else z3.BoolVal(True)
        for v in _free_vars(pcs):
            if str(v) not in self.vars:
                raise Unmodelled(f'path condition mentions auxiliary variable {v}: renaming not supported')
        from vf.symx import _t
        sub = [(a.t, _t(b)) for a, b in pairs]
        return SymBool(z3.substitute(pcs, *sub)) if sub else SymBool(pcs)

    def term_subst(self, x, pairs):
        import z3
        from vf.symx import SymInt, _t, _rng
        lo, hi = _rng(x)
        if not pairs:
            return x
        return SymInt(z3.substitute(_t(x), *[(a.t, _t(b)) for a, b in pairs]), lo, hi)

    def check_reachable(self, label, cond):
        """Obligation discharged by SAT: some values on this path satisfy cond (used for surjectivity / vacuity)."""
        if self.mode == 'sym':
            import z3
            from vf.symx import Ctx, _b
            ctx = Ctx.cur
            self.goals.append(('reach:' + label, z3.Not(_b(cond)), len(ctx.pc), len(ctx.side), len(ctx.assumptions), False))

    def eq(self, label, got, want):
        self.observe(label, got)
        self.check(label, got == want)

    def eq_mod(self, label, got, want, p):
        self.observe(label, got)
        self.check(label, (got - want) % p == 0)

    def observe(self, label, value):
        if self.mode == 'sym':
            from vf.symx import SymInt, SymBool, _t
            if isinstance(value, (SymInt, SymBool)):
                value = _t(value)
        elif isinstance(value, bool):
            value = int(value)
        self.observed.append((label, value))

    # ---------------------------------------------------------------- polymorphic helpers
    def ite(self, c, a, b):
        if self.mode == 'sym':
            import z3
            from vf.symx import SymInt, SymBool, _t, _b, _rng
            if isinstance(c, bool):
                return a if c else b
            (la, ha), (lb, hb) = _rng(a), _rng(b)
            lo = None if None in (la, lb) else min(la, lb)
            hi = None if None in (ha, hb) else max(ha, hb)
            return SymInt(z3.If(_b(c), _t(a), _t(b)), lo, hi)
        return a if c else b

    def all(self, conds):
        conds = list(conds)
        if self.mode == 'sym':
            import z3
            from vf.symx import SymBool, _b
            return SymBool(z3.And(*[_b(c) for c in conds])) if conds else True
        return all(conds)

    def any(self, conds):
        conds = list(conds)
        if self.mode == 'sym':
            import z3
            from vf.symx import SymBool, _b
            return SymBool(z3.Or(*[_b(c) for c in conds])) if conds else False
        return any(conds)

    def implies(self, a, b):
        if self.mode == 'sym':
            import z3
            from vf.symx import SymBool, _b
            return SymBool(z3.Implies(_b(a), _b(b)))
        return (not a) or bool(b)

    def b2i(self, c):
        return self.ite(c, 1, 0)

    # ---------------------------------------------------------------- bookkeeping
    def encoded(self, *funcs):
        """Record the real functions whose code this harness executes (source hash from /repo)."""
        for f in funcs:
            f = inspect.unwrap(getattr(f, '__func__', f))
            try:
                src = inspect.getsource(f)
                file = inspect.getsourcefile(f)
                line = inspect.getsourcelines(f)[1]
            except (OSError, TypeError):
                src, file, line = repr(f), '?', 0
            self.functions[f'{f.__module__}.{f.__qualname__}'] = dict(
                file=file, line=line, sha256=hashlib.sha256(src.encode()).hexdigest()[:16])


class AssumptionFailed(Exception):
    pass


# ------------------------------------------------------------------------------------ drivers

class _DictModel:
    """Model obtained through the bit-vector route: name -> int."""

    def __init__(self, d):
        self.d = d


def _model_values(model, env):
    import z3
    if isinstance(model, _DictModel):
        return {n: model.d.get(n, env.vars[n][0]) for n in env.vars}
    vals = {}
    for name in env.vars:
        v = model.eval(z3.Int(name), model_completion=True)
        vals[name] = v.as_long()
    return vals


def _eval_obs(model, observed):
    import z3
    if isinstance(model, _DictModel):
        return []
    out = []
    for label, v in observed:
        if isinstance(v, z3.ExprRef):
            r = model.eval(v, model_completion=True)
            try:
                out.append((label, r.as_long()))
            except Exception:
                out.append((label, str(r)))
        else:
            out.append((label, v if isinstance(v, (int, str, type(None))) else repr(v)))
    return out


FIRST_TRY_MS = int(os.getenv('VF_FIRST_TRY_MS', '8000'))
MAX_SPLIT_CASES = 512


def _mk_solver(ctx, goal, n_pc, n_assm, timeout_ms, extra=()):
    import z3
    s = z3.Solver()
    s.set('timeout', timeout_ms)
    s.add(*ctx.assumptions[:n_assm] if n_assm is not None else ctx.assumptions)
    s.add(*ctx.side)          # definitional extensions: sound to keep all of them
    s.add(*ctx.pc[:n_pc])
    s.add(*extra)
    s.add(z3.Not(goal))
    return s


def solve_goal(ctx, goal, n_pc, n_side, n_assm, timeout_ms=None, env=None, lemmas=(), cheap_only=False):
    """Decide one obligation.  First a plain query; if z3 gives up, a sound case split over the
    small-domain variables occurring in the goal (all cases must be unsat; any sat case is a model)."""
    import z3
    total = timeout_ms or GOAL_TIMEOUT_MS
    t0 = time.time()
    if cheap_only:
        s = _mk_solver(ctx, goal, n_pc, n_assm, min(FIRST_TRY_MS, total), lemmas)
        # 1.5 s plain, then the two cheap robust routes (monomial abstraction, bit-blasting of small bounded problems), then plain
        asserts = list(s.assertions())      # snapshot: the abstraction / bit-blasting routes must see the original assertions
        s.set('timeout', min(1500, total))
        r = str(s.check())
        if r != 'unknown':
            return r, (s.model() if r == 'sat' else None), time.time() - t0, s, 0
        if env is not None:
            if _abstraction_unsat(asserts, env, ctx):
                return 'unsat', None, time.time() - t0, s, -2
            from vf import int2bv
            bounds = {n: (lo, hi - 1) for n, (lo, hi) in env.vars.items()}
            bounds.update(ctx.aux_bounds)
            rb, mb, W = int2bv.solve_bv(asserts, bounds, timeout_ms=min(total, 4000))
            if rb == 'unsat':
                return 'unsat', None, time.time() - t0, s, -1
            if rb == 'sat':
                return 'sat', _DictModel(mb), time.time() - t0, s, -1
        s = _mk_solver(ctx, goal, n_pc, n_assm, min(FIRST_TRY_MS, total), lemmas)
        r = str(s.check())
        return r, (s.model() if r == 'sat' else None), time.time() - t0, s, 0
    # second call (after the quick attempt and the witness search): portfolio in sequence -- bit-blasting for bounded
    # problems, case split over small-domain variables, and finally a long plain attempt.
    s = _mk_solver(ctx, goal, n_pc, n_assm, max(total // 2, min(FIRST_TRY_MS, total)), lemmas)

    def bv_route(ms):
        from vf import int2bv
        bounds = {n: (lo, hi - 1) for n, (lo, hi) in env.vars.items()}
        bounds.update(ctx.aux_bounds)
        rb, mb, W = int2bv.solve_bv(list(s.assertions()), bounds, timeout_ms=ms)
        if rb == 'unsat':
            return 'unsat', None, time.time() - t0, s, -1
        if rb == 'sat':
            return 'sat', _DictModel(mb), time.time() - t0, s, -1
        return None
    if env is not None:
        got = bv_route(min(total, 5000))
        if got:
            return got
    # case split: every small-domain variable of the goal, plus one factor of a nonlinear product with at most 256 values
    # (each case is then linear in that factor: fast and insensitive to machine speed)
    doms = {}
    nl = set()
    if env is not None:
        conj = z3.And(*ctx.pc[:n_pc], *ctx.side, goal)
        names = {str(v) for v in _free_vars(conj)}
        for n, (lo, hi) in env.vars.items():
            if n in names and hi - lo <= 4:
                doms[n] = (lo, hi)
        nl = {n for n in _nonlinear_vars(conj) if n in env.vars and n not in doms}
    order = sorted(doms, key=lambda n: doms[n][1] - doms[n][0])
    chosen, ncases = [], 1
    for n in order:
        k = doms[n][1] - doms[n][0]
        if ncases * k > MAX_SPLIT_CASES:
            break
        chosen.append(n)
        ncases *= k
    for n in sorted(nl, key=lambda n: env.vars[n][1] - env.vars[n][0]):
        k = env.vars[n][1] - env.vars[n][0]
        if k <= 256 and ncases * k <= 2 * MAX_SPLIT_CASES:
            doms[n] = env.vars[n]
            chosen.append(n)
            ncases *= k
        break
    import itertools
    per_case = 3000
    nsub = 0
    verdict = 'unsat' if chosen else 'unknown'
    if chosen:
        for combo in itertools.product(*[range(*doms[n]) for n in chosen]):
            pins = [z3.Int(n) == v for n, v in zip(chosen, combo)]
            sc = _mk_solver(ctx, goal, n_pc, n_assm, per_case, list(pins) + list(lemmas))
            rc = str(sc.check())
            nsub += 1
            if rc == 'sat':
                return 'sat', sc.model(), time.time() - t0, sc, nsub
            if rc != 'unsat':
                verdict = 'unknown'
            if (time.time() - t0) * 1000 > total:
                verdict = 'unknown'
                break
    if verdict == 'unsat':
        return verdict, None, time.time() - t0, s, nsub
    if env is not None:
        got = bv_route(min(total, 20000))
        if got:
            return got
    r = str(s.check())      # long plain attempt
    return r, (s.model() if r == 'sat' else None), time.time() - t0, s, nsub


def run_sym(fn, params=None, seed=0, max_paths=5000, n_validate=2, goal_timeout_ms=None,
            witness_search=True):
    """Explore fn(env) symbolically and discharge its goals. Returns a JSON-able result."""
    import z3
    from vf import symx
    env = Env('sym', seed=seed, params=params)
    t_start = time.time()

    def one():
        env.reset_path()
        fn(env)
        return (list(env.goals), list(env.observed))
    res = dict(mode='sym', status='ok', goals=0, unsat=0, sat=0, unknown=0, solver_time=0.0,
               models=[], validation=[], samples=[], error=None)
    try:
        records, stats = symx.explore(one, max_paths=max_paths)
    except symx.Unmodelled as e:
        res.update(status='unmodelled', error=f'{e}\n{traceback.format_exc()[-1500:]}')
        return _finish(res, env, t_start, dict(paths=0, aborted=0, queries=0, solver_time=0, decisions=0, complete=False))
    except Exception as e:
        res.update(status='error', error=f'{type(e).__name__}: {e}\n{traceback.format_exc()[-2500:]}')
        return _finish(res, env, t_start, dict(paths=0, aborted=0, queries=0, solver_time=0, decisions=0, complete=False))
    seen = {}
    rnd = random.Random(seed)
    val_paths = list(range(len(records)))
    rnd.shuffle(val_paths)
    val_paths = set(val_paths[:n_validate])
    for pi, (ctx, (goals, observed)) in enumerate(records):
        proved = []
        for label, goal, n_pc, n_side, n_assm, is_lemma in goals:
            key = (label, z3.And(*ctx.pc[:n_pc], *ctx.assumptions[:n_assm], *proved, goal).hash(), n_pc)
            if key in seen:
                if is_lemma and seen[key] == 'unsat':
                    proved.append(goal)
                continue
            enough = len(res['models']) >= 3
            r, model, dt, s, nsub = solve_goal(ctx, goal, n_pc, n_side, n_assm, goal_timeout_ms, env, proved, cheap_only=True)
            w = None
            is_reach = label.startswith('reach:')
            if is_reach and r == 'unknown':
                if _witness(ctx, goal, n_pc, n_assm, env, rnd) is not None:
                    r = 'sat'
            if r == 'unknown' and witness_search and not enough and not is_reach:
                w = _witness(ctx, goal, n_pc, n_assm, env, rnd)
            if r == 'unknown' and w is None and not enough:
                r, model, dt2, s, nsub = solve_goal(ctx, goal, n_pc, n_side, n_assm, goal_timeout_ms, env, proved)
                dt += dt2
            if is_reach:
                # discharged by a satisfying assignment; 'unsat' means the case can never happen: a violation candidate
                # that the harness confirms concretely (exhaustive enumeration requested through __exhaust__)
                if r == 'sat':
                    r, model = 'unsat', None
                    res['reach_sat'] = res.get('reach_sat', 0) + 1
                elif r == 'unsat':
                    r, model, w = 'unknown', None, dict(__exhaust__=label)
            seen[key] = r
            if is_lemma and r == 'unsat':
                proved.append(goal)
            res['split_queries'] = res.get('split_queries', 0) + max(nsub, 0)
            res['bv_queries'] = res.get('bv_queries', 0) + (1 if nsub == -1 else 0)
            res['goals'] += 1
            res['solver_time'] += dt
            if dt > 1.5:
                res.setdefault('slow_goals', []).append((label, round(dt, 2), r))
            res[r] = res.get(r, 0) + 1
            if len(res['samples']) < 2:
                smt = s.to_smt2()
                res['samples'].append(dict(obligation=label, path=pi, verdict=r, solver_s=round(dt, 3),
                                           smtlib2=smt if len(smt) < 6000 else smt[:6000] + '\n; ... truncated'))
            if r == 'sat':
                if len(res['models']) < 3:
                    res['models'].append(dict(label=label, path=pi, values=_model_values(model, env),
                                              observed=_eval_obs(model, observed)))
            elif r == 'unknown' and w is not None:
                if len(res['models']) < 3:
                    res['models'].append(dict(label=label, path=pi, values=w, observed=[], from_witness_search=True))
        if pi in val_paths:
            r, m = _random_model(ctx, env, rnd)
            if r == 'sat':
                res['validation'].append(dict(path=pi, values=_model_values(m, env), observed=_eval_obs(m, observed)))
    if not stats['complete']:
        res['status'] = 'incomplete'
        res['error'] = f'path exploration stopped at max_paths={max_paths}'
    elif res['goals'] == 0:
        res['status'] = 'vacuous'
        res['error'] = 'no goals reached (all paths cut or aborted)'
    return _finish(res, env, t_start, stats)


def _random_model(ctx, env, rnd):
    """A model of the path condition with as many variables as possible pinned to random values of their
    range (validation against the real code should not run on the all-zero model)."""
    import z3
    names = [n for n in env.vars if n in env.declared or True]
    for frac in (1.0, 0.6, 0.3, 0.1, 0.0):
        pins = []
        for n in names:
            if rnd.random() < frac:
                lo, hi = env.vars[n]
                pins.append(z3.Int(n) == rnd.randrange(lo, hi))
        ctx.solver.push()
        ctx.solver.add(*pins)
        ctx.solver.set('timeout', 5000)
        r = str(ctx.solver.check())
        m = ctx.solver.model() if r == 'sat' else None
        ctx.solver.pop()
        if r == 'sat':
            return r, m
    return r, None


def _witness(ctx, goal, n_pc, n_assm, env, rnd, tries=300):
    """unknown -> look for a concrete witness of the negated goal by evaluating at random points of
    the assumption set (can only turn 'unknown' into a violation candidate, never into success)."""
    import z3
    names = list(env.vars)
    conj = z3.And(*ctx.assumptions[:n_assm], *ctx.pc[:n_pc], *ctx.side, z3.Not(goal))
    aux = [v for v in _free_vars(conj) if str(v) not in env.vars]
    def pick(n):
        lo, hi = env.vars[n]
        r = rnd.random()
        if r < 0.5:
            return rnd.choice([lo, hi - 1, min(lo + 1, hi - 1), max(hi - 2, lo), (lo + hi) // 2, 0 if lo <= 0 < hi else lo])
        return rnd.randrange(lo, hi)
    for _ in range(tries):
        vals = {n: pick(n) for n in names}
        sub = [(z3.Int(n), z3.IntVal(v)) for n, v in vals.items()]
        f = z3.simplify(z3.substitute(conj, *sub))
        if z3.is_false(f):
            continue
        if z3.is_true(f):
            return vals
        if aux:
            s = z3.Solver()
            s.set('timeout', 2000)
            s.add(f)
            if str(s.check()) == 'sat':
                return vals
    return None


def _abstraction_unsat(assertions, env, ctx, timeout_ms=2000):
    """Monomial abstraction: every product of two or more non-constant factors becomes a fresh integer variable that keeps
    only the interval implied by the factors' ranges.  The abstraction has more models than the original, so 'unsat' for it
    is 'unsat' for the original (anything else is inconclusive).  Decides obligations in which only the range of a product
    matters (truncation of a fixed-point product against the exact product) by linear arithmetic, insensitive to machine speed."""
    import z3
    bounds = {n: (lo, hi - 1) for n, (lo, hi) in env.vars.items()}
    bounds.update({n: b for n, b in ctx.aux_bounds.items()})
    cache, monos = {}, {}

    def iv(e):
        if z3.is_int_value(e):
            v = e.as_long()
            return (v, v)
        if z3.is_const(e) and e.decl().kind() == z3.Z3_OP_UNINTERPRETED:
            b = bounds.get(str(e), (None, None))
            return b if b is not None else (None, None)
        if z3.is_app(e) and e.decl().kind() == z3.Z3_OP_ITE:
            a, b = iv(e.arg(1)), iv(e.arg(2))
            if None in a or None in b:
                return (None, None)
            return (min(a[0], b[0]), max(a[1], b[1]))
        if z3.is_app(e) and e.decl().kind() == z3.Z3_OP_MOD and z3.is_int_value(e.arg(1)) and e.arg(1).as_long() > 0:
            return (0, e.arg(1).as_long() - 1)
        return (None, None)

    def walk(e):
        k = e.get_id()
        if k in cache:
            return cache[k][0]
        if z3.is_app(e) and e.num_args() > 0:
            ch = [walk(c) for c in e.children()]
            if e.decl().kind() == z3.Z3_OP_MUL and z3.is_int(e):
                fac = [c for c in ch if not z3.is_int_value(c)]
                if len(fac) >= 2:
                    coef = 1
                    for c in ch:
                        if z3.is_int_value(c):
                            coef *= c.as_long()
                    key = tuple(sorted(c.get_id() for c in fac))
                    if key not in monos:
                        lo, hi = 1, 1
                        ok = True
                        for c in fac:
                            a = iv(c)
                            if None in a:
                                ok = False
                                break
                            cs = [lo * a[0], lo * a[1], hi * a[0], hi * a[1]]
                            lo, hi = min(cs), max(cs)
                        monos[key] = (z3.Int(f'mono!{len(monos)}'), (lo, hi) if ok else None, fac)
                    r = monos[key][0] * coef if coef != 1 else monos[key][0]
                    cache[k] = (r, e)
                    return r
            try:
                r = e.decl()(*ch)
            except Exception:
                r = e
        else:
            r = e
        cache[k] = (r, e)
        return r
    try:
        abstracted = [walk(a) for a in assertions]
    except Exception:
        return False
    if not monos:
        return False
    s2 = z3.Solver()
    s2.set('timeout', timeout_ms)
    s2.add(*abstracted)
    for v, b, _ in monos.values():
        if b is not None:
            s2.add(v >= b[0], v <= b[1])
    return str(s2.check()) == 'unsat'


def _nonlinear_vars(e):
    """names of variables that occur as a factor of a product with at least two non-constant factors."""
    import z3
    seen, out, todo = set(), set(), [e]
    while todo:
        x = todo.pop()
        if x.get_id() in seen:
            continue
        seen.add(x.get_id())
        if z3.is_app(x) and x.decl().kind() == z3.Z3_OP_MUL:
            fac = [c for c in x.children() if not z3.is_int_value(c)]
            if len(fac) >= 2:
                for c in fac:
                    if z3.is_const(c) and c.decl().kind() == z3.Z3_OP_UNINTERPRETED:
                        out.add(str(c))
        todo.extend(x.children())
    return out


def _free_vars(e):
    import z3
    seen, out, todo = set(), [], [e]
    while todo:
        x = todo.pop()
        if x.get_id() in seen:
            continue
        seen.add(x.get_id())
        if z3.is_const(x) and x.decl().kind() == z3.Z3_OP_UNINTERPRETED:
            out.append(x)
        todo.extend(x.children())
    return out


def _finish(res, env, t_start, stats):
    res.update(paths=stats['paths'], aborted=stats['aborted'], feas_queries=stats['queries'],
               feas_time=round(stats['solver_time'], 3), decisions=stats['decisions'],
               complete=stats['complete'], feas_unknown=stats.get('feas_unknown', 0), wall=round(time.time() - t_start, 3),
               functions=env.functions, shims=sorted(env.shims), stubs=sorted(env.stubs),
               assumptions=sorted(env.assumption_notes), nvars=len(env.vars),
               cuts=env.counters.get('cuts', 0))
    res['solver_time'] = round(res['solver_time'], 3)
    return res


def run_conc(fn, values, params=None, seed=0):
    """Replay fn(env) on plain ints (values from a model) with the real, unshimmed code."""
    env = Env('conc', values=values, seed=seed, params=params)
    res = dict(mode='conc', status='ok', failures=[], observed=[], error=None)
    try:
        fn(env)
    except AssumptionFailed as e:
        res['status'] = 'assumption_failed'
        res['error'] = str(e)
    except Exception as e:
        tb = traceback.extract_tb(e.__traceback__)
        in_repo = bool(tb) and '/mpyc/' in tb[-1].filename and '/verif/' not in tb[-1].filename
        # ... and not below a stub of ours that the code under test called (harness -> repo -> stub -> repo raises)
        iv = [i for i, fr in enumerate(tb) if '/verif/' in fr.filename]
        if in_repo and iv and any('/mpyc/' in fr.filename for fr in tb[:iv[-1]]):
            in_repo = False
        # only an exception raised by the code under test counts as a reproduced failure; anything else is a harness error
        res['status'] = 'exception' if in_repo else 'harness_error'
        res['error'] = f'{type(e).__name__}: {e}\n{traceback.format_exc()[-2500:]}'
    res['failures'] = list(env.conc_failures)
    res['observed'] = [(l, v if isinstance(v, (int, str, type(None))) else repr(v)) for l, v in env.observed]
    res['values'] = env.values
    return res
