"""symx -- shadow symbolic execution of unmodified Python code with z3.

SymInt is *not* a subclass of int: every use that is not modelled raises Unmodelled (harness
error, never a pass).  A SymInt carries
  t        canonical z3 Int term
  lo, hi   sound interval (None = unbounded)
  cong     optional (U, p): value == U mod p with U an unreduced term (lazy modular reduction)
  frac     optional (N, D, p): value == N * D^-1 mod p (field inverse of a symbolic value)
The path explorer re-executes the harness depth first, one feasible path per execution.
"""
import builtins
import time
import z3

FEAS_TIMEOUT_MS = 20000
MAX_DECISIONS = 600


class Unmodelled(Exception):
    """The harness met something the engine does not model: inconclusive, never success."""


class PathAbort(BaseException):
    """Current path is infeasible or cut by a stated bound (counted)."""


class Ctx:
    """State of one execution (one path)."""
    cur = None

    def __init__(self, prefix=()):
        self.prefix = list(prefix)
        self.decisions = []          # (cond, taken, other_feasible)
        self.pc = []                 # path condition (list of z3 Bool)
        self.side = []               # definitional side constraints introduced on this path
        self.assumptions = []        # range assumptions of fresh variables + harness assumes
        self.solver = z3.Solver()
        self.solver.set('timeout', FEAS_TIMEOUT_MS)
        self.nqueries = 0
        self.solver_time = 0.0
        self.nfresh = 0
        self.cuts = 0
        self.feas_unknown = 0
        self.aux_bounds = {}

    def add_side(self, c):
        self.solver.add(c)
        self.side.append(c)

    def add_assumption(self, c):
        self.solver.add(c)
        self.assumptions.append(c)

    def check(self, *extra):
        t0 = time.time()
        self.solver.push()
        self.solver.add(*extra)
        r = str(self.solver.check())
        self.solver.pop()
        self.nqueries += 1
        self.solver_time += time.time() - t0
        return r

    def model_of_path(self):
        self.solver.push()
        r = str(self.solver.check())
        m = self.solver.model() if r == 'sat' else None
        self.solver.pop()
        self.nqueries += 1
        return r, m

    def aux(self, prefix, lo=None, hi=None):
        self.nfresh += 1
        name = f'{prefix}!{self.nfresh}'
        self.aux_bounds[name] = (lo, hi)
        return z3.Int(name)

    def branch(self, cond, payload=None):
        cond = z3.simplify(cond)
        if z3.is_true(cond):
            return True
        if z3.is_false(cond):
            return False
        i = len(self.decisions)
        if i >= MAX_DECISIONS:
            raise Unmodelled(f'more than {MAX_DECISIONS} symbolic decisions on one path (unbounded loop?)')
        if i < len(self.prefix):
            taken = self.prefix[i][0]
            self.decisions.append((cond, taken, None, payload))
        else:
            rt = self.check(cond)
            rf = self.check(z3.Not(cond))
            # 'unknown' feasibility is treated as feasible: exploring an infeasible path is sound (its path
            # condition is unsatisfiable, so none of its obligations can yield a model); counted.
            if rt == 'unknown':
                rt = 'sat'
                self.feas_unknown += 1
            if rf == 'unknown':
                rf = 'sat'
                self.feas_unknown += 1
            if rt == 'sat':
                taken, other = True, rf == 'sat'
            elif rf == 'sat':
                taken, other = False, False
            else:
                raise PathAbort()
            self.decisions.append((cond, taken, other, payload))
        c = cond if taken else z3.Not(cond)
        self.pc.append(c)
        self.solver.add(c)
        return taken

    def concretize(self, term, limit=4096):
        """Fork on the value of term.  The case split is complete: a value is abandoned only by
        flipping its decision, and the loop ends only when the solver says no further value exists."""
        term = z3.simplify(term)
        if z3.is_int_value(term):
            return term.as_long()
        for _ in range(limit):
            i = len(self.decisions)
            if i < len(self.prefix) and self.prefix[i][1] is not None:
                v = self.prefix[i][1]       # replaying: the value chosen when this fork was made
            else:
                r, m = self.model_of_path()
                if r == 'unsat':
                    raise PathAbort()
                if r != 'sat':
                    raise Unmodelled('solver unknown in concretize')
                v = m.eval(term, model_completion=True).as_long()
            if self.branch(term == v, payload=v):
                return v
        raise Unmodelled('concretize limit')


def explore(fn, max_paths=5000):
    """Run fn() once per feasible path. Returns (list of per-path records, stats).
    fn gets no arguments; it uses Ctx.cur.  Each record is whatever fn returns."""
    stack = []
    records = []
    stats = dict(paths=0, aborted=0, queries=0, solver_time=0.0, decisions=0, complete=False, feas_unknown=0)
    while True:
        ctx = Ctx([(d[0], d[2]) for d in stack])
        Ctx.cur = ctx
        try:
            rec = fn()
            records.append((ctx, rec))
        except PathAbort:
            stats['aborted'] += 1
        finally:
            Ctx.cur = None
        stats['paths'] += 1
        stats['queries'] += ctx.nqueries
        stats['solver_time'] += ctx.solver_time
        stats['feas_unknown'] += ctx.feas_unknown
        for cond, taken, other, payload in ctx.decisions[len(stack):]:
            stack.append([taken, bool(other), payload])
            stats['decisions'] += 1
        while stack and not stack[-1][1]:
            stack.pop()
        if not stack:
            stats['complete'] = True
            break
        if stats['paths'] >= max_paths:
            break
        stack[-1] = [not stack[-1][0], False, stack[-1][2]]
    return records, stats


# ----------------------------------------------------------------------------- terms

def _t(x):
    if isinstance(x, SymInt):
        return x.t
    if isinstance(x, SymBool):
        return z3.If(x.t, z3.IntVal(1), z3.IntVal(0))
    if isinstance(x, bool):
        return z3.IntVal(int(x))
    if isinstance(x, builtins.int):
        return z3.IntVal(x)
    raise Unmodelled(f'operand {type(x)}')


def _b(x):
    if isinstance(x, SymBool):
        return x.t
    if isinstance(x, bool):
        return z3.BoolVal(x)
    if z3.is_bool(x):
        return x
    if isinstance(x, SymInt):
        return x.t != 0
    if isinstance(x, builtins.int):
        return z3.BoolVal(bool(x))
    raise Unmodelled(f'bool operand {type(x)}')


class SymBool:
    __slots__ = ('t',)

    def __init__(self, t):
        self.t = t

    def __bool__(self):
        return Ctx.cur.branch(self.t)

    def __and__(self, o):
        return SymBool(z3.And(self.t, _b(o)))
    __rand__ = __and__

    def __or__(self, o):
        return SymBool(z3.Or(self.t, _b(o)))
    __ror__ = __or__

    def __invert__(self):
        return SymBool(z3.Not(self.t))

    def __eq__(self, o):
        if isinstance(o, (SymBool, bool)):
            return SymBool(self.t == _b(o))
        return SymInt(_t(self), 0, 1) == o

    def __ne__(self, o):
        r = self.__eq__(o)
        return ~r if isinstance(r, SymBool) else not r

    __hash__ = None

    def _asint(self):
        return SymInt(_t(self), 0, 1)

    def __add__(self, o): return self._asint() + o
    def __radd__(self, o): return self._asint() + o
    def __sub__(self, o): return self._asint() - o
    def __rsub__(self, o): return o - self._asint()
    def __mul__(self, o): return self._asint() * o
    def __rmul__(self, o): return self._asint() * o
    def __neg__(self): return -self._asint()
    def __int__(self): raise Unmodelled('int() of SymBool')
    def __index__(self): return 1 if Ctx.cur.branch(self.t) else 0
    def __repr__(self): return f'SymBool({self.t})'


def _guard(f):
    def g(s, o):
        if not isinstance(o, (SymInt, SymBool, bool, builtins.int)):
            return NotImplemented
        return f(s, o)
    g.__name__ = f.__name__
    return g


def _rng(o):
    if isinstance(o, SymInt):
        return o.lo, o.hi
    if isinstance(o, SymBool):
        return 0, 1
    o = builtins.int(o)
    return o, o


def _iv_add(a, b):
    return (None if None in (a[0], b[0]) else a[0] + b[0],
            None if None in (a[1], b[1]) else a[1] + b[1])


def _iv_neg(a):
    return (None if a[1] is None else -a[1], None if a[0] is None else -a[0])


def _iv_mul(a, b):
    if None in a or None in b:
        return (None, None)
    c = [a[0]*b[0], a[0]*b[1], a[1]*b[0], a[1]*b[1]]
    return (min(c), max(c))


def _is_num_ite(t):
    if z3.is_app(t) and t.decl().kind() == z3.Z3_OP_ITE:
        return z3.is_int_value(t.arg(1)) and z3.is_int_value(t.arg(2))
    return False


SMALL_SPLIT = 2   # a factor whose interval has <= SMALL_SPLIT+1 values becomes an ite chain


def _mul_terms(xt, xr, yt, yr):
    """Product of two terms; keeps goals linear where an operand has a tiny domain."""
    def small(r):
        return None not in r and r[1] - r[0] <= SMALL_SPLIT

    def split(ft, fr, ot):
        out = z3.IntVal(fr[1]) * ot
        for v in range(fr[1] - 1, fr[0] - 1, -1):
            out = z3.If(ft == v, z3.IntVal(v) * ot, out)
        return out
    if z3.is_int_value(xt) or z3.is_int_value(yt):
        return xt * yt
    if _is_num_ite(xt):
        return z3.If(xt.arg(0), xt.arg(1).as_long() * yt, xt.arg(2).as_long() * yt)
    if _is_num_ite(yt):
        return z3.If(yt.arg(0), yt.arg(1).as_long() * xt, yt.arg(2).as_long() * xt)
    if small(xr):
        return split(xt, xr, yt)
    if small(yr):
        return split(yt, yr, xt)
    return xt * yt


REFINE = [True]


def _refine(x):
    """Range refinement by the solver before a symbolic*symbolic product: a factor whose interval is small but not
    tiny (e.g. a carry known to interval analysis only as [-2,2]) is asked to be a bit / in {-1,0,1} under the path
    condition; if so the product becomes an ite (linear)."""
    if not REFINE[0] or x.lo is None or x.hi is None or z3.is_int_value(x.t):
        return
    w = x.hi - x.lo
    if w <= SMALL_SPLIT or w > 64:
        return
    ctx = Ctx.cur
    cache = ctx.__dict__.setdefault('refine_cache', {})      # lives and dies with the path context
    key = x.t.get_id()
    if key in cache and cache[key][0] is not None:
        r = cache[key][0]
    else:
        r = None
        for (lo, hi) in ((0, 1), (-1, 1), (0, 2)):
            if lo >= x.lo - 0 and hi <= x.hi + 0 or True:
                if ctx.check(z3.Or(x.t < lo, x.t > hi)) == 'unsat':
                    r = (lo, hi)
                    break
        cache[key] = (r, x.t)       # keep the term alive: ids are only unique among live terms
    if r is not None:
        x.lo, x.hi = max(x.lo, r[0]), min(x.hi, r[1])


class U:
    """Unreduced integer term with interval."""
    __slots__ = ('t', 'lo', 'hi')

    def __init__(s, t, lo, hi):
        s.t = t
        s.lo = lo
        s.hi = hi


def _u_of(o, p):
    if isinstance(o, SymInt):
        if o.cong is not None and o.cong[1] == p:
            return o.cong[0]
        return U(o.t, o.lo, o.hi)
    lo, hi = _rng(o)
    return U(_t(o), lo, hi)


NORMALIZE = [True]
NORMALIZE_MAX_SIZE = 200000


def _var_bounds(name):
    ctx = Ctx.cur
    if ctx is not None and name in ctx.aux_bounds:
        return ctx.aux_bounds[name]
    try:
        from vf.harness import Env
        if Env.cur is not None and name in Env.cur.vars:
            lo, hi = Env.cur.vars[name]
            return (lo, hi - 1)
    except Exception:
        pass
    return (None, None)


def _atom_iv(e):
    """interval of a monomial factor (variable, or anything else: unknown)."""
    if z3.is_int_value(e):
        v = e.as_long()
        return (v, v)
    if z3.is_const(e) and e.decl().kind() == z3.Z3_OP_UNINTERPRETED:
        return _var_bounds(str(e))
    if z3.is_app(e) and e.decl().kind() == z3.Z3_OP_MUL:
        iv = (1, 1)
        for c in e.children():
            iv = _iv_mul(iv, _atom_iv(c))
        return iv
    if z3.is_app(e) and e.decl().kind() == z3.Z3_OP_ITE:
        a, b = _atom_iv(e.arg(1)), _atom_iv(e.arg(2))
        if None in a or None in b:
            return (None, None)
        return (min(a[0], b[0]), max(a[1], b[1]))
    if z3.is_app(e) and e.decl().kind() == z3.Z3_OP_MOD and z3.is_int_value(e.arg(1)) and e.arg(1).as_long() > 0:
        return (0, e.arg(1).as_long() - 1)
    return (None, None)


def _normalize_mod(u, p):
    """(sum_i c_i * m_i) mod p  ==  (sum_i (c_i mod p) * m_i) mod p: reduce every coefficient of the sum-of-monomials form
    to its symmetric representative modulo p and recompute the interval from the variable ranges.  Lagrange weights,
    PRSS evaluation constants and resharing weights cancel here, before the solver sees them."""
    if not NORMALIZE[0] or p < 3:
        return u
    t = u.t
    try:
        if len(t.sexpr()) > NORMALIZE_MAX_SIZE:
            return u
    except Exception:
        return u
    t = z3.simplify(t, som=True)
    terms = t.children() if (z3.is_app(t) and t.decl().kind() == z3.Z3_OP_ADD) else [t]
    half = p // 2
    out = []
    lo = hi = 0
    ok = True
    for m in terms:
        coef, mono = 1, m
        if z3.is_int_value(m):
            coef, mono = m.as_long(), None
        elif z3.is_app(m) and m.decl().kind() == z3.Z3_OP_MUL and z3.is_int_value(m.arg(0)):
            coef = m.arg(0).as_long()
            rest = m.children()[1:]
            mono = rest[0] if len(rest) == 1 else z3.Product(*rest)
        c = coef % p
        if c > half:
            c -= p
        if c == 0:
            continue
        if mono is None:
            out.append(z3.IntVal(c))
            lo, hi = lo + c, hi + c
            continue
        out.append(mono if c == 1 else z3.IntVal(c) * mono)
        iv = _atom_iv(mono)
        if None in iv:
            ok = False
        elif ok:
            a, b = sorted((c * iv[0], c * iv[1]))
            lo, hi = lo + a, hi + b
    nt = z3.IntVal(0) if not out else (out[0] if len(out) == 1 else z3.Sum(*out))
    if ok:
        return U(nt, lo, hi)
    return U(nt, None, None)


def _reduce(u, p):
    def direct(u):
        if u.lo is not None and u.hi is not None:
            if 0 <= u.lo and u.hi < p:
                return u.t, u.lo, u.hi
            if u.lo // p == u.hi // p:
                q = u.lo // p
                return u.t - q*p, u.lo - q*p, u.hi - q*p
        return None
    r = direct(u)
    if r is not None:
        return r
    if p > (1 << 16) and not z3.is_int_value(u.t):
        nu = _normalize_mod(u, p)
        if nu is not u:
            r = direct(nu)
            if r is not None:
                return r
            return nu.t % p, 0, p - 1
    return u.t % p, 0, p - 1


def _cong2(s, o):
    ps = s.cong[1] if isinstance(s, SymInt) and s.cong else None
    po = o.cong[1] if isinstance(o, SymInt) and o.cong else None
    p = ps or po
    if p is None or (ps and po and ps != po):
        return None
    return p


def _poly_divmod(a, b):
    """a == Q*b + R where Q*b collects the monomials of a (sum-of-monomials form) that contain the variable b as a factor.
    Returns (Q, R) or None if b is not a variable.  Purely syntactic; the caller checks 0 <= R < b with the solver."""
    if not (z3.is_const(b) and b.decl().kind() == z3.Z3_OP_UNINTERPRETED):
        return None
    t = z3.simplify(a, som=True)
    terms = t.children() if (z3.is_app(t) and t.decl().kind() == z3.Z3_OP_ADD) else [t]
    Q, R = [], []
    for m in terms:
        fac, todo = [], [m]
        while todo:
            x = todo.pop()
            if z3.is_app(x) and x.decl().kind() == z3.Z3_OP_MUL:
                todo.extend(reversed(x.children()))
            else:
                fac.append(x)
        idx = next((i for i, f in enumerate(fac) if f.eq(b)), None)
        if idx is None:
            R.append(m)
        else:
            rest = fac[:idx] + fac[idx + 1:]
            Q.append(z3.IntVal(1) if not rest else (rest[0] if len(rest) == 1 else z3.Product(*rest)))
    if not Q:
        return None
    return (Q[0] if len(Q) == 1 else z3.Sum(*Q)), (z3.IntVal(0) if not R else (R[0] if len(R) == 1 else z3.Sum(*R)))


def _pydivmod(a, b):
    """Python floor divmod for symbolic divisor b (z3 div/mod are Euclidean). Quotient forking."""
    ctx = Ctx.cur
    if ctx.check(b == 0) != 'unsat':
        if ctx.branch(b == 0):
            raise ZeroDivisionError('integer division or modulo by zero')
    if SYM_DIV[0] and ctx.check(b <= 0) == 'unsat':
        pd = _poly_divmod(a, b)
        if pd is not None and ctx.check(z3.Not(z3.And(pd[1] >= 0, pd[1] < b))) == 'unsat':
            return SymInt(pd[0]), SymInt(pd[1], 0, None)      # exact by construction: a == Q*b + R with 0 <= R < b on this path
        # positive symbolic divisor, no forking: fresh quotient q with 0 <= a - q*b < b (definitional extension)
        q = ctx.aux('quo')
        ctx.add_side(z3.And(a - q * b >= 0, a - q * b < b))
        return SymInt(q), SymInt(a - q * b, 0, None)
    qe, re = a / b, a % b
    q = z3.If(z3.Or(b > 0, re == 0), qe, qe - 1)       # b < 0, re != 0: floor(a/b) = qe - 1 (z3 div is Euclidean)
    v = ctx.concretize(q)
    return v, SymInt(a - v * b)


class SymInt:
    __slots__ = ('t', 'lo', 'hi', 'cong', 'frac')

    def __init__(s, t, lo=None, hi=None, cong=None, frac=None):
        s.t = t
        s.lo = lo
        s.hi = hi
        s.cong = cong
        s.frac = frac

    # ---- arithmetic
    @_guard
    def __add__(s, o):
        lo, hi = _iv_add((s.lo, s.hi), _rng(o))
        p = _cong2(s, o)
        cong = None
        if p:
            a, b = _u_of(s, p), _u_of(o, p)
            cong = (U(a.t + b.t, *_iv_add((a.lo, a.hi), (b.lo, b.hi))), p)
        return SymInt(s.t + _t(o), lo, hi, cong)
    __radd__ = __add__

    @_guard
    def __sub__(s, o):
        if isinstance(o, SymBool):
            o = o._asint()
        return s.__add__(-o)

    @_guard
    def __rsub__(s, o):
        return (-s).__add__(o)

    @_guard
    def __mul__(s, o):
        if isinstance(o, InvConst):
            return _mul_invconst(s, o)
        if isinstance(o, SymInt) and (o.frac is not None or s.frac is not None):
            return _mul_frac(s, o)
        p = _cong2(s, o)
        cong = None
        if p:
            a, b = _u_of(s, p), _u_of(o, p)
            if isinstance(o, SymInt):
                _refine(a)
                _refine(b)
            cong = (U(_mul_terms(a.t, (a.lo, a.hi), b.t, (b.lo, b.hi)),
                      *_iv_mul((a.lo, a.hi), (b.lo, b.hi))), p)
        if isinstance(o, SymInt) and not p:
            _refine(s)
            _refine(o)
        lo, hi = _iv_mul((s.lo, s.hi), _rng(o))
        return SymInt(_mul_terms(s.t, (s.lo, s.hi), _t(o), _rng(o)), lo, hi, cong)
    __rmul__ = __mul__

    def __neg__(s):
        cong = None
        if s.cong:
            a = s.cong[0]
            cong = (U(-a.t, *_iv_neg((a.lo, a.hi))), s.cong[1])
        return SymInt(-s.t, *_iv_neg((s.lo, s.hi)), cong)

    def __pos__(s):
        return s

    @_guard
    def __mod__(s, o):
        if isinstance(o, builtins.int) and not isinstance(o, bool) and o > 0:
            if s.frac is not None and s.frac[2] == o:
                return s
            u = _u_of(s, o)
            t, lo, hi = _reduce(u, o)
            if o <= EAGER_MOD_MAX[0] and not (1 < o <= FORK_MOD_MAX[0]):
                # small modulus: reduce eagerly (keeps bit-vector widths small for the BV route)
                return SymInt(t, lo, hi)
            if 1 < o <= FORK_MOD_MAX[0] and not z3.is_int_value(z3.simplify(t)):
                # fork on the residue: every later bit test of it is concrete (masked openings)
                return Ctx.cur.concretize(t)
            return SymInt(t, lo, hi, (u, o))
        if isinstance(o, builtins.int) and not isinstance(o, bool) and o < 0:
            r = (-s) % (-o)
            return -r
        return _pydivmod(s.t, _t(o))[1]

    @_guard
    def __rmod__(s, o):
        return _pydivmod(_t(o), s.t)[1]

    @_guard
    def __floordiv__(s, o):
        if isinstance(o, builtins.int) and not isinstance(o, bool) and o > 0:
            return SymInt(s.t / o, None if s.lo is None else s.lo // o,
                          None if s.hi is None else s.hi // o)
        q = _pydivmod(s.t, _t(o))[0]
        return q

    @_guard
    def __rfloordiv__(s, o):
        return _pydivmod(_t(o), s.t)[0]

    def __divmod__(s, o):
        if isinstance(o, builtins.int) and not isinstance(o, bool) and o > 0:
            return s // o, s % o
        if not isinstance(o, (SymInt, builtins.int)):
            return NotImplemented
        return _pydivmod(s.t, _t(o))

    def __rdivmod__(s, o):
        if not isinstance(o, (SymInt, builtins.int)):
            return NotImplemented
        return _pydivmod(_t(o), s.t)

    def __truediv__(s, o):
        if isinstance(o, builtins.int) and not isinstance(o, bool) and o > 0:
            return SymRatio(s, o)
        if isinstance(o, float) and o > 0 and o == builtins.int(o):
            return SymRatio(s, builtins.int(o))
        raise Unmodelled('true division of SymInt (float)')

    def __rtruediv__(s, o):
        raise Unmodelled('true division by SymInt (float)')

    def __abs__(s):
        if s.lo is not None and s.lo >= 0:
            return s
        if s.hi is not None and s.hi <= 0:
            return -s
        if None in (s.lo, s.hi):
            lo, hi = 0, None
        else:
            lo, hi = 0, max(abs(s.lo), abs(s.hi))
        return SymInt(z3.If(s.t >= 0, s.t, -s.t), lo, hi)

    def __lshift__(s, o):
        if isinstance(o, SymInt):
            o = Ctx.cur.concretize(o.t)
        if not isinstance(o, builtins.int):
            return NotImplemented
        if o < 0:
            raise ValueError('negative shift count')
        return s * (1 << o)

    def __rlshift__(s, o):
        n = Ctx.cur.concretize(s.t)
        return o << n

    def __rshift__(s, o):
        if isinstance(o, SymInt):
            o = Ctx.cur.concretize(o.t)
        if not isinstance(o, builtins.int):
            return NotImplemented
        if o < 0:
            raise ValueError('negative shift count')
        return s // (1 << o)

    def __rrshift__(s, o):
        n = Ctx.cur.concretize(s.t)
        return o >> n

    def __and__(s, o):
        if isinstance(o, builtins.int) and o >= 0 and (o & (o + 1)) == 0:
            return s % (o + 1)
        if isinstance(o, builtins.int) and o >= 0:
            # general non-negative mask: sum of selected bits
            out = 0
            j = 0
            while (o >> j):
                if (o >> j) & 1:
                    out = out + ((s >> j) % 2) * (1 << j)
                j += 1
            return out
        if isinstance(o, SymInt):
            return _bitop(s, o, 'and')
        return NotImplemented
    __rand__ = __and__

    def __or__(s, o):
        if isinstance(o, (SymInt, builtins.int)):
            return _bitop(s, o, 'or')
        return NotImplemented
    __ror__ = __or__

    def __xor__(s, o):
        if isinstance(o, (SymInt, builtins.int)):
            return _bitop(s, o, 'xor')
        return NotImplemented
    __rxor__ = __xor__

    def __invert__(s):
        return -s - 1

    def __pow__(s, e, mod=None):
        if isinstance(e, SymInt):
            e = Ctx.cur.concretize(e.t)
        if not isinstance(e, builtins.int):
            return NotImplemented
        if e < 0:
            if mod is None:
                raise Unmodelled('negative power of SymInt')
            return pow(_sym_invert(s, mod), -e, mod)
        r = 1
        b = s
        while e:
            if e & 1:
                r = b if (isinstance(r, builtins.int) and r == 1) else r * b
                if mod is not None:
                    r = r % mod
            e >>= 1
            if e:
                b = b * b
                if mod is not None:
                    b = b % mod
        if mod is not None and isinstance(r, builtins.int):
            r = r % mod
        return r

    def __rpow__(s, o, mod=None):
        e = Ctx.cur.concretize(s.t)
        return pow(o, e, mod) if mod is not None else o ** e

    # ---- comparisons
    def _cmp(s, o, op):
        lo, hi = _rng(o)
        if None not in (s.lo, s.hi, lo, hi):
            if op == 'eq' and (s.hi < lo or hi < s.lo):
                return False
            if op == 'ne' and (s.hi < lo or hi < s.lo):
                return True
            if op == 'lt':
                if s.hi < lo: return True
                if s.lo >= hi: return False
            if op == 'le':
                if s.hi <= lo: return True
                if s.lo > hi: return False
            if op == 'gt':
                if s.lo > hi: return True
                if s.hi <= lo: return False
            if op == 'ge':
                if s.lo >= hi: return True
                if s.hi < lo: return False
        a, b = s.t, _t(o)
        return SymBool({'eq': a == b, 'ne': a != b, 'lt': a < b, 'le': a <= b,
                        'gt': a > b, 'ge': a >= b}[op])

    @_guard
    def __eq__(s, o):
        if s.frac is not None or (isinstance(o, SymInt) and o.frac is not None):
            return _frac_eq(s, o)
        return s._cmp(o, 'eq')

    @_guard
    def __ne__(s, o):
        if s.frac is not None or (isinstance(o, SymInt) and o.frac is not None):
            r = _frac_eq(s, o)
            return ~r if isinstance(r, SymBool) else not r
        return s._cmp(o, 'ne')

    @_guard
    def __lt__(s, o): return s._cmp(o, 'lt')
    @_guard
    def __le__(s, o): return s._cmp(o, 'le')
    @_guard
    def __gt__(s, o): return s._cmp(o, 'gt')
    @_guard
    def __ge__(s, o): return s._cmp(o, 'ge')

    __hash__ = None

    def __bool__(s):
        return Ctx.cur.branch(s.t != 0)

    def __index__(s):
        return Ctx.cur.concretize(s.t)

    def __int__(s):
        raise Unmodelled('int() of SymInt through the builtin')

    def __float__(s):
        raise Unmodelled('float() of SymInt')

    def __round__(s, n=None):
        return s

    def __trunc__(s): return s
    def __floor__(s): return s
    def __ceil__(s): return s

    def bit_length(s):
        a = abs(s)
        n = 0
        while True:
            if a < (1 << n):
                return n
            n += 1
            if n > 4096:
                raise Unmodelled('bit_length unbounded')

    def bit_count(s):
        raise Unmodelled('bit_count')

    def to_bytes(s, length=1, byteorder='big', *, signed=False):
        from vf import symbytes
        return symbytes.int_to_bytes(s, length, byteorder, signed)

    def __repr__(s):
        return f'Sym({s.t})[{s.lo},{s.hi}]'

    def __format__(s, spec):
        from vf import symbytes
        return symbytes.fmt_marker(s)       # f-strings used as struct formats carry the symbolic count

    @property
    def numerator(s): return s
    @property
    def denominator(s): return 1
    @property
    def real(s): return s
    @property
    def imag(s): return 0


class SymRatio:
    """num / den with a concrete positive den: what int(a) / 2**f of a symbolic fixed-point value is.  Only truth value and
    comparisons are modelled (exact rational arithmetic); anything float-like raises Unmodelled."""
    __slots__ = ('num', 'den')

    def __init__(s, num, den):
        s.num, s.den = num, den

    def _other(s, o):
        if isinstance(o, SymRatio):
            return o.num * s.den, s.num * o.den
        if isinstance(o, (builtins.int, SymInt)):
            return o * s.den, s.num
        if isinstance(o, float):
            from fractions import Fraction
            fr = Fraction(o)
            return fr.numerator * s.den, s.num * fr.denominator
        raise Unmodelled(f'SymRatio compared with {type(o)}')

    def __bool__(s): return bool(s.num != 0)
    def __eq__(s, o): b, a = s._other(o); return a == b
    def __ne__(s, o): b, a = s._other(o); return a != b
    def __lt__(s, o): b, a = s._other(o); return a < b
    def __le__(s, o): b, a = s._other(o); return a <= b
    def __gt__(s, o): b, a = s._other(o); return a > b
    def __ge__(s, o): b, a = s._other(o); return a >= b
    __hash__ = None
    def __float__(s): raise Unmodelled('float() of a symbolic ratio')
    def __repr__(s): return f'SymRatio({s.num}/{s.den})'


def _bits_of(x, n):
    """list of n bit terms of nonnegative x (SymInt or int)."""
    if isinstance(x, builtins.int):
        return [z3.IntVal((x >> j) & 1) for j in range(n)]
    with no_fork():
        return [_t((x >> j) % 2) for j in range(n)]


def _bitop(s, o, op):
    los, his = _rng(s)
    loo, hio = _rng(o)
    if None in (los, his, loo, hio) or los < 0 or loo < 0:
        # lowest set bit y & -y and masks with negative operands: fork on the values
        ctx = Ctx.cur
        a = ctx.concretize(s.t) if isinstance(s, SymInt) else s
        b = ctx.concretize(o.t) if isinstance(o, SymInt) else o
        return {'and': a & b, 'or': a | b, 'xor': a ^ b}[op]
    n = max(his.bit_length(), hio.bit_length())
    bs, bo = _bits_of(s, n), _bits_of(o, n)
    out = z3.IntVal(0)
    for j in range(n):
        x, y = bs[j], bo[j]
        if op == 'and':
            b = z3.If(z3.And(x == 1, y == 1), 1, 0)
        elif op == 'or':
            b = z3.If(z3.Or(x == 1, y == 1), 1, 0)
        else:
            b = z3.If(x != y, 1, 0)
        out = out + b * (1 << j)
    hi = (1 << n) - 1
    if op == 'and':
        hi = min(his, hio)
    return SymInt(out, 0, hi)


class no_fork:
    """harness-side arithmetic (oracles) must not fork on residues."""

    def __enter__(self):
        self.saved = FORK_MOD_MAX[0]
        FORK_MOD_MAX[0] = 0

    def __exit__(self, *a):
        FORK_MOD_MAX[0] = self.saved


class InvConst(builtins.int):
    """Concrete modular inverse of d modulo p, remembering d and p."""
    def __new__(cls, v, d, p):
        o = builtins.int.__new__(cls, v)
        o.d = d
        o.p = p
        return o


EXACTDIV = [True]
SYM_DIV = [False]     # symbolic/symbolic floor division by a positive divisor without quotient forking (set by harnesses)
EAGER_MOD_MAX = [0]   # moduli up to this are reduced eagerly (no congruence view)
FORK_MOD_MAX = [0]      # x % n with n <= this forks on the residue (set by harnesses of masked-opening protocols)


def _mul_invconst(s, o):
    """s * d^-1 mod p as fresh y with y*d - U = k*p (or exact quotient if d | U on this path)."""
    ctx = Ctx.cur
    u = _u_of(s, o.p)
    if o.d == 1:
        return s
    if EXACTDIV[0] and u.lo is not None and u.hi is not None:
        if ctx.check(u.t % o.d != 0) == 'unsat':
            q = SymInt(u.t / o.d, u.lo // o.d, u.hi // o.d)
            return SymInt(q.t, q.lo, q.hi, (U(q.t, q.lo, q.hi), o.p))
    y = ctx.aux('fdiv', 0, o.p - 1)
    if u.lo is not None and u.hi is not None:
        klo, khi = (0 - u.hi) // o.p - 1, ((o.p - 1) * o.d - u.lo) // o.p + 1
        k = ctx.aux('fdivk', klo, khi)
        side = z3.And(y >= 0, y < o.p, y * o.d - u.t == k * o.p, k >= klo, k <= khi)
    else:
        k = ctx.aux('fdivk')
        side = z3.And(y >= 0, y < o.p, y * o.d - u.t == k * o.p)
    ctx.add_side(side)
    r = SymInt(y, 0, o.p - 1)
    r.cong = (U(y, 0, o.p - 1), o.p)
    return r


# ---- fraction view: value == N * D^-1 (mod p), D invertible (assumption recorded)

def _sym_invert(a, p):
    """Modular inverse of a symbolic value: fraction view 1/a with assumption a != 0 mod p."""
    ctx = Ctx.cur
    if a.frac is not None and a.frac[2] == p:
        N, D, _ = a.frac
        ctx.add_assumption(N.t % p != 0)
        return _mkfrac(D, N, p)
    u = _u_of(a, p)
    ctx.add_assumption(u.t % p != 0)
    return _mkfrac(U(z3.IntVal(1), 1, 1), u, p)


def _mkfrac(N, D, p):
    ctx = Ctx.cur
    y = ctx.aux('inv', 0, p - 1)
    ctx.add_side(z3.And(y >= 0, y < p, (y * D.t - N.t) % p == 0))
    return SymInt(y, 0, p - 1, (U(y, 0, p - 1), p), (N, D, p))


def _frac_parts(x, p):
    if isinstance(x, SymInt) and x.frac is not None and x.frac[2] == p:
        return x.frac[0], x.frac[1]
    return _u_of(x, p), U(z3.IntVal(1), 1, 1)


def _mul_frac(s, o):
    p = (s.frac or o.frac)[2]
    n1, d1 = _frac_parts(s, p)
    n2, d2 = _frac_parts(o, p)
    N = U(n1.t * n2.t, *_iv_mul((n1.lo, n1.hi), (n2.lo, n2.hi)))
    D = U(d1.t * d2.t, *_iv_mul((d1.lo, d1.hi), (d2.lo, d2.hi)))
    return _mkfrac(N, D, p)


def _frac_eq(s, o):
    p = (s.frac or o.frac)[2]
    n1, d1 = _frac_parts(s, p)
    n2, d2 = _frac_parts(o, p)
    return SymBool((n1.t * d2.t - n2.t * d1.t) % p == 0)


# ---- int shim

class _IntMeta(type):
    def __instancecheck__(cls, x):
        return builtins.isinstance(x, (builtins.int, SymInt))

    def __subclasscheck__(cls, c):
        return c is cls or builtins.issubclass(c, (builtins.int, SymInt))

    def __call__(cls, x=0, *a, **kw):
        if kw:
            return builtins.int(x, *a, **kw)
        if builtins.isinstance(x, SymInt):
            return x
        if builtins.isinstance(x, SymBool):
            return x._asint()
        if not a and not builtins.isinstance(x, (builtins.int, float, str, bytes)) and hasattr(x, '__int__'):
            r = x.__int__()         # e.g. a field element whose value is symbolic
            return r if builtins.isinstance(r, SymInt) else builtins.int(r)
        return builtins.int(x, *a)

    def __getattr__(cls, name):
        return getattr(builtins.int, name)

    def __eq__(cls, other):
        return other is cls or other is builtins.int

    def __hash__(cls):
        return hash(builtins.int)


class IntShim(metaclass=_IntMeta):
    """Stands in for the name `int` inside a private module copy."""

    @staticmethod
    def from_bytes(data, byteorder='big', *, signed=False):
        from vf import symbytes
        if builtins.isinstance(data, (symbytes.View, symbytes.Buf, symbytes.ByteList)):
            return symbytes.bytes_to_int(data, byteorder, signed)
        return builtins.int.from_bytes(data, byteorder, signed=signed)


def is_sym(x):
    return isinstance(x, (SymInt, SymBool))
