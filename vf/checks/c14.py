"""C14 sharings dealt during protocols have full threshold degree.

Every frame a party sends from a dealing site (input/_distribute, _reshare, dealer randomness) must be exactly
row j of a call thresha.random_split(field, x, t, m) made by that party with t == runtime.threshold >= 1,
m == number of parties, fresh coefficients drawn by secrets.randbelow(field.order), t per secret; and no other
site than output/transfer puts field values on the wire.  With C13 (any t shares of random_split are uniform)
this gives: no protocol message carries a secret or a share of one in the clear."""
import sys
from vf.runner import Inst
from vf import l1, kit

PROPERTY = 'C14'
LEVEL = 'model_checking'
ENGINE = 'simnet'
BOUNDS = {'quick': dict(configs='(3,1),(4,1),(5,2) x PRSS on/off', programs='mul_add, in_prod, prod3 (m=3), randoms, allany (m=3)',
                        ext_fields='random_split over GF(4), GF(9): recorded randbelow bound == order'),
          'thorough': dict(configs='(3,1),(4,1),(5,1),(5,2),(6,2),(7,3) x PRSS on/off', programs='whole L1 corpus', ext_fields='GF(4), GF(8), GF(9)')}
OUTSIDE = ['uniformity of a degree-t dealing as such (C13)', 'frames of output/transfer (shares opened on purpose, user payloads)',
           'programs outside the L1 corpus']
ASSUMPTIONS = ['secrets.randbelow uniform', 'C13 for the dealt rows']
LEVEL_TEXT = ('Bounded symbolic model checking of the real runtime in the m-party simulator: each dealing frame on the wire is matched '
              '(as a symbolic term, by the solver) against the row of a recorded random_split call with the runtime threshold; the recorded '
              'arguments (degree, party count, randbelow bounds and counts) are asserted. Catches a dealing with lower degree, reused or '
              'missing randomness, or a value sent without dealing.')
LEVEL_NOTE = 'Trusted: z3, shadow-int engine, simnet wire log, C13 (uniformity of the real random_split).'

DEAL_SITES = ('_distribute', '_reshare')


def _instrument(env, log):
    def inst(party, sim):
        thresha = party.thresha
        mpc = party.mpc
        orig_split = thresha.random_split

        def random_split(field, s, t, m, _orig=orig_split):
            n0 = party.n_randbelow
            rows = _orig(field, s, t, m)
            log['splits'].append(dict(pid=party.pid, t=t, m=m, n=len(s), order=field.order, rows=rows, n0=n0, secrets=list(s),
                                      modulus=field.modulus,
                                      draws=party.n_randbelow - n0, bounds=list(party.randbelow_log[n0:])))
            return rows
        thresha.random_split = random_split
        orig_send = mpc._send_message

        def _send_message(peer_pid, data, _orig=orig_send):
            site = sys._getframe(1).f_code.co_name
            log['sends'].append(dict(src=party.pid, dst=peer_pid, site=site, data=bytes(data)))
            return _orig(peer_pid, data)
        mpc._send_message = _send_message
    return inst


def h(env):
    P = env.params
    m, t = P['m'], P['t']
    log = dict(splits=[], sends=[])
    run = l1.run_program(env, m, t, P['prss'], P['prog'], instrument=_instrument(env, log))
    if run['results'] is None:
        return
    sim = run['sim']
    table = sim.table
    thr = sim.parties[0].mpc.threshold
    env.check('threshold>=1', thr == t and t >= 1)
    for k, sp in enumerate(log['splits']):
        env.check(f'split[{k}]:degree==threshold', sp['t'] == thr)
        env.check(f'split[{k}]:m', sp['m'] == m and len(sp['rows']) == m)
        env.check(f'split[{k}]:draws', sp['draws'] == sp['t'] * sp['n'])
        env.check(f'split[{k}]:bounds', all(b == sp['order'] for b in sp['bounds']))
        if isinstance(sp['modulus'], int) and sp['draws'] == sp['t'] * sp['n']:
            # the dealt rows are the values at 1..m of s + c_1 X + ... + c_t X^t with the t fresh draws as coefficients (either order):
            # full degree t in independent coefficients (a dealing that only uses the sum of the draws has degree 1)
            p_, tt = sp['modulus'], sp['t']
            orders = []
            for rev in (True, False):
                conj = []
                for hh in range(sp['n']):
                    cs = [env.var(f'rb_p{sp["pid"]}_{sp["n0"] + hh * tt + j + 1}') for j in range(tt)]
                    if rev:
                        cs = cs[::-1]
                    s_h = kit.fval(sp['secrets'][hh])
                    for x in range(1, sp['m'] + 1):
                        poly = s_h + sum(c * x ** (j + 1) for j, c in enumerate(cs))
                        conj.append((kit.fval(sp['rows'][x - 1][hh]) - poly) % p_ == 0)
                orders.append(env.all(conj))
            env.check(f'split[{k}]:rows_are_a_degree_t_polynomial_in_the_fresh_coefficients', env.any(orders))
    used = set()
    nframes = 0
    for s in log['sends']:
        if s['site'] in ('output', 'transfer'):
            continue
        nframes += 1
        env.check(f'send_site[{s["site"]}]', s['site'] in DEAL_SITES)
        vals = table[s['data']][1] if s['data'] in table else None
        # find the recorded dealing of the same party whose row for dst is this frame
        cands = [(k, sp) for k, sp in enumerate(log['splits']) if sp['pid'] == s['src'] and k not in used]
        match = None
        for k, sp in cands:
            row = sp['rows'][s['dst']]
            if vals is not None and len(row) == len(vals) and all(a is b for a, b in zip(row, vals)):
                match = k
                break
        if vals is None:
            # concrete mode (replay): compare decoded values
            # decode using byte length implied by the row
            for k, sp in cands:
                row = sp['rows'][s['dst']]
                if len(row) and len(s['data']) % len(row) == 0:
                    r = len(s['data']) // len(row)
                    dec = [int.from_bytes(s['data'][i:i + r], 'little') for i in range(0, len(s['data']), r)]
                    if dec == [int(v) for v in row]:
                        match = k
                        break
        env.check(f'frame[{s["src"]}->{s["dst"]}@{s["site"]}#{nframes}]:is_row_of_a_threshold_dealing', match is not None)
    env.check('some_dealing_frames', nframes > 0)
    l1.assert_outputs(env, run)


def h_ext(env):
    """random_split over extension fields draws its coefficients from range(field.order)."""
    import itertools
    P = env.params
    m, t, q = 3, 1, P['q']
    mods = kit.import_plain('mpyc.thresha', 'mpyc.finfields', 'mpyc.gfpx')
    party = kit.install(env, mods, 0, prf_stub=False)
    thresha, ff = party.thresha, party.finfields
    env.encoded(thresha.random_split)
    F = ff.GF(ff.find_irreducible(P['char'], P['deg']))
    sv = env.fresh('s', 0, q)
    sv = sv.__index__() if env.mode == 'sym' else sv
    thresha.random_split(F, [F(sv), F(sv)], t, m)
    env.check('randbelow_bound==order', all(b == q for b in party.randbelow_log))
    env.check('randbelow_calls==t*n', len(party.randbelow_log) == 2 * t)


def h_twin(env):
    """twin: claims that output frames are dealings too (they are plain shares): must come back violated."""
    log = dict(splits=[], sends=[])
    run = l1.run_program(env, 3, 1, True, 'mul_add', instrument=_instrument(env, log))
    env.check('output_frames_are_dealings', all(s['site'] in DEAL_SITES for s in log['sends']))


def instances(tier):
    out = []
    cfgs = [(3, 1), (4, 1), (5, 2)] if tier == 'quick' else [(3, 1), (4, 1), (5, 1), (5, 2), (6, 2), (7, 3)]
    progs = ['mul_add', 'in_prod', 'prod3', 'randoms', 'allany'] if tier == 'quick' else \
        ['mul_add', 'linear', 'in_prod', 'prod3', 'pow3', 'vec', 'matrix', 'select', 'allany', 'randoms']
    for (m, t) in cfgs:
        for prss in (True, False):
            for prog in progs:
                if prog in ('prod3', 'pow3', 'allany') and m > 3:
                    continue
                out.append(Inst(f'{prog}[m={m},t={t},prss={int(prss)}]', h, dict(m=m, t=t, prss=prss, prog=prog), timeout=600))
    for q, char, deg in [(4, 2, 2), (9, 3, 2)] + ([(8, 2, 3)] if tier != 'quick' else []):
        out.append(Inst(f'ext_field_randbelow[q={q}]', h_ext, dict(q=q, char=char, deg=deg), timeout=600, max_paths=20000))
    out.append(Inst('twin_output_frames_are_dealings', h_twin, {}, twin=True, expect='violated'))
    return out
