"""C36 a crashed / disconnected party never makes the others output wrong values.

(a) prefix safety of the framing layer, symbolic: for an arbitrary byte stream and cut point, feeding the cut stream
    delivers exactly a prefix of the frames of the full stream, each complete (real data_received).
(b) the real 3-party runtime in the simulator with symbolic inputs: one party stops after k writes plus a partial one (crash points
    enumerated: frame boundaries, mid-header, mid-payload of each of its messages); every output a survivor completes
    must be the same term as in the crash-free run (decided by the solver for all input values)."""
from vf.runner import Inst

PROPERTY = 'C36'
LEVEL = 'model_checking'
BOUNDS = {'quick': dict(a='stream 30 bytes, cut anywhere, <= 3 frames', b='m=3,t=1, PRSS on/off, program "two products and a comparison-free '
                        'sum, three outputs" (outputs to all parties; and to parties 1,2 only with party 0 crashing), crashing party 0..2, crash points: after every write of the crashing party: at the frame boundary, 5 bytes into the next frame (mid-header), one byte before its end (mid-payload); connection reset at all points, orderly close at the mid-payload points'),
          'thorough': dict(a='stream 44 bytes', b='as quick plus m=4,t=1 and a second program with in_prod and list outputs')}
OUTSIDE = ['crashes of more than one party', 'byte offsets other than the three positions per message (the symbolic part (a) covers every cut of the stream)',
           'surviving parties that hang: the property allows "does not complete"']
ASSUMPTIONS = ['a crash delivers the bytes written so far and then closes the connection (reset at every crash point; orderly close at mid-payload points)', 'C10 for chunkings of the delivered prefix']
LEVEL_TEXT = ('(a) bounded symbolic model checking of the real framing code over all streams and cut points in the bound; (b) crash points are enumerated '
              '(stated as enumeration) while inputs and all randomness stay symbolic: for each crash point one symbolic run of the real runtime, '
              'obligations "every completed output equals the crash-free value" decided by z3.')
LEVEL_NOTE = 'Trusted: z3, shadow-int engine, symbytes shims, simnet crash model (partial write, then connection loss; exceptions escaping callbacks are logged by the event loop, which keeps running, as asyncio does).'


def h_prefix(env):
    from vf import symbytes
    from vf.checks import c10
    P = env.params
    N = P['N']
    stream = symbytes.Stream(env, N)
    n = env.fresh('n', 0, N + 1)
    k = env.fresh('k', 0, N + 1)
    env.assume(k <= n)

    def run(upto):
        party, asy, rt, ex, log = c10._mk(env, 3, 1, 2, 1)
        if env.mode == 'sym':
            ex.bytes = symbytes.Buf(stream, 0, 0)
            ex.buffers = symbytes.SymDict()
        else:
            ex.bytes = bytearray()
            ex.buffers = {}
        c10._feed(env, ex, stream.view(0, upto))
        return c10._state(env, ex)
    (lf, ef), (lp, ep) = run(n), run(k)
    env.check('prefix:not_more_frames', len(ep) <= len(ef))
    for i, ((kp, vp), (kf, vf)) in enumerate(zip(ep, ef)):
        env.check(f'prefix:label[{i}]', kp == kf)
        env.check(f'prefix:payload_complete[{i}]', vp == vf)
    if env.mode == 'sym':
        env.check('prefix:leftover_end', lp[1] == k)
        # leftover of the cut stream starts where the delivered frames end
        consumed = sum((12 + v.n) for _, v in ep)
        env.check('prefix:leftover_start', lp[0] == consumed)
    else:
        consumed = sum(12 + len(v) for _, v in ep)
        env.check('prefix:leftover', lp == stream.data[consumed:k])


def _program(env, X, prog):
    async def body(party, done):
        mpc = party.mpc
        secint = mpc.SecInt(8)
        F = secint.field
        i = party.pid
        a = mpc.input(secint(F(X[0])) if i == 0 else secint(0), senders=0)
        b = mpc.input(secint(F(X[1])) if i == 1 else secint(0), senders=1)
        c = mpc.input(secint(F(X[2])) if i == 2 % len(X) else secint(0), senders=2 % party.m)
        if prog in ('products', 'products_sub'):
            ys = [a * b, a * b + c, (a - c) * (b + 3)]
        else:
            ys = [mpc.in_prod([a, b], [b, c]), mpc.sum([a, b, c]), a * a]
        # products_sub: outputs go to parties 1.. only (no survivor has to send anything to party 0 after the inputs)
        kw = dict(receivers=list(range(1, party.m))) if prog == 'products_sub' else {}
        for j, y in enumerate(ys):
            v = await mpc.output(y, raw=True, **kw)
            if v is not None:
                done.append((j, v.value, F.modulus))
        w = await mpc.output(ys, raw=True, **kw)
        if w is not None and (not kw or i >= 1):
            done.append(('all', [x.value for x in w], F.modulus))
        return True
    return body


def _expected(X, prog):
    a, b, c = X
    if prog in ('products', 'products_sub'):
        return [a * b, a * b + c, (a - c) * (b + 3)]
    return [a * b + b * c, a + b + c, a * a]


def h_crash(env):
    from vf import simnet, kit, l1
    P = env.params
    m, t, prss, prog, cp, (nw, off) = P['m'], P['t'], P['prss'], P['prog'], P['crasher'], P['w']
    X = [env.fresh(f'x{i}', -11, 12) for i in range(3)]
    sim = simnet.Sim(env, m, t, ['-K', '30'] + ([] if prss else ['--no-prss']))
    for party in sim.parties:
        party.m = m
    body = _program(env, X, prog)
    done = {i: [] for i in range(m)}

    async def prg(party):
        return await body(party, done[party.pid])
    sim.start(prg)
    written = [0]
    stopped = set()
    logged = []

    # crash model: party cp completes nw writes (one write per frame / handshake message) and stops `off` bytes into the next one.  Crash points
    # are counted in writes, not bytes, because symbolic payloads cross the simulated wire as fixed-size tokens (a symbolic run and its
    # concrete replay must cut the same frame at the same place: header bytes 0..11 are real in both)
    orig_write = simnet.SimTransport.write

    def write(self, data):
        src = self.conn.pids[self.side]
        if src == cp:
            if cp in stopped:
                return
            if written[0] == nw:
                data = bytes(data)[:off] if off < 12 else bytes(data)[:max(12, len(data) - 1)] if off == 13 else bytes(data)[:off]
                stopped.add(cp)
            written[0] += 1
        if src in stopped and src != cp:
            return
        return orig_write(self, data)
    simnet.SimTransport.write = write
    try:
        steps = 0
        while True:
            steps += 1
            if steps > 20000:
                break
            sim.net.process_closes()
            progressed = False
            for i, loop in enumerate(sim.loops):
                if i in stopped:
                    continue
                if loop._ready:
                    try:
                        loop.step()
                    except simnet.Deadlock:
                        raise
                    except BaseException as e:          # noqa
                        from vf.symx import PathAbort, Unmodelled
                        if isinstance(e, (PathAbort, Unmodelled)):
                            raise
                        # as in a real event loop: an exception escaping a callback or a task's done-callback is handed to the loop's exception
                        # handler (logged) and the loop goes on; only the coroutine concerned stays unfinished ("does not complete")
                        import os
                        if os.environ.get('VF_DEBUG36'):
                            import traceback
                            traceback.print_exc()
                        logged.append((i, type(e).__name__))
                        sim.net.errors.clear()
                    progressed = True
            for (c, side) in sim.net.deliverable():
                dst = c.pids[1 - side]
                if dst in stopped:
                    c.queues[side].clear()
                    continue
                sim.net.deliver(c, side)
                progressed = True
            if cp in stopped:
                # connection loss is signalled to the peers once the written bytes are delivered
                for c in sim.net.conns:
                    if cp in c.pids and not c.closed and not c.queues[0] and not c.queues[1]:
                        c.closed = True
                        other = 1 - c.pids.index(cp)
                        if c.pids[other] not in stopped:
                            # the peer's socket is closed by its OS: either a reset or an orderly FIN (connection_lost(None))
                            c.loops[other].call_soon(c.protos[other].connection_lost,
                                                     None if P.get('close') == 'clean' else ConnectionResetError('peer crashed'))
                            progressed = True
            if all(tk.done() for i, tk in enumerate(sim.tasks) if i not in stopped):
                break
            if not progressed:
                timers = [i for i, l in enumerate(sim.loops) if l._scheduled and i not in stopped]
                if not timers:
                    break
                for i in timers:
                    sim.loops[i].step()
    finally:
        simnet.SimTransport.write = orig_write
    R = type(sim.parties[0].mpc)
    env.encoded(R.output, R._reshare, sim.parties[0].asyncoro.MessageExchanger.data_received,
                sim.parties[0].asyncoro.MessageExchanger.connection_lost)
    want = _expected(X, prog)
    ncompleted = 0
    for i in range(m):
        if i == cp:
            continue
        for (j, v, p) in done[i]:
            ncompleted += 1
            if j == 'all':
                for jj, vv in enumerate(v):
                    env.eq(f'out[all,{jj}]@{i}', kit.signed(env, vv, p), want[jj])
            else:
                env.eq(f'out[{j}]@{i}', kit.signed(env, v, p), want[j])
    env.observe('completed_outputs', ncompleted)
    env.observe('exceptions_logged_by_the_event_loops', len(logged))
    z = env.fresh('z', 0, 2)
    env.check('marker(run_finished)', (z == 0) | (z == 1))


def _reference_writes(m, t, prss, prog):
    """number of writes (frames) of each party in a crash-free concrete run (to place the crash points)."""
    from vf import harness, simnet
    env = harness.Env('conc', values={}, seed=0)
    X = [3, -4, 5]
    sim = simnet.Sim(env, m, t, ['-K', '30'] + ([] if prss else ['--no-prss']))
    for party in sim.parties:
        party.m = m
    body = _program(env, X, prog)

    async def prg(party):
        return await body(party, [])
    sim.start(prg)
    sim.run_canonical()
    counts = {i: 0 for i in range(m)}
    for (src, dst, data) in sim.net.wire:
        counts[src] += 1
    return counts


def h_twin(env):
    """twin: claims that survivors always complete all outputs after a crash (false): must come back violated."""
    env.params.update(dict(m=3, t=1, prss=True, prog='products', crasher=1, w=[8, 5]))
    h_crash(env)
    # re-derive the number of completed outputs from the observations
    n = [v for (l, v) in env.observed if l == 'completed_outputs'][-1]
    env.check('all_outputs_complete_despite_crash', n == 8)


def instances(tier):
    import os
    out = []
    q = tier == 'quick'
    out.append(Inst(f'prefix[N={30 if q else 44}]', h_prefix, dict(N=30 if q else 44), timeout=3000, max_paths=100000))
    cfgs = [(3, 1, True, 'products'), (3, 1, False, 'products')] if q else \
        [(3, 1, True, 'products'), (3, 1, False, 'products'), (3, 1, True, 'inprod'), (4, 1, True, 'products'), (4, 1, False, 'inprod')]
    # frame boundaries of the reference runs are cached per version of the code they were measured on
    import hashlib, importlib.util
    from vf import runner
    pkg = os.path.dirname(importlib.util.find_spec('mpyc').origin)
    hsh = hashlib.sha256(b''.join(open(os.path.join(pkg, f), 'rb').read() for f in ('runtime.py', 'asyncoro.py', 'thresha.py', 'finfields.py'))).hexdigest()[:12]
    cache = os.path.join(runner.WORK, f'c36_writes_{hsh}.json')
    import json
    allb = {}
    if os.path.exists(cache):
        try:
            allb = json.load(open(cache))
        except Exception:
            allb = {}
    changed = False
    OFFS = {0: 'frame boundary', 5: 'mid-header', 13: 'mid-payload (one byte short)'}
    for (m, t, prss, prog) in cfgs:
        key = f'{m},{t},{int(prss)},{prog}'
        if key not in allb:
            allb[key] = {str(k): v for k, v in _reference_writes(m, t, prss, prog).items()}
            changed = True
        for cp in range(m):
            n = allb[key][str(cp)]
            for k in range(1, n):
                for off in (0, 5, 13):
                    out.append(Inst(f'crash[m={m},t={t},prss={int(prss)},{prog},party={cp},after {k} writes+{off}]', h_crash,
                                    dict(m=m, t=t, prss=prss, prog=prog, crasher=cp, w=[k, off]), timeout=600, n_validate=0))
                # the same crash seen by the peers as an orderly close (FIN) instead of a reset: mid-payload points (a frame header is buffered)
                if not q or prss:
                    out.append(Inst(f'crash[m={m},t={t},prss={int(prss)},{prog},party={cp},after {k} writes+13,clean close]', h_crash,
                                    dict(m=m, t=t, prss=prss, prog=prog, crasher=cp, w=[k, 13], close='clean'), timeout=600, n_validate=0))
    # outputs to a receiver subset that excludes the crashing party 0: survivors never have to write to the dead party
    key = '3,1,1,products_sub'
    if key not in allb:
        allb[key] = {str(k): v for k, v in _reference_writes(3, 1, True, 'products_sub').items()}
        changed = True
    for k in range(1, allb[key]['0']):
        for off in ((0, 13) if q else (0, 5, 13)):
            for close in ('clean', 'reset'):
                out.append(Inst(f'crash[m=3,t=1,prss=1,products_sub,party=0,after {k} writes+{off},{close} close]', h_crash,
                                dict(m=3, t=1, prss=True, prog='products_sub', crasher=0, w=[k, off], close=close), timeout=600, n_validate=0))
    if changed:
        os.makedirs(os.path.dirname(cache), exist_ok=True)
        json.dump(allb, open(cache, 'w'))
    out.append(Inst('twin_all_outputs_complete_despite_crash', h_twin, {}, twin=True, expect='violated'))
    return out
