"""C36 a crashed / disconnected party never makes the others output wrong values.

(a) prefix safety of the framing layer, symbolic: for an arbitrary byte stream and cut point, feeding the cut stream
    delivers exactly a prefix of the frames of the full stream, each complete (real data_received).
(b) the real 3-party runtime in the simulator with symbolic inputs: one party stops after w bytes written (crash points
    enumerated: frame boundaries, mid-header, mid-payload of each of its messages); every output a survivor completes
    must be the same term as in the crash-free run (decided by the solver for all input values)."""
from vf.runner import Inst

PROPERTY = 'C36'
LEVEL = 'model_checking'
BOUNDS = {'quick': dict(a='stream 30 bytes, cut anywhere, <= 3 frames', b='m=3,t=1, PRSS on/off, program "two products and a comparison-free '
                        'sum, three outputs", crashing party 0..2, crash points: every frame boundary, +5 bytes (mid-header), +13 bytes (mid-payload)'),
          'thorough': dict(a='stream 44 bytes', b='as quick plus m=4,t=1 and a second program with in_prod and list outputs')}
OUTSIDE = ['crashes of more than one party', 'byte offsets other than the three positions per message (the symbolic part (a) covers every cut of the stream)',
           'surviving parties that hang: the property allows "does not complete"']
ASSUMPTIONS = ['a crash delivers the bytes written so far and then closes the connection', 'C10 for chunkings of the delivered prefix']
LEVEL_TEXT = ('(a) bounded symbolic model checking of the real framing code over all streams and cut points in the bound; (b) crash points are enumerated '
              '(stated as enumeration) while inputs and all randomness stay symbolic: for each crash point one symbolic run of the real runtime, '
              'obligations "every completed output equals the crash-free value" decided by z3.')
LEVEL_NOTE = 'Trusted: z3, shadow-int engine, symbytes shims, simnet crash model (partial write, then connection loss).'


def h_prefix(env):
    from vf import symbytes
    from vf.checks import c10
    P = env.params
    N = P['N']
    stream = symbytes.Stream(env, N)
    n = env.fresh('n', 0, N + 1)
    k = env.fresh('k', 0, N + 1)
    env.assume(k <= n)

    def run(upto):
        party, asy, rt, ex, log = c10._mk(env, 3, 1, 2, 1)
        if env.mode == 'sym':
            ex.bytes = symbytes.Buf(stream, 0, 0)
            ex.buffers = symbytes.SymDict()
        else:
            ex.bytes = bytearray()
            ex.buffers = {}
        c10._feed(env, ex, stream.view(0, upto))
        return c10._state(env, ex)
    (lf, ef), (lp, ep) = run(n), run(k)
    env.check('prefix:not_more_frames', len(ep) <= len(ef))
    for i, ((kp, vp), (kf, vf)) in enumerate(zip(ep, ef)):
        env.check(f'prefix:label[{i}]', kp == kf)
        env.check(f'prefix:payload_complete[{i}]', vp == vf)
    if env.mode == 'sym':
        env.check('prefix:leftover_end', lp[1] == k)
        # leftover of the cut stream starts where the delivered frames end
        consumed = sum((12 + v.n) for _, v in ep)
        env.check('prefix:leftover_start', lp[0] == consumed)
    else:
        consumed = sum(12 + len(v) for _, v in ep)
        env.check('prefix:leftover', lp == stream.data[consumed:k])


def _program(env, X, prog):
    async def body(party, done):
        mpc = party.mpc
        secint = mpc.SecInt(8)
        F = secint.field
        i = party.pid
        a = mpc.input(secint(F(X[0])) if i == 0 else secint(0), senders=0)
        b = mpc.input(secint(F(X[1])) if i == 1 else secint(0), senders=1)
        c = mpc.input(secint(F(X[2])) if i == 2 % len(X) else secint(0), senders=2 % party.m)
        if prog == 'products':
            ys = [a * b, a * b + c, (a - c) * (b + 3)]
        else:
            ys = [mpc.in_prod([a, b], [b, c]), mpc.sum([a, b, c]), a * a]
        for j, y in enumerate(ys):
            v = await mpc.output(y, raw=True)
            done.append((j, v.value, F.modulus))
        w = await mpc.output(ys, raw=True)
        done.append(('all', [x.value for x in w], F.modulus))
        return True
    return body


def _expected(X, prog):
    a, b, c = X
    if prog == 'products':
        return [a * b, a * b + c, (a - c) * (b + 3)]
    return [a * b + b * c, a + b + c, a * a]


def h_crash(env):
    from vf import simnet, kit, l1
    P = env.params
    m, t, prss, prog, cp, w = P['m'], P['t'], P['prss'], P['prog'], P['crasher'], P['w']
    X = [env.fresh(f'x{i}', -11, 12) for i in range(3)]
    sim = simnet.Sim(env, m, t, ['-K', '30'] + ([] if prss else ['--no-prss']))
    for party in sim.parties:
        party.m = m
    body = _program(env, X, prog)
    done = {i: [] for i in range(m)}

    async def prg(party):
        return await body(party, done[party.pid])
    sim.start(prg)
    written = [0]
    stopped = set()

    # crash model: party cp stops after w bytes written in total; the write in progress is truncated
    for c in []:
        pass
    orig_write = simnet.SimTransport.write

    def write(self, data):
        src = self.conn.pids[self.side]
        if src == cp:
            if cp in stopped:
                return
            room = w - written[0]
            if len(data) >= room:
                data = bytes(data)[:room]
                stopped.add(cp)
            written[0] += len(data)
        if src in stopped and src != cp:
            return
        return orig_write(self, data)
    simnet.SimTransport.write = write
    try:
        steps = 0
        while True:
            steps += 1
            if steps > 20000:
                break
            sim.net.process_closes()
            progressed = False
            for i, loop in enumerate(sim.loops):
                if i in stopped:
                    continue
                if loop._ready:
                    try:
                        loop.step()
                    except simnet.Deadlock:
                        raise
                    except BaseException as e:          # noqa: a party that raises has stopped (allowed: "does not complete")
                        from vf.symx import PathAbort, Unmodelled
                        if isinstance(e, (PathAbort, Unmodelled)):
                            raise
                        stopped.add(i)
                        sim.net.errors.clear()
                    progressed = True
            for (c, side) in sim.net.deliverable():
                dst = c.pids[1 - side]
                if dst in stopped:
                    c.queues[side].clear()
                    continue
                sim.net.deliver(c, side)
                progressed = True
            if cp in stopped:
                # connection loss is signalled to the peers once the written bytes are delivered
                for c in sim.net.conns:
                    if cp in c.pids and not c.closed and not c.queues[0] and not c.queues[1]:
                        c.closed = True
                        other = 1 - c.pids.index(cp)
                        if c.pids[other] not in stopped:
                            c.loops[other].call_soon(c.protos[other].connection_lost, ConnectionResetError('peer crashed'))
                            progressed = True
            if all(tk.done() for i, tk in enumerate(sim.tasks) if i not in stopped):
                break
            if not progressed:
                timers = [i for i, l in enumerate(sim.loops) if l._scheduled and i not in stopped]
                if not timers:
                    break
                for i in timers:
                    sim.loops[i].step()
    finally:
        simnet.SimTransport.write = orig_write
    R = type(sim.parties[0].mpc)
    env.encoded(R.output, R._reshare, sim.parties[0].asyncoro.MessageExchanger.data_received,
                sim.parties[0].asyncoro.MessageExchanger.connection_lost)
    want = _expected(X, prog)
    ncompleted = 0
    for i in range(m):
        if i == cp:
            continue
        for (j, v, p) in done[i]:
            ncompleted += 1
            if j == 'all':
                for jj, vv in enumerate(v):
                    env.eq(f'out[all,{jj}]@{i}', kit.signed(env, vv, p), want[jj])
            else:
                env.eq(f'out[{j}]@{i}', kit.signed(env, v, p), want[j])
    env.observe('completed_outputs', ncompleted)
    z = env.fresh('z', 0, 2)
    env.check('marker(run_finished)', (z == 0) | (z == 1))


def _reference_writes(m, t, prss, prog):
    """frame boundaries of each party's writes in a crash-free concrete run (to place the crash points)."""
    from vf import harness, simnet
    env = harness.Env('conc', values={}, seed=0)
    X = [3, -4, 5]
    sim = simnet.Sim(env, m, t, ['-K', '30'] + ([] if prss else ['--no-prss']))
    for party in sim.parties:
        party.m = m
    body = _program(env, X, prog)

    async def prg(party):
        return await body(party, [])
    sim.start(prg)
    sim.run_canonical()
    bounds = {i: [0] for i in range(m)}
    for (src, dst, data) in sim.net.wire:
        bounds[src].append(bounds[src][-1] + len(data))
    return bounds


def h_twin(env):
    """twin: claims that survivors always complete all outputs after a crash (false): must come back violated."""
    env.params.update(dict(m=3, t=1, prss=True, prog='products', crasher=1, w=150))
    h_crash(env)
    # re-derive the number of completed outputs from the observations
    n = [v for (l, v) in env.observed if l == 'completed_outputs'][-1]
    env.check('all_outputs_complete_despite_crash', n == 8)


def instances(tier):
    import os
    out = []
    q = tier == 'quick'
    out.append(Inst(f'prefix[N={30 if q else 44}]', h_prefix, dict(N=30 if q else 44), timeout=3000, max_paths=100000))
    cfgs = [(3, 1, True, 'products'), (3, 1, False, 'products')] if q else \
        [(3, 1, True, 'products'), (3, 1, False, 'products'), (3, 1, True, 'inprod'), (4, 1, True, 'products'), (4, 1, False, 'inprod')]
    # frame boundaries of the reference runs are cached per version of the code they were measured on
    import hashlib, importlib.util
    from vf import runner
    pkg = os.path.dirname(importlib.util.find_spec('mpyc').origin)
    hsh = hashlib.sha256(b''.join(open(os.path.join(pkg, f), 'rb').read() for f in ('runtime.py', 'asyncoro.py', 'thresha.py', 'finfields.py'))).hexdigest()[:12]
    cache = os.path.join(runner.WORK, f'c36_bounds_{hsh}.json')
    import json
    allb = {}
    if os.path.exists(cache):
        try:
            allb = json.load(open(cache))
        except Exception:
            allb = {}
    changed = False
    for (m, t, prss, prog) in cfgs:
        key = f'{m},{t},{int(prss)},{prog}'
        if key not in allb:
            b = _reference_writes(m, t, prss, prog)
            allb[key] = {str(k): v for k, v in b.items()}
            changed = True
        bounds = allb[key]
        for cp in range(m):
            bs = bounds[str(cp)]
            points = set()
            for x in bs[1:-1]:
                points.update([x, x + 5, x + 13])
            points = sorted(p for p in points if 0 < p < bs[-1])
            for w in points:
                out.append(Inst(f'crash[m={m},t={t},prss={int(prss)},{prog},party={cp},w={w}]', h_crash,
                                dict(m=m, t=t, prss=prss, prog=prog, crasher=cp, w=w), timeout=600, n_validate=0))
    if changed:
        os.makedirs(os.path.dirname(cache), exist_ok=True)
        json.dump(allb, open(cache, 'w'))
    out.append(Inst('twin_all_outputs_complete_despite_crash', h_twin, {}, twin=True, expect='violated'))
    return out
