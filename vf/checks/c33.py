"""C33 secure random functions: documented shape/range on every accepting path, and uniformity given uniform secret bits
(real mpyc.random code at m=1; every secret random bit is a solver variable; public rejections fork paths)."""
import itertools

from vf.runner import Inst

PROPERTY = 'C33'
LEVEL = 'model_checking'
BOUNDS = {'quick': dict(sizes='_randbelow n<=8, random_unit_vector n<=6, randrange/randint small ranges, choice/choices population<=4, shuffle/random_permutation n<=4, '
                              'random_derangement n<=4, sample k<=n<=4, getrandbits k<=4, random/uniform secfxp(8,4)',
                        restarts='at most one public rejection per path (further restarts cut and counted)',
                        random_bits='real Runtime.random_bits over GF(p), p in {7,11,19,23}, m=1 and m=3 (t=1, PRSS on/off)'),
          'thorough': dict(sizes='_randbelow n<=13, random_unit_vector n<=9, shuffle n<=5, derangement n<=4', restarts='at most two public rejections per path',
                           random_bits='as quick plus p in {31, 43}')}
OUTSIDE = ['paths with more public rejections than the bound (each restart draws fresh bits: the exploration is cut there, the cut is counted)',
           'uniformity of sample() over a range population (rejection of repeats: uniform by a counting argument, not by the product criterion); its shape is checked',
           'np_random_unit_vector and the NumPy variants (C37)', 'random_bits over large prime fields beyond the stated sizes (square root of an opened value: C21)']
ASSUMPTIONS = ['random_bits returns independent uniform secret bits (ideal functionality) for the functions built on it; random_bits itself is checked on the real code for small fields',
               'prod + is_zero_public contract inside random_derangement / sample (checked on the real code in C01 L1 runs)']
RULE = ('Uniformity is decided per path (public transcript) by four solver obligations over the bit variables: (P) the path condition is a product '
        'D x A of conditions on discarded and final bits, (O) the output does not depend on discarded bits, (I) the output is injective on A, (S) every '
        'documented outcome is reachable (SAT obligations); together: conditional on every public transcript each outcome has exactly |D| bit patterns.')
LEVEL_TEXT = ('Bounded symbolic model checking of the real mpyc.random functions: one symbolic execution per public transcript (rejection pattern) covers all '
              'values of the secret bits; shape/range obligations and the uniformity criterion (P),(O),(I),(S) are decided by z3; a failed uniformity obligation is '
              'confirmed by exhaustive enumeration of the bit patterns on the unshimmed code before it is reported.')
LEVEL_NOTE = 'Trusted: z3, shadow-int engine, ideal random_bits for the layers above it.'


class _NeedMore(Exception):
    pass


class _TooManyDraws(Exception):
    pass


def _kit(env, cap, **kw):
    from vf import l2
    return l2.L2(env, rb_cap=cap, **kw)


def _bitvars(env):
    return sorted((n for n in env.declared if n.startswith('bit')), key=lambda s: int(s[3:]))


def _uniform_obligations(env, outs, outcomes, draws):
    """Uniformity conditional on the public transcript of this path.  The bit variables are split into final bits F and
    context C (everything else: discarded bits, bits of earlier rounds); obligations, for every context value c:
      (I) f -> out(c, f) is injective on the accepted set A_c = {f : PC(c, f)}
      (S) every documented outcome o has some f in A_c with out(c, f) = o   (forall over the final bits expanded)
    Hence out is a bijection A_c -> outcomes for every c, and the final bits are uniform and independent of c: every
    outcome has conditional probability 1/|outcomes|.  F = the bits of the output drawn from the j-th draw on, for the
    smallest j that makes (I) hold (chosen with solver queries on this path)."""
    import z3
    from vf.symx import SymInt, Ctx, _b
    from vf.harness import _free_vars
    names = _bitvars(env)
    used = set()
    for o in outs:
        if isinstance(o, SymInt):
            used |= {str(v) for v in _free_vars(o.t)}
    var = {n: env.var(n) for n in names}
    sym_outs = [o for o in outs if isinstance(o, SymInt)]
    ctx = Ctx.cur
    chosen = None
    starts = sorted({d for d in draws}) or [1]        # index (1-based) of the first bit of every random_bits call
    for st in starts:
        F = [n for n in names if n in used and int(n[3:]) >= st]
        Fp = [(var[n], env.fresh(f'{n}f{st}', 0, 2)) for n in F]
        same_out = env.all(env.term_subst(o, Fp) == o for o in sym_outs)
        differ = env.any(b != a for a, b in Fp)
        if not F or ctx.check(_b(env.all([env.pc_subst(Fp), same_out, differ]))) == 'unsat':
            chosen = (F, Fp, same_out)
            break
    if chosen is None:
        env.check('uniform:I injective for some split', False)
        return
    F, Fp, same_out = chosen
    env.observe('final_bits', len(F))
    env.check('uniform:I injective', env.implies(env.all([env.pc_subst(Fp), same_out]), env.all(b == a for a, b in Fp)))
    if len(F) > 10:
        from vf.symx import Unmodelled
        raise Unmodelled('too many final bits for the expansion')
    fv = [var[n] for n in F]
    cases = []
    for bits in itertools.product((0, 1), repeat=len(F)):
        sub = list(zip(fv, bits))
        cases.append((env.pc_subst(sub), [env.term_subst(o, sub) if isinstance(o, SymInt) else o for o in outs]))
    for oc in outcomes:
        env.check(f'uniform:S outcome {oc}', env.any(env.all([pc] + [o == v for o, v in zip(os_, oc)]) for pc, os_ in cases))


def _enumerate(env, k, call, cap):
    """conc mode: all bit patterns (tree of draws) on the real code -> {transcript: {outcome: weight}}."""
    mpc = k.mpc
    dist = {}
    stack = [[]]
    runs = 0
    while stack:
        prefix = stack.pop()
        pos = [0]
        sizes = []

        def random_bits(sftype, n, signed=False):
            sizes.append(n)
            if len(sizes) > cap:
                raise _TooManyDraws()
            issec = isinstance(sftype, type) and issubclass(sftype, mpc.SecureObject)
            field = sftype.field if issec else sftype
            f = getattr(sftype, 'frac_length', 0) if issec else 0
            out = []
            for _ in range(n):
                if pos[0] >= len(prefix):
                    raise _NeedMore()
                b = prefix[pos[0]]
                pos[0] += 1
                out.append(field((2 * b - 1 if signed else b) * (1 << f)))
            if issec:
                out = [sftype(a, True) if f else sftype(a) for a in out]
            from vf.l2 import AwList
            return AwList(out)
        mpc.random_bits = random_bits
        runs += 1
        if runs > 60000:
            raise RuntimeError('enumeration too large')
        try:
            res = call()
        except _NeedMore:
            stack.append(prefix + [0])
            stack.append(prefix + [1])
            continue
        except _TooManyDraws:
            continue
        if pos[0] != len(prefix):
            continue
        tr = tuple(sizes)
        d = dist.setdefault(tr, {})
        d[tuple(res)] = d.get(tuple(res), 0) + 2.0 ** -len(prefix)
    return dist


def _check_enumeration(env, k, call, outcomes, cap):
    dist = _enumerate(env, k, call, cap)
    ok = bool(dist)
    want = set(map(tuple, outcomes))
    detail = []
    for tr, d in dist.items():
        ws = [d.get(o, 0) for o in want]
        if set(d) - want or min(ws) <= 0 or max(ws) - min(ws) > 1e-12:
            ok = False
            detail.append((tr, sorted(d.items())[:8]))
    env.observe('enumeration_transcripts', len(dist))
    env.check('uniform:by_enumeration', ok)
    return detail


def _run(env, k, call, outcomes, cap, uniform=True):
    """common driver: one symbolic / concrete run with shape obligations by the caller, then uniformity."""
    if env.mode == 'sym':
        first = k.n_bits + 1
    outs = call()
    if env.mode == 'sym':
        if uniform:
            _uniform_obligations(env, outs, outcomes, [d for d in k.draw_starts if d >= first])
    elif uniform:
        saved = k.mpc.random_bits
        _check_enumeration(env, k, call, outcomes, cap)
        k.mpc.random_bits = saved
    return outs


def h_fn(env):
    P = env.params
    fn = P['fn']
    cap = P.get('cap', 2)
    ideal = dict(ideal_zero_test=True) if fn in ('derangement', 'sample_range') else {}
    if fn == 'choices_w':
        ideal = dict(ideal_cmp=True)
    k = _kit(env, cap, fork_mod=1 << 4, **ideal)
    mpc = k.mpc
    rnd = k.mods['mpyc.random']
    secint = mpc.SecInt(8)
    sv = lambda x: x if isinstance(x, int) else k.sval(x)   # noqa: E731  (from_bits([]) is the public constant 0)
    env.encoded(rnd._randbelow, rnd.random_unit_vector, rnd.getrandbits, rnd.randrange, rnd.randint, rnd.choice, rnd.choices,
                rnd.shuffle, rnd.random_permutation, rnd.random_derangement, rnd.sample, rnd.random, rnd.uniform)
    in_outcomes = lambda outs, ocs: env.any(env.all(o == v for o, v in zip(outs, oc)) for oc in ocs)   # noqa: E731

    if fn == 'getrandbits':
        kb = P['k']
        ocs = [(v,) for v in range(1 << kb)]
        outs = _run(env, k, lambda: [sv(rnd.getrandbits(secint, kb))], ocs, cap)
        env.check('range', (outs[0] >= 0) & (outs[0] < (1 << kb)))
        bits = rnd.getrandbits(secint, kb, bits=True)
        env.check('bits_shape', len(bits) == kb)
        for i, b in enumerate(bits):
            env.check(f'bit[{i}]', (sv(b) == 0) | (sv(b) == 1))
    elif fn == 'randbelow':
        n = P['n']
        ocs = [(v,) for v in range(n)]
        outs = _run(env, k, lambda: [sv(rnd._randbelow(secint, n))], ocs, cap)
        env.check('range', (outs[0] >= 0) & (outs[0] < n))
    elif fn == 'randbelow_bits':
        n = P['n']
        kb = (n - 1).bit_length()
        ocs = [tuple((v >> i) & 1 for i in range(kb)) for v in range(n)]
        outs = _run(env, k, lambda: [sv(b) for b in rnd._randbelow(secint, n, bits=True)], ocs, cap)
        env.check('shape', len(outs) == kb)
        env.check('range', sum(o * (1 << i) for i, o in enumerate(outs)) < n)
    elif fn == 'randrange':
        a, b, st = P['args']
        r = range(a, b, st)
        ocs = [(v,) for v in r]
        outs = _run(env, k, lambda: [sv(rnd.randrange(secint, a, b, st))], ocs, cap)
        env.check('member', in_outcomes(outs, ocs))
    elif fn == 'randint':
        a, b = P['args']
        ocs = [(v,) for v in range(a, b + 1)]
        outs = _run(env, k, lambda: [sv(rnd.randint(secint, a, b))], ocs, cap)
        env.check('range', (outs[0] >= a) & (outs[0] <= b))
        o2 = sv(rnd.randrange(secint, b - a + 1))
        env.check('randrange1', (o2 >= 0) & (o2 <= b - a))
    elif fn == 'unit_vector':
        n = P['n']
        ocs = [tuple(int(i == j) for i in range(n)) for j in range(n)]
        outs = _run(env, k, lambda: [sv(u) for u in rnd.random_unit_vector(secint, n)], ocs, cap)
        env.check('shape', len(outs) == n)
        for i, o in enumerate(outs):
            env.check(f'entry[{i}]in01', (o == 0) | (o == 1))
        env.check('exactly_one_1', sum(outs) == 1)
    elif fn == 'choice':
        seq = P['seq']
        ocs = [(v,) for v in seq]
        outs = _run(env, k, lambda: [sv(rnd.choice(secint, seq))], ocs, cap)
        env.check('member', in_outcomes(outs, ocs))
        # secret population: result is one of the (symbolic) elements
        xs = [env.fresh(f'x{i}', -8, 8) for i in range(len(seq))]
        o = sv(rnd.choice(secint, [secint(secint.field(x)) for x in xs]))
        env.check('member_secret', env.any(o == x for x in xs))
        ch = rnd.choices(secint, seq, k=2)
        env.check('choices_shape', len(ch) == 2)
        env.check('choices_member', env.all(in_outcomes([sv(c)], ocs) for c in ch))
    elif fn == 'choices_w':
        pop, w = P['pop'], P['weights']
        import math
        cumw = list(itertools.accumulate(w))
        g = math.gcd(*cumw)
        cumw = [c // g for c in cumw]
        tot = cumw[-1]
        # out = population[j] exactly when the uniform r in range(total) falls into bucket j: checked against r's bits
        z = rnd.choices(secint, pop, weights=w, k=1) if P.get('form') != 'cum' else rnd.choices(secint, pop, cum_weights=list(itertools.accumulate(w)), k=1)
        o = sv(z[0])
        names = _bitvars(env) if env.mode == 'sym' else []
        env.check('member', env.any(o == v for v in pop))
        if env.mode == 'sym':
            # r is the number formed by the last ceil(log2 total) bits drawn
            kb = (tot - 1).bit_length()
            fin = [env.var(n) for n in names[-kb:]]
            from vf.symx import no_fork
            with no_fork():
                r = sum(b * (1 << i) for i, b in enumerate(fin))
                cum = cumw
                for j, v in enumerate(pop):
                    lo = cum[j - 1] if j else 0
                    env.check(f'bucket[{j}]', env.implies((r >= lo) & (r < cum[j]), o == v))
    elif fn in ('shuffle', 'permutation'):
        n = P['n']
        ocs = list(itertools.permutations(range(n)))

        def call():
            if fn == 'shuffle':
                x = list(range(n))
                rnd.shuffle(secint, x)
            else:
                x = rnd.random_permutation(secint, n)
            return [sv(a) for a in x]
        outs = _run(env, k, call, ocs, cap)
        env.check('shape', len(outs) == n)
        for v in range(n):
            env.check(f'value {v} exactly once', sum(env.b2i(o == v) for o in outs) == 1)
        if P.get('records'):
            k.rb_calls = 0
            x = [[secint(i), secint(10 + i)] for i in range(n)]
            rnd.shuffle(secint, x)
            for v in range(n):
                env.check(f'record {v} intact', sum(env.b2i(env.all([sv(r[0]) == v, sv(r[1]) == 10 + v])) for r in x) == 1)
    elif fn == 'derangement':
        n = P['n']
        ocs = [p for p in itertools.permutations(range(n)) if all(p[i] != i for i in range(n))]
        outs = _run(env, k, lambda: [sv(a) for a in rnd.random_derangement(secint, n)], ocs, cap)
        for v in range(n):
            env.check(f'value {v} exactly once', sum(env.b2i(o == v) for o in outs) == 1)
        for i in range(n):
            env.check(f'no fixed point at {i}', outs[i] != i)
    elif fn == 'sample':
        pop, kk = P['pop'], P['k']
        ocs = list(itertools.permutations(pop, kk))
        outs = _run(env, k, lambda: [sv(a) for a in rnd.sample(secint, list(pop), kk)], ocs, cap)
        env.check('shape', len(outs) == kk)
        env.check('member', in_outcomes(outs, ocs) if ocs and kk else True)
    elif fn == 'sample_range':
        a, b, st, kk = P['args']
        r = range(a, b, st)
        outs = _run(env, k, lambda: [sv(x) for x in rnd.sample(secint, r, kk)], None, cap, uniform=False)
        env.check('shape', len(outs) == kk)
        for o in outs:
            env.check('member', env.any(o == v for v in r))
        for i in range(kk):
            for j in range(i):
                env.check(f'no repetition {j},{i}', outs[i] != outs[j])
    elif fn in ('random', 'uniform'):
        secfxp = mpc.SecFxp(8, 4)
        if fn == 'random':
            ocs = [(v,) for v in range(16)]
            outs = _run(env, k, lambda: [sv(rnd.random(secfxp))], ocs, cap)
            env.check('range [0,1)', (outs[0] >= 0) & (outs[0] < 16))
        else:
            a, b = P['args']
            lo, hi = sorted((round(a * 16), round(b * 16)))
            n = hi - lo
            ocs = [(v,) for v in (range(lo, hi) if a <= b else range(hi, lo, -1))]
            outs = _run(env, k, lambda: [sv(rnd.uniform(secfxp, a, b))], ocs, cap)
            env.check('within [a,b]', (outs[0] >= lo) & (outs[0] <= hi))
    if env.mode == 'sym' and fn in ('unit_vector', 'randbelow'):
        env.encoded(type(mpc).from_bits, type(mpc).scalar_mul, type(mpc).vector_sub)


def h_errors(env):
    """documented argument errors"""
    k = _kit(env, 2)
    mpc, rnd = k.mpc, k.mods['mpyc.random']
    secint = mpc.SecInt(8)
    for label, f, exc in (('randrange_empty', lambda: rnd.randrange(secint, 3, 3), ValueError), ('choice_empty', lambda: rnd.choice(secint, []), IndexError),
                          ('random_needs_fxp', lambda: rnd.random(secint), TypeError), ('uniform_needs_fxp', lambda: rnd.uniform(secint, 0, 1), TypeError),
                          ('choices_both', lambda: rnd.choices(secint, [1, 2], weights=[1, 1], cum_weights=[1, 2]), TypeError),
                          ('choices_len', lambda: rnd.choices(secint, [1, 2], weights=[1]), ValueError)):
        try:
            f()
            env.check(label, False)
        except exc:
            env.check(label, True)
    b = env.fresh('bit_marker', 0, 2)
    env.check('marker', (b == 0) | (b == 1))


# ------------------------------------------------------------------ random_bits itself (real code, small prime fields)

def _public_sqrt(env, ff):
    """The argument of field._sqrt inside random_bits is an opened (public) value: fork on it, then run the real _sqrt."""
    from vf.symx import SymInt
    orig = ff.PrimeFieldElement._sqrt.__func__

    def _sqrt(cls, a, INV=False):
        if isinstance(a, SymInt):
            a = a.__index__()
        return orig(cls, a, INV)
    ff.PrimeFieldElement._sqrt = classmethod(_sqrt)


def _cap_uci(env, mpc, cap):
    orig = mpc._prss_uci
    cnt = [0]

    def _prss_uci():
        cnt[0] += 1
        if cnt[0] > cap:
            env.cut('restart of the r^2 != 0 loop in random_bits (probability about n/p per round)')
        return orig()
    mpc._prss_uci = _prss_uci


def h_random_bits_m1(env):
    """real Runtime.random_bits at m=1 over GF(p): r from the PRF stub (symbolic), r^2 opened, bit = (r * sqrt(r^2)^-1 + 1)/2."""
    P = env.params
    p, signed = P['p'], P['signed']
    from vf import l2
    k = l2.L2(env, ideal_bits=False)
    mpc = k.mpc
    env.encoded(type(mpc).random_bits, type(mpc)._randoms)
    secfld = mpc.SecFld(p)
    _public_sqrt(env, k.mods['mpyc.finfields'])
    _cap_uci(env, mpc, 4)
    n = P['n']
    bits = mpc.random_bits(secfld, n, signed=signed)
    env.check('shape', len(bits) == n)
    vals = [kit_fval(b) for b in bits]
    for i, v in enumerate(vals):
        if signed:
            env.check(f'bit[{i}] in +-1', (v == 1) | (v == p - 1))
        else:
            env.check(f'bit[{i}] in 01', (v == 0) | (v == 1))
    # uniformity: r -> p - r flips every bit (same opened square, hence same public transcript)
    if env.mode == 'sym':
        fin = sorted(n_ for n_ in env.declared if n_.startswith('prf_'))       # every draw negated: same squares, same transcript
        pairs = [(env.var(n_), env.fresh(n_ + 'neg', 0, p)) for n_ in fin]
        neg = env.all(((a + b) % p) == 0 for a, b in pairs)
        for i, v in enumerate(vals):
            w = env.term_subst(v, pairs)
            flipped = ((v + w) % p == 0) if signed else (v + w == 1)
            env.check(f'flip[{i}]', env.implies(env.all([neg, env.pc_subst(pairs)]), flipped))
        env.check('flip:path_invariant', env.implies(neg, env.pc_subst(pairs)))


def kit_fval(x):
    from vf import kit
    return kit.fval(x)


def h_random_bits_m3(env):
    """real random_bits with 3 parties (PRSS on/off): every party's shares form one degree-t sharing of a value in {0,1}."""
    from vf import l1, simnet, kit
    from vf.algebra import interp
    P = env.params
    m, t, p, prss = P['m'], P['t'], P['p'], P['prss']
    args = [] if prss else ['--no-prss']
    sim = simnet.Sim(env, m, t, args)
    n = 2
    for party in sim.parties:
        _public_sqrt(env, party.finfields)
        _cap_uci(env, party.mpc, 2)

    async def prog(party):
        mpc = party.mpc
        secfld = mpc.SecFld(p)
        bits = mpc.random_bits(secfld, n, signed=P['signed'])
        sh = await mpc.gather(bits)
        out = await mpc.output(bits, raw=True)
        return dict(shares=[s.value for s in sh], out=[o.value for o in out])
    sim.start(prog)
    res = l1.guarded_run(env, sim)
    R = type(sim.parties[0].mpc)
    env.encoded(R.random_bits, R._randoms, R.output)
    if res is None:
        return
    xs = list(range(1, m + 1))
    for i in range(n):
        ys = [res[pid]['shares'][i] for pid in range(m)]
        for j in range(t + 1, m):
            env.eq_mod(f'bit[{i}]:degree<=t@{j}', interp(xs[:t + 1], ys[:t + 1], xs[j], p), ys[j], p)
        sec = interp(xs[:t + 1], ys[:t + 1], 0, p) % p
        if P['signed']:
            env.check(f'bit[{i}]:secret in +-1', (sec == 1) | (sec == p - 1))
        else:
            env.check(f'bit[{i}]:secret in 01', (sec == 0) | (sec == 1))
        for pid in range(m):
            o = res[pid]['out'][i]
            env.check(f'bit[{i}]:output@{pid}', (o % p) == sec)


def h_twin(env):
    """twin: claims _randbelow(3) also produces 3: must come back violated (unreachable outcome, confirmed by enumeration)."""
    k = _kit(env, 2, fork_mod=1 << 4)
    rnd = k.mods['mpyc.random']
    secint = k.mpc.SecInt(8)
    _run(env, k, lambda: [k.sval(rnd._randbelow(secint, 3))], [(0,), (1,), (2,), (3,)], 2)


def instances(tier):
    q = tier == 'quick'
    cap = 2 if q else 3
    out = []
    T = dict(timeout=1500, max_paths=20000)
    for kb in (0, 1, 3, 4):
        out.append(Inst(f'getrandbits[k={kb}]', h_fn, dict(fn='getrandbits', k=kb, cap=4), **T))
    for n in (range(1, 9) if q else range(1, 14)):
        out.append(Inst(f'_randbelow[n={n}]', h_fn, dict(fn='randbelow', n=n, cap=cap), **T))
    for n in ((3, 6) if q else (3, 5, 6, 7, 11)):
        out.append(Inst(f'_randbelow[bits,n={n}]', h_fn, dict(fn='randbelow_bits', n=n, cap=cap), **T))
    for args in ((0, 5, 1), (2, 11, 3), (5, -4, -2)):
        out.append(Inst(f'randrange{args}', h_fn, dict(fn='randrange', args=args, cap=cap), **T))
    for args in ((1, 6), (-3, 1)):
        out.append(Inst(f'randint{args}', h_fn, dict(fn='randint', args=args, cap=cap + 1), **T))
    for n in (range(1, 7) if q else range(1, 10)):
        out.append(Inst(f'random_unit_vector[n={n}]', h_fn, dict(fn='unit_vector', n=n, cap=cap), **T))
    for seq in ([7], [3, -1, 4], [1, 5, 9, 2, 6]):
        out.append(Inst(f'choice{seq}', h_fn, dict(fn='choice', seq=seq, cap=cap + 4), **T))
    out.append(Inst('choices[weights 1,2,1]', h_fn, dict(fn='choices_w', pop=[5, 6, 7], weights=[1, 2, 1], cap=cap), **T))
    out.append(Inst('choices[cum_weights 2,4,6]', h_fn, dict(fn='choices_w', pop=[5, 6, 7], weights=[2, 2, 2], form='cum', cap=cap), **T))
    for n in ((2, 3, 4) if q else (2, 3, 4, 5)):
        out.append(Inst(f'shuffle[n={n}]', h_fn, dict(fn='shuffle', n=n, cap=n + cap - 2, records=(n == 3)), **T))
    out.append(Inst('random_permutation[n=3]', h_fn, dict(fn='permutation', n=3, cap=cap + 1), **T))
    for n in (2, 3, 4):
        out.append(Inst(f'random_derangement[n={n}]', h_fn, dict(fn='derangement', n=n, cap=(n - 1) * (2 if n < 4 or not q else 1) + (1 if n == 3 else 0)), **T))
    for pop, kk in (([4, 7, 9], 2), ([4, 7, 9, 1], 4), ([4, 7], 0)):
        out.append(Inst(f'sample[{pop},k={kk}]', h_fn, dict(fn='sample', pop=pop, k=kk, cap=kk + cap - 1), **T))
    out.append(Inst('sample[range(2,10,2),k=2]', h_fn, dict(fn='sample_range', args=(2, 10, 2, 2), cap=3), **T))
    out.append(Inst('random[secfxp8:4]', h_fn, dict(fn='random', cap=2), **T))
    for args in ((0.5, 1.25), (1.0, -0.5)):
        out.append(Inst(f'uniform{args}', h_fn, dict(fn='uniform', args=args, cap=cap), **T))
    out.append(Inst('argument_errors', h_errors, {}, timeout=600))
    for p in ((7, 11, 19, 23) if q else (7, 11, 19, 23, 31, 43)):
        for signed in (False, True):
            out.append(Inst(f'random_bits[m=1,p={p},signed={int(signed)}]', h_random_bits_m1, dict(p=p, signed=signed, n=2 if p < 12 else 1), **T))
    for prss in (True, False):
        for signed in (False, True):
            out.append(Inst(f'random_bits[m=3,t=1,p=7,prss={int(prss)},signed={int(signed)}]', h_random_bits_m3,
                            dict(m=3, t=1, p=7, prss=prss, signed=signed), timeout=1500, max_paths=20000))
    out.append(Inst('twin_outcome_3', h_twin, {}, twin=True, expect='violated'))
    return out
