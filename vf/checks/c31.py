"""C31 secure lists behave like Python lists: one operation from an arbitrary list state (symbolic items, symbolic
secret index given as unit vector / secure number / secindex), result compared with the same operation on a Python
list of the symbolic terms.  Histories of any length follow by induction over the list state."""
from vf.runner import Inst

PROPERTY = 'C31'
LEVEL = 'model_checking'
BOUNDS = {'quick': dict(length='n<=4 (comparisons: lengths 0..3 x 0..3)', items='secint(8) values in [-16,16)',
                        index_kinds='one-hot vector of secure bits (arbitrary bits with sum 1), secure number through the real unit_vector/to_bits, secindex with offset',
                        ops='get, set, del, insert, pop, append, extend, +, +=, *, copy, slices, remove, count, contains, find, index, sort, < <= == != >= >'),
          'thorough': dict(length='n<=6 (comparisons 0..4 x 0..4)', items='as quick, plus secfxp(8,4) items for get/set/del/insert')}
OUTSIDE = ['lists longer than the bound', 'key functions for sort beyond identity (C29)', 'random_index']
ASSUMPTIONS = ['comparison / equality of secure numbers exact (C01 contract; the replays run the real protocols)', 'random_bits ideal (C33)',
               'a secret index is a valid index for the operation (documented precondition 0 <= i < len, <= len for insert)']
LEVEL_TEXT = ('Bounded symbolic model checking, one inductive step per operation: the list state is arbitrary (every item a solver variable), the secret index '
              'is an arbitrary valid index; the real seclist code runs on them and z3 decides that every resulting item / result equals the Python-list '
              'semantics expressed as ite-terms over the same variables. Public structure (lengths) is enumerated up to the bound.')
LEVEL_NOTE = 'Trusted: z3, shadow-int engine, ideal comparison contract in the symbolic run.'


def _setup(env, fxp=False):
    from vf import l2
    k = l2.L2(env, ideal_cmp=True, ideal_zero_test=True, fork_mod=0 if fxp else 1 << 4)
    mpc = k.mpc
    sl = k.mods['mpyc.seclists']
    st = mpc.SecFxp(8, 4) if fxp else mpc.SecInt(8)
    return k, mpc, sl, st


def _items(env, st, n, name='x', fxp=False):
    vs = [env.fresh(f'{name}{i}', -16, 16) for i in range(n)]
    if fxp:
        return vs, [st(st.field(v), False) for v in vs]
    return vs, [st(st.field(v)) for v in vs]


def _index(env, k, mpc, sl, st, n, kind, fxp=False):
    """a symbolic valid index in range(n) in the requested representation; returns (idx term, key object)."""
    sc = 16 if fxp else 1
    if kind == 'unit':
        bs = [env.fresh(f'u{j}', 0, 2) for j in range(n)]
        env.assume(sum(bs) == 1, note='secret index given as a unit vector: entries are bits with sum 1')
        idx = sum(j * b for j, b in enumerate(bs))
        key = [st(st.field(b * sc), True) if fxp else st(st.field(b)) for b in bs]
        return idx, key
    if kind == 'secindex':
        off = 1 if n > 2 else 0
        bs = [env.fresh(f'u{j}', 0, 2) for j in range(n - off)]
        env.assume(sum(bs) == 1, note='secret index given as a unit vector: entries are bits with sum 1')
        idx = off + sum(j * b for j, b in enumerate(bs))
        key = sl.secindex([st(st.field(b)) for b in bs], offset=off)
        return idx, key
    idx = env.fresh('idx', 0, n)
    return idx, (st(st.field(idx * sc), True) if fxp else st(st.field(idx)))


def _pick(env, idx, xs):
    r = xs[-1]
    for j in range(len(xs) - 2, -1, -1):
        r = env.ite(idx == j, xs[j], r)
    return r


def _sv(k, x):
    return x if isinstance(x, int) else k.sval(x)      # sum([]) / all([]) of an empty secure list are the public constants 0 / 1


def _eq_list(env, k, label, got, want):
    env.check(f'{label}:len', len(got) == len(want))
    for j, (g, w) in enumerate(zip(got, want)):
        env.eq(f'{label}[{j}]', k.sval(g), w)


def h_secret_index(env):
    P = env.params
    n, op, kind, fxp = P['n'], P['op'], P['kind'], P.get('fxp', False)
    k, mpc, sl, st = _setup(env, fxp)
    env.encoded(sl.seclist.__getitem__, sl.seclist.__setitem__, sl.seclist.__delitem__, sl.seclist.insert, sl.seclist.pop, type(mpc).unit_vector)
    vs, items = _items(env, st, n, fxp=fxp)
    x = sl.seclist(items, st)
    nn = n + 1 if op == 'insert' else n
    idx, key = _index(env, k, mpc, sl, st, nn, kind, fxp)
    v = env.fresh('v', -16, 16)
    val = st(st.field(v), False) if fxp else st(st.field(v))
    if op == 'get':
        env.eq('get', k.sval(x[key]), _pick(env, idx, vs))
        _eq_list(env, k, 'unchanged', list(x), vs)
    elif op == 'set':
        x[key] = val
        _eq_list(env, k, 'set', list(x), [env.ite(idx == j, v, vs[j]) for j in range(n)])
    elif op == 'set_public_value':
        x[key] = 5
        _eq_list(env, k, 'set', list(x), [env.ite(idx == j, 5 * (16 if fxp else 1), vs[j]) for j in range(n)])
    elif op == 'del':
        del x[key]
        _eq_list(env, k, 'del', list(x), [env.ite(idx > j, vs[j], vs[j + 1]) for j in range(n - 1)])
    elif op == 'pop':
        r = x.pop(key)
        env.eq('pop:value', k.sval(r), _pick(env, idx, vs))
        _eq_list(env, k, 'pop', list(x), [env.ite(idx > j, vs[j], vs[j + 1]) for j in range(n - 1)])
    elif op == 'insert':
        x.insert(key, val)
        want = []
        for j in range(n + 1):
            before = vs[j] if j < n else v
            after = vs[j - 1] if j > 0 else v
            want.append(env.ite(idx > j, before, env.ite(idx == j, v, after)))
        _eq_list(env, k, 'insert', list(x), want)
    elif op == 'augmented':
        x[key] += 1          # the frequency-count idiom of the module docstring
        _eq_list(env, k, 'augmented', list(x), [vs[j] + env.ite(idx == j, 16 if fxp else 1, 0) for j in range(n)])


def h_public(env):
    """public keys / structure: same behaviour as list (values compared as terms)."""
    P = env.params
    n = P['n']
    k, mpc, sl, st = _setup(env)
    env.encoded(sl.seclist.__init__, sl.seclist.append, sl.seclist.extend, sl.seclist.__add__, sl.seclist.__radd__, sl.seclist.__iadd__,
                sl.seclist.__mul__, sl.seclist.__rmul__, sl.seclist.__imul__, sl.seclist.copy)
    vs, items = _items(env, st, n)
    ws, items2 = _items(env, st, 2, 'y')
    x = sl.seclist(items, st)
    ref = list(vs)
    sv = k.sval

    def same(label, a, b):
        _eq_list(env, k, label, list(a), list(b))
    same('init', x, ref)
    y = sl.seclist([3, items2[0], 4], st)          # public items are converted
    same('init_mixed', y, [3, ws[0], 4])
    x.append(items2[0]); ref.append(ws[0])
    x.append(7); ref.append(7)
    same('append', x, ref)
    x.extend([items2[1], 2]); ref.extend([ws[1], 2])
    same('extend', x, ref)
    same('add', x + [1, items2[0]], ref + [1, ws[0]])
    same('radd', [1] + x, [1] + ref)
    same('mul', x * 2, ref * 2)
    same('rmul', 2 * x, 2 * ref)
    z = x.copy()
    z += [9]
    same('iadd', z, ref + [9])
    same('copy_independent', x, ref)
    z = x.copy()
    z *= 2
    same('imul', z, ref * 2)
    if n:
        env.eq('getitem_public', sv(x[0]), ref[0])
        env.eq('getitem_negative', sv(x[-1]), ref[-1])
        same('slice', x[1:3], ref[1:3])
        same('slice_step', x[::2], ref[::2])
        x[0] = items2[1]; ref[0] = ws[1]
        same('setitem_public', x, ref)
        x[1:2] = [items2[0], 6]; ref[1:2] = [ws[0], 6]
        same('setslice', x, ref)
        del x[0]; del ref[0]
        same('delitem_public', x, ref)
        x.insert(1, 8); ref.insert(1, 8)
        same('insert_public', x, ref)
        r = x.pop(); rr = ref.pop()
        env.eq('pop_default', sv(r) if hasattr(r, 'share') else r, rr)
        r = x.pop(0); rr = ref.pop(0)
        env.eq('pop_public', sv(r), rr)
        same('after_pops', x, ref)
        del x[0:2]; del ref[0:2]
        same('delslice', x, ref)
    env.check('sectype', x.sectype is st and (x * 2).sectype is st and x[0:1].sectype is st)
    for label, f, exc in (('inconsistent_sectypes', lambda: sl.seclist([mpc.SecInt(16)(1)], st), TypeError),
                          ('sectype_missing', lambda: sl.seclist([1, 2]), ValueError),
                          ('index_length', lambda: x[[st(1)] * (len(x) + 1)], IndexError),
                          ('contains_operator', lambda: 1 in x, NotImplementedError)):
        try:
            f()
            env.check(label, False)
        except exc:
            env.check(label, True)


def h_search(env):
    P = env.params
    n, op = P['n'], P['op']
    k, mpc, sl, st = _setup(env)
    env.encoded(sl.seclist.count, sl.seclist.contains, sl.seclist.find, sl.seclist.index, sl.seclist.remove, type(mpc).find, type(mpc).indexOf)
    vs = [env.fresh(f'x{i}', -2, 3) for i in range(n)]       # small value range: collisions are the interesting case
    x = sl.seclist([st(st.field(v)) for v in vs], st)
    v = env.fresh('v', -2, 3)
    val = st(st.field(v))
    sv = lambda a: _sv(k, a)   # noqa: E731
    first = -1
    for j in range(n - 1, -1, -1):
        first = env.ite(vs[j] == v, j, first)
    cnt = sum(env.b2i(a == v) for a in vs) if n else 0
    if op == 'count':
        env.eq('count', sv(x.count(val)), cnt)
        env.eq('count_public_value', sv(x.count(1)), sum(env.b2i(a == 1) for a in vs) if n else 0)
        env.eq('contains', sv(x.contains(val)), env.b2i(cnt != 0))
    elif op == 'find':
        env.eq('find', sv(x.find(val)), first)
    elif op == 'index':
        if n:
            env.assume(cnt != 0, note='index(): value present (ValueError otherwise, checked separately)')
            env.eq('index', sv(x.index(val)), first)
        else:
            try:
                x.index(val)
                env.check('index_empty_raises', False)
            except ValueError:
                env.check('index_empty_raises', True)
    elif op == 'index_absent':
        env.assume(cnt == 0)
        try:
            x.index(val)
            env.check('index_absent_raises', False)
        except ValueError:
            env.check('index_absent_raises', True)
    elif op == 'remove':
        env.assume(cnt != 0, note='remove(): value present')
        x.remove(val)
        _eq_list(env, k, 'remove', list(x), [env.ite(first > j, vs[j], vs[j + 1]) for j in range(n - 1)])
    elif op == 'remove_absent':
        env.assume(cnt == 0)
        try:
            x.remove(val)
            env.check('remove_absent_raises', False)
        except ValueError:
            env.check('remove_absent_raises', True)
        _eq_list(env, k, 'unchanged', list(x), vs)


def h_sort(env):
    P = env.params
    n, rev = P['n'], P['reverse']
    k, mpc, sl, st = _setup(env)
    env.encoded(sl.seclist.sort, type(mpc)._sort)
    vs, items = _items(env, st, n)
    x = sl.seclist(items, st)
    r = x.sort(reverse=rev)
    env.check('returns_none', r is None)
    ys = [k.sval(a) for a in x]
    env.check('len', len(ys) == n)
    for i in range(n - 1):
        env.check(f'order[{i}]', ys[i] >= ys[i + 1] if rev else ys[i] <= ys[i + 1])
    for i in range(n):
        env.check(f'multiset[{i}]', sum(env.b2i(y == vs[i]) for y in ys) == sum(env.b2i(w == vs[i]) for w in vs))


def _lex_lt(env, a, b):
    """Python's list comparison a < b on term lists."""
    if not a:
        return bool(b)
    if not b:
        return False
    rest = _lex_lt(env, a[1:], b[1:])
    return env.ite(a[0] < b[0], 1, env.ite(a[0] == b[0], env.b2i(rest) if not isinstance(rest, bool) else int(rest), 0)) == 1


def h_compare(env):
    P = env.params
    n1, n2 = P['n1'], P['n2']
    k, mpc, sl, st = _setup(env)
    env.encoded(sl.seclist._norm, sl.seclist._less_than, sl.seclist.__lt__, sl.seclist.__le__, sl.seclist.__eq__, sl.seclist.__ge__,
                sl.seclist.__gt__, sl.seclist.__ne__)
    a = [env.fresh(f'a{i}', -2, 3) for i in range(n1)]
    b = [env.fresh(f'b{i}', -2, 3) for i in range(n2)]
    x = sl.seclist([st(st.field(v)) for v in a], st)
    y = sl.seclist([st(st.field(v)) for v in b], st)
    sv = lambda a: _sv(k, a)   # noqa: E731
    lt = _lex_lt(env, a, b)
    gt = _lex_lt(env, b, a)
    eq = env.all(u == v for u, v in zip(a, b)) if n1 == n2 else False
    b2i = lambda c: int(c) if isinstance(c, bool) else env.b2i(c)   # noqa: E731
    env.eq('lt', sv(x < y), b2i(lt))
    env.eq('gt', sv(x > y), b2i(gt))
    env.eq('le', sv(x <= y), 1 - b2i(gt))
    env.eq('ge', sv(x >= y), 1 - b2i(lt))
    env.eq('eq', sv(x == y), b2i(eq))
    env.eq('ne', sv(x != y), 1 - b2i(eq))
    if n1 + n2 == 0:
        m = env.fresh('marker', 0, 2)
        env.check('marker', m >= 0)


def h_twin(env):
    """twin: claims del x[i] keeps the item at i: must come back violated."""
    k, mpc, sl, st = _setup(env)
    vs, items = _items(env, st, 3)
    x = sl.seclist(items, st)
    idx, key = _index(env, k, mpc, sl, st, 3, 'unit')
    del x[key]
    env.eq('del_keeps', k.sval(x[0]), vs[0])


def instances(tier):
    q = tier == 'quick'
    out = []
    T = dict(timeout=1500, max_paths=20000)
    ns = [1, 2, 3, 4] if q else [1, 2, 3, 4, 5, 6]
    for n in ns:
        for op in ('get', 'set', 'set_public_value', 'del', 'pop', 'insert', 'augmented'):
            for kind in ('unit', 'number', 'secindex'):
                if kind == 'number' and n > (4 if q else 5):
                    continue
                if kind == 'secindex' and (op in ('set_public_value', 'augmented') or n < 2):
                    continue
                out.append(Inst(f'{op}[n={n},{kind}]', h_secret_index, dict(n=n, op=op, kind=kind), **T))
    if not q:
        for n in (2, 3):
            for op in ('get', 'set', 'del', 'insert', 'augmented'):
                out.append(Inst(f'{op}[n={n},unit,secfxp8:4]', h_secret_index, dict(n=n, op=op, kind='unit', fxp=True), **T))
    for op in ('get', 'set'):
        out.append(Inst(f'{op}[n=3,unit,secfxp8:4]', h_secret_index, dict(n=3, op=op, kind='unit', fxp=True), **T)) if q else None
    for n in ((0, 3) if q else (0, 1, 3, 4)):
        out.append(Inst(f'public_ops[n={n}]', h_public, dict(n=n), **T))
    for n in ((0, 1, 3) if q else (0, 1, 2, 3, 4)):
        for op in ('count', 'find', 'index', 'index_absent', 'remove', 'remove_absent'):
            if n == 0 and op in ('remove', 'index_absent'):
                continue
            out.append(Inst(f'{op}[n={n}]', h_search, dict(n=n, op=op), **T))
    for n in ((0, 1, 2, 3) if q else (0, 1, 2, 3, 4)):
        out.append(Inst(f'sort[n={n}]', h_sort, dict(n=n, reverse=False), **T))
    out.append(Inst('sort[n=3,reverse]', h_sort, dict(n=3, reverse=True), **T))
    mx = 3 if q else 4
    for n1 in range(mx + 1):
        for n2 in range(mx + 1):
            out.append(Inst(f'compare[{n1},{n2}]', h_compare, dict(n1=n1, n2=n2), **T))
    out.append(Inst('twin_del_keeps', h_twin, {}, twin=True, expect='violated'))
    return out
