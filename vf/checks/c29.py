"""C29 secure sorting and selection (real sorted/_sort/min/max/min_max/argmin/argmax: the comparator network on
symbolic keys with the ideal compare-exchange; real if_else/if_swap gadgets with field arithmetic)."""
from vf.runner import Inst

PROPERTY = 'C29'
LEVEL = 'model_checking'
BOUNDS = {'quick': dict(network='integer keys n<=6 (sorted, reverse, records with key function), 0/1 keys n<=12; min/max/min_max/argmin/argmax n<=7',
                        gadgets='if_else/if_swap scalar and list forms, secint(8) and secfxp(8,4), m=1; real-arithmetic selection with ideal comparisons n<=3; '
                                'if_swap(a<b,b,a) with the real comparison l=3; m=3 (t=1) select program PRSS on/off'),
          'thorough': dict(network='integer keys n<=8, 0/1 keys n<=20, min/max family n<=12', gadgets='as quick, real-arithmetic selection n<=4')}
OUTSIDE = ['list lengths beyond the bounds (the 0/1 runs extend sorted() to all integer inputs of that length by the 0-1 principle: the comparator '
           'sequence is data independent)', 'np_sort (C37)', 'stability (not promised)']
ASSUMPTIONS = ['network level: key comparison a<b / a>=b exact (C01 comparison harnesses) and if_swap/if_else ideal (discharged at gadget level here and in C01/C11 L1 runs)']
LEVEL_TEXT = ('Bounded symbolic model checking: the real sorted/_sort/min/max/min_max/_argmin/_argmax code is executed on symbolic keys; the output '
              'terms are ite-networks over the keys and z3 decides "sorted and a permutation", "extreme and a member", "index of the first extreme" for '
              'all key values at once. The gadgets the network relies on are checked separately on the real field arithmetic.')
LEVEL_NOTE = 'Trusted: z3, shadow-int engine. The two layers are connected by the stated contract of if_swap/if_else and of <.'


class Cmp:
    def __init__(s, c):
        s.c = c


def _mk_elem(env):
    class Elem:
        """key/value carrier for the network level: comparisons return tokens, + int for argmin's index arithmetic."""

        def __init__(s, v=0):
            s.v = v

        def __lt__(s, o):
            return Cmp(s.v < o.v)

        def __ge__(s, o):
            return Cmp(s.v >= o.v)

        def __add__(s, o):
            return Elem(s.v + (o.v if isinstance(o, Elem) else o))
        __radd__ = __add__
        __iadd__ = __add__
    return Elem


def _ideal_gadgets(env, mpc, count):
    def sel(c, a, b):
        if isinstance(a, list):
            return [sel(c, u, v) for u, v in zip(a, b)]
        return type(a)(env.ite(c.c, a.v, b.v))

    def if_swap(c, x, y):
        count[0] += 1
        return [sel(c, y, x), sel(c, x, y)]

    def if_else(c, x, y):
        count[0] += 1
        return sel(c, x, y)
    mpc.if_swap = if_swap
    mpc.if_else = if_else
    env.stubs.add('Runtime.if_swap/if_else -> ideal compare-exchange / selection on terms (network level; real gadgets checked separately)')
    env.stubs.add('secure < and >= -> exact comparison token (contract of C01)')


def _setup(env, l=8):
    from vf import l2
    k = l2.L2(env, fork_mod=1 << 4)
    return k, k.mpc


def _keys(env, n, kind, l=8):
    if kind == 'bits':
        return [env.fresh(f'x{i}', 0, 2) for i in range(n)]
    h = 1 << (l - 1)
    return [env.fresh(f'x{i}', -h, h) for i in range(n)]


def _wrap(env, k, mpc, xs, l=8):
    """network level: Elem carriers (sym) / real secure integers (replay on the unshimmed code)."""
    if env.mode == 'sym':
        Elem = _mk_elem(env)
        return [Elem(x) for x in xs], (lambda e: e.v)
    secint = mpc.SecInt(l)
    return [secint(x) for x in xs], (lambda e: k.sval(e))


def _count(env, ys, x):
    return sum(env.b2i(y == x) for y in ys)


def h_sorted(env):
    P = env.params
    n, kind, variant = P['n'], P['kind'], P['variant']
    k, mpc = _setup(env)
    R = type(mpc)
    env.encoded(R.sorted, R._sort)
    cnt = [0]
    if env.mode == 'sym':
        _ideal_gadgets(env, mpc, cnt)
    xs = _keys(env, n, kind)
    ins, val = _wrap(env, k, mpc, xs)
    if variant == 'records':
        vs = [env.fresh(f'v{i}', 0, 4) for i in range(n)]
        pay, _ = _wrap(env, k, mpc, vs)
        recs = [[a, b] for a, b in zip(ins, pay)]
        out = mpc.sorted(recs, key=lambda r: r[0])
        ks = [val(r[0]) for r in out]
        ps = [val(r[1]) for r in out]
        for i in range(n - 1):
            env.check(f'ascending[{i}]', ks[i] <= ks[i + 1])
        for i in range(n):
            have = sum(env.b2i(env.all([ks[j] == xs[i], ps[j] == vs[i]])) for j in range(n))
            want = sum(env.b2i(env.all([xs[j] == xs[i], vs[j] == vs[i]])) for j in range(n))
            env.check(f'record_multiset[{i}]', have == want)
        return
    rev = variant == 'reverse'
    out = mpc.sorted(ins, reverse=True) if rev else mpc.sorted(ins)
    env.check('len', len(out) == n)
    ys = [val(e) for e in out]
    for i in range(n - 1):
        env.check(f'order[{i}]', ys[i] >= ys[i + 1] if rev else ys[i] <= ys[i + 1])
    if kind == 'bits':
        env.check('same_number_of_ones', sum(ys) == sum(xs))
        for i in range(n):
            env.check(f'bit[{i}]', (ys[i] == 0) | (ys[i] == 1))
    else:
        for i in range(n):
            env.check(f'multiset[{i}]', _count(env, ys, xs[i]) == _count(env, xs, xs[i]))


def h_minmax(env):
    P = env.params
    n, what = P['n'], P['what']
    k, mpc = _setup(env)
    R = type(mpc)
    env.encoded(R.min, R.max, R.min_max, R.argmin, R.argmax, R._argmin, R._argmax)
    cnt = [0]
    if env.mode == 'sym':
        _ideal_gadgets(env, mpc, cnt)
    xs = _keys(env, n, 'int')
    ins, val = _wrap(env, k, mpc, xs)

    def is_min(v, label):
        env.check(f'{label}:lower_bound', env.all(v <= x for x in xs))
        env.check(f'{label}:member', env.any(v == x for x in xs))

    def is_max(v, label):
        env.check(f'{label}:upper_bound', env.all(v >= x for x in xs))
        env.check(f'{label}:member', env.any(v == x for x in xs))

    def first_index(pred):
        ix = n - 1
        for i in range(n - 2, -1, -1):
            ix = env.ite(pred(i), i, ix)
        return ix
    if what == 'min':
        is_min(val(mpc.min(ins)), 'min')
        is_min(val(mpc.min(*ins)) if n > 1 else val(mpc.min(ins)), 'min*')
    elif what == 'max':
        is_max(val(mpc.max(ins)), 'max')
        is_max(val(mpc.max(iter(ins))), 'max(iter)')
    elif what == 'min_max':
        lo, hi = mpc.min_max(ins)
        is_min(val(lo), 'min_max.min')
        is_max(val(hi), 'min_max.max')
        if env.mode == 'sym':
            env.check('comparisons<=(3n-3)//2+selects', cnt[0] <= 3 * n)
    elif what == 'argmin':
        i, v = mpc.argmin(ins)
        v = val(v)
        is_min(v, 'argmin.value')
        env.eq('argmin.index', val(i), first_index(lambda j: env.all(xs[j] <= x for x in xs)))
    elif what == 'argmax':
        i, v = mpc.argmax(ins)
        v = val(v)
        is_max(v, 'argmax.value')
        env.eq('argmax.index', val(i), first_index(lambda j: env.all(xs[j] >= x for x in xs)))
    elif what == 'records':
        vs = [env.fresh(f'v{i}', 0, 4) for i in range(n)]
        pay, _ = _wrap(env, k, mpc, vs)
        recs = [[a, b] for a, b in zip(ins, pay)]
        lo = mpc.min(recs, key=lambda r: r[0])
        hi = mpc.max(recs, key=lambda r: r[0])
        i, m = mpc.argmin(recs, key=lambda r: r[0])
        is_min(val(lo[0]), 'min(key)')
        is_max(val(hi[0]), 'max(key)')
        env.check('min(key):record', env.any(env.all([val(lo[0]) == xs[j], val(lo[1]) == vs[j]]) for j in range(n)))
        env.check('max(key):record', env.any(env.all([val(hi[0]) == xs[j], val(hi[1]) == vs[j]]) for j in range(n)))
        ix = first_index(lambda j: env.all(xs[j] <= x for x in xs))
        env.eq('argmin(key).index', val(i), ix)
        env.check('argmin(key).record', env.all(env.implies(ix == j, env.all([val(m[0]) == xs[j], val(m[1]) == vs[j]])) for j in range(n)))


# ------------------------------------------------------------------ gadget level: real field arithmetic

def h_gadget(env):
    P = env.params
    what = P['what']
    from vf import l2
    k = l2.L2(env, fork_mod=1 << 4)
    mpc = k.mpc
    R = type(mpc)
    env.encoded(R.if_else, R.if_swap, R._if_else_list, R._if_swap_list)
    fxp = P.get('fxp', False)
    if fxp:
        st = mpc.SecFxp(8, 4)
        sc = 16
    else:
        st = mpc.SecInt(8)
        sc = 1
    F = st.field
    p = F.modulus

    def mk(name):
        v = env.fresh(name, -128, 128)
        return v, (st(F(v), False) if fxp else st(F(v)))
    cb = env.fresh('c', 0, 2)
    c = st(F(cb * sc), True) if fxp else st(F(cb))
    x0v, x0 = mk('x0')
    y0v, y0 = mk('y0')
    x1v, x1 = mk('x1')
    y1v, y1 = mk('y1')
    sv = k.sval
    if what == 'if_else':
        env.eq('if_else', sv(mpc.if_else(c, x0, y0)), env.ite(cb == 1, x0v, y0v))
        env.check('if_else_same_object', mpc.if_else(c, x0, x0) is x0)
    elif what == 'if_swap':
        u, v = mpc.if_swap(c, x0, y0)
        env.eq('if_swap[0]', sv(u), env.ite(cb == 1, y0v, x0v))
        env.eq('if_swap[1]', sv(v), env.ite(cb == 1, x0v, y0v))
    elif what == 'if_else_list':
        z = mpc.if_else(c, [x0, x1], [y0, y1])
        env.eq('if_else_list[0]', sv(z[0]), env.ite(cb == 1, x0v, y0v))
        env.eq('if_else_list[1]', sv(z[1]), env.ite(cb == 1, x1v, y1v))
        # the condition is unchanged afterwards (it is reused by callers)
        env.eq('condition_unchanged', sv(c), cb * sc)
    elif what == 'if_swap_list':
        u, v = mpc.if_swap(c, [x0, x1], [y0, y1])
        env.eq('if_swap_list[0][0]', sv(u[0]), env.ite(cb == 1, y0v, x0v))
        env.eq('if_swap_list[0][1]', sv(u[1]), env.ite(cb == 1, y1v, x1v))
        env.eq('if_swap_list[1][0]', sv(v[0]), env.ite(cb == 1, x0v, y0v))
        env.eq('if_swap_list[1][1]', sv(v[1]), env.ite(cb == 1, x1v, y1v))
        env.eq('condition_unchanged', sv(c), cb * sc)
        # second use of the same condition object
        w = mpc.if_else(c, [x0], [y0])
        env.eq('reuse_condition', sv(w[0]), env.ite(cb == 1, x0v, y0v))


def h_real_select(env):
    """min / max / argmin / sorted with the real if_else / if_swap arithmetic on secure integers (ideal comparisons only)."""
    P = env.params
    n, what = P['n'], P['what']
    from vf import l2
    k = l2.L2(env, ideal_cmp=True, fork_mod=1 << 4)
    mpc = k.mpc
    secint = mpc.SecInt(8)
    xs = [env.fresh(f'x{i}', -64, 64) for i in range(n)]
    ins = [secint(secint.field(x)) for x in xs]
    sv = k.sval
    if what == 'min_max':
        lo, hi = mpc.min_max(ins)
        lo, hi = sv(lo), sv(hi)
        env.check('min', env.all(lo <= x for x in xs) & env.any(lo == x for x in xs))
        env.check('max', env.all(hi >= x for x in xs) & env.any(hi == x for x in xs))
    elif what == 'argmax':
        i, v = mpc.argmax(ins)
        i, v = sv(i), sv(v)
        ix = n - 1
        for j in range(n - 2, -1, -1):
            ix = env.ite(env.all(xs[j] >= x for x in xs), j, ix)
        env.eq('argmax.index', i, ix)
        env.check('argmax.value', env.all(v >= x for x in xs) & env.any(v == x for x in xs))
    elif what == 'sorted':
        ys = [sv(y) for y in mpc.sorted(ins)]
        for i in range(n - 1):
            env.check(f'ascending[{i}]', ys[i] <= ys[i + 1])
        for i in range(n):
            env.check(f'multiset[{i}]', _count(env, ys, xs[i]) == _count(env, xs, xs[i]))


def h_real_cmp_swap(env):
    """one comparator of the network with the real comparison protocol: if_swap(a < b, b, a) == (min, max)."""
    from vf import l2
    l = env.params['l']
    k = l2.L2(env, ideal_zero_test=True, fork_mod=1 << l)
    mpc = k.mpc
    secint = mpc.SecInt(l)
    h = 1 << (l - 1)
    a, b = env.fresh('a', -h, h), env.fresh('b', -h, h)
    x, y = secint(secint.field(a)), secint(secint.field(b))
    u, v = mpc.if_swap(x < y, y, x)
    env.eq('lo', k.sval(u), env.ite(a < b, a, b))
    env.eq('hi', k.sval(v), env.ite(a < b, b, a))


def h_l1_select(env):
    from vf import l1
    P = env.params
    run = l1.run_program(env, P['m'], P['t'], P['prss'], 'select')
    l1.assert_outputs(env, run)
    l1.assert_sharing(env, run, P['t'])


def h_twin(env):
    """twin: claims sorted() is stable-descending without reverse: must come back violated."""
    k, mpc = _setup(env)
    cnt = [0]
    if env.mode == 'sym':
        _ideal_gadgets(env, mpc, cnt)
    xs = _keys(env, 3, 'int')
    ins, val = _wrap(env, k, mpc, xs)
    ys = [val(e) for e in mpc.sorted(ins)]
    env.check('descending', ys[0] >= ys[1])


def instances(tier):
    q = tier == 'quick'
    out = []
    for n in ([0, 1, 2, 3, 4, 5, 6] if q else range(0, 9)):
        out.append(Inst(f'sorted[int,n={n}]', h_sorted, dict(n=n, kind='int', variant='plain'), timeout=1800, goal_timeout_ms=600000))
    for n in ([3, 5] if q else [3, 5, 6]):
        out.append(Inst(f'sorted[int,reverse,n={n}]', h_sorted, dict(n=n, kind='int', variant='reverse'), timeout=1800))
        out.append(Inst(f'sorted[records,n={n}]', h_sorted, dict(n=n, kind='int', variant='records'), timeout=1800, goal_timeout_ms=600000))
    for n in ([7, 8, 12] if q else [7, 8, 9, 10, 12, 16, 20]):
        out.append(Inst(f'sorted[bits,n={n}]', h_sorted, dict(n=n, kind='bits', variant='plain'), timeout=1800, goal_timeout_ms=600000, n_validate=1))
    for n in ([1, 2, 3, 4, 5, 7] if q else range(1, 13)):
        for what in ('min', 'max', 'min_max', 'argmin', 'argmax'):
            out.append(Inst(f'{what}[n={n}]', h_minmax, dict(n=n, what=what), timeout=900))
    for n in ([3, 4] if q else [2, 3, 4, 5, 6]):
        out.append(Inst(f'records_minmax[n={n}]', h_minmax, dict(n=n, what='records'), timeout=900))
    for fxp in (False, True):
        for what in ('if_else', 'if_swap', 'if_else_list', 'if_swap_list'):
            out.append(Inst(f'gadget:{what}[{"secfxp8:4" if fxp else "secint8"}]', h_gadget, dict(what=what, fxp=fxp), timeout=900))
    for n in ([2, 3] if q else [2, 3, 4]):
        for what in ('min_max', 'argmax', 'sorted'):
            out.append(Inst(f'real_arith:{what}[n={n}]', h_real_select, dict(n=n, what=what), timeout=1800, goal_timeout_ms=300000))
    out.append(Inst('real_cmp_swap[l=3]', h_real_cmp_swap, dict(l=3), timeout=1800, max_paths=20000))
    for prss in (True, False):
        out.append(Inst(f'L1:select[m=3,t=1,prss={int(prss)}]', h_l1_select, dict(m=3, t=1, prss=prss), timeout=900))
    out.append(Inst('twin_descending', h_twin, {}, twin=True, expect='violated'))
    return out
