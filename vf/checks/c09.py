"""C09 every message is labelled uniquely and consumed exactly once (symbolic framing lemma on the real MessageExchanger +
label facts of instrumented multi-party runs under the reference schedule, solver-found reorderings and structured perturbations)."""
from vf.runner import Inst
from vf import hbcheck

PROPERTY = 'C09'
LEVEL = 'other'
ENGINE = 'hbsmt'
TECHNIQUE = ('(1) symbolic execution (shadow integers / symbolic byte streams) of the real MessageExchanger.send/data_received/receive: for symbolic pairwise-distinct labels, '
             'symbolic payload sizes, arrival order and split point, each payload is handed to exactly the receive with the equal label and buffers end empty; '
             '(2) happens-before SMT queries (see C08) for every pair of accesses to one program-counter list by different tasks -- labels are a function of those counters -- '
             'and replays of every feasible reordering; (3) an independent frame parser over the byte streams of each run: labels pairwise distinct per directed connection, '
             'all streams end at frame boundaries, every exchanger\'s buffers empty at shutdown')
BOUNDS = {'quick': dict(lemma='n<=2 frames, payload sizes <= 4 bytes, every early/late receive pattern, one split point', corpus='as C08 (10 programs, (3,1)/(2,0), PRSS on/off, 3 perturbations each)'),
          'thorough': dict(lemma='n<=3 frames', corpus='as C08 thorough')}
OUTSIDE = ['programs outside the corpus', 'hash collisions of labels', 'byte-level chunking of frames beyond one split (the merge law of C10 covers arbitrary chunkings)']
ASSUMPTIONS = ['label hash injective on one run']
EXPLANATION = ('States = callbacks executed in the instrumented runs plus paths of the symbolic lemma; the lemma needs label uniqueness as its precondition, which (2)+(3) establish per program: '
               'the lemma shows what uniqueness buys (exactly-once, matched consumption), the corpus runs show that the runtime\'s labels are unique and schedule independent.')
LEVEL_TEXT = ('Bounded: symbolic exactly-once lemma for the real framing code under the uniqueness precondition; per corpus program, uniqueness of labels per directed connection, '
              'complete consumption (empty buffers, no waiting receive) at shutdown, and schedule independence of the label-determining program counters decided by z3.')
LEVEL_NOTE = 'Trusted: z3, shadow-int/symbolic-bytes engine, in-process simulator, independent frame parser.'


def instances(tier):
    from vf.checks import c10
    out = []
    # the symbolic send/receive round trip of C10 is exactly the "consumed by the matching receive, exactly once" lemma
    for inst in c10.instances(tier):
        if inst.name.startswith('roundtrip') or inst.name.startswith('send_receive') or 'round' in inst.name:
            out.append(Inst('lemma:' + inst.name, inst.fn, inst.params, timeout=inst.timeout, max_paths=inst.max_paths, n_validate=inst.n_validate))
    out += hbcheck.corpus_instances(tier, 'C09', Inst)
    out.append(Inst('twin_buffers_nonempty', h_twin, {}, kind='custom', twin=True, expect='violated'))
    return out


def h_twin(params, seed, mode, values):
    """twin: a program that sends a message nobody receives must be reported (unconsumed payload at shutdown)."""
    import sys
    sys.setrecursionlimit(20000)
    from vf import hbsmt, custom
    import z3

    async def prog(mpc):
        secint = mpc.SecInt(16)
        x = mpc.input(secint(mpc.pid + 1))
        if mpc.pid == 0:
            mpc._send_message(1, b'stray')         # labelled with the current counter, never received by party 1
        return await mpc.output(x[0] + x[-1])
    run = hbsmt.run_instrumented(3, 1, prog, [])
    probs = hbsmt.label_problems(run) if run.results is not None else ['no results']
    if mode == 'conc':
        return custom.conc_result(['stray_message_detected'] if probs else [], [('problems', repr(probs)[:300])], values)
    res = custom.Result()
    res.path()
    s = z3.Solver()
    s.add(z3.BoolVal(bool(probs)))
    res.goal('no_stray_message', s, lambda m: dict(kind='twin'))
    return res.done()
