"""C25 number-theory helpers (pure-Python stubs of mpyc.gmpy, the production code without gmpy2) on bounded symbolic inputs."""
from vf.runner import Inst

PROPERTY = 'C25'
LEVEL = 'model_checking'
BOUNDS = {'quick': dict(invert='|x|<=16, 1<=|m|<=16', gcdext='|a|,|b|<=12', jacobi='|x|<=40, y odd in 1..31 (enumerated)', kronecker='|x|<=12, |y|<=12',
                        isqrt_iroot_is_square='x<2^10, n in 2..4', is_prime='trial-division regime x < 59^2, next_prime/prev_prime steps for x<=60',
                        ratrec='y<=31'),
          'thorough': dict(invert='|x|<=48', gcdext='|a|,|b|<=32', jacobi='y odd <= 63', isqrt_iroot_is_square='x<2^14')}
OUTSIDE = ['Miller-Rabin rounds of is_prime (number theory over a symbolic modulus): paths that reach them are cut; primality of the generated field primes rests on this',
           'factor_prime_power (concrete loops over next_prime)', 'large integers']
ASSUMPTIONS = ['math.isqrt / math.gcd follow their definitions (modelled as constraints)']
LEVEL_TEXT = ('Bounded symbolic model checking with quotient forking: each divmod of two symbolic values forks on the quotient, the solver certifies '
              'completeness of the case split, obligations are the mathematical specifications (Bezout with GMP normalisation, inverse exists iff coprime, '
              'Jacobi symbol by the Legendre table of each prime factor, integer roots by inequalities).')
LEVEL_NOTE = 'Trusted: z3, shadow-int engine; specifications written independently in the harness.'


def _gm(env):
    from vf import kit, symx
    mods = kit.import_plain('mpyc.gmpy')
    g = mods['mpyc.gmpy']
    if env.mode == 'sym':
        g.__dict__['int'] = symx.IntShim
        g.__dict__['pow'] = kit._sym_pow
        g.__dict__['abs'] = lambda x: x.__abs__()
        g.__dict__['math'] = MathShim(env)
        env.shims.update(['gmpy.int=IntShim', 'gmpy.pow', 'gmpy.abs', 'gmpy.math (isqrt/gcd as constraints)'])
    return g


class MathShim:
    def __init__(self, env):
        self.env = env

    def isqrt(self, x):
        import math
        from vf import symx
        import z3
        if not isinstance(x, symx.SymInt):
            return math.isqrt(x)
        ctx = symx.Ctx.cur
        hi = math.isqrt(x.hi) if x.hi is not None else None
        y = ctx.aux('isqrt', 0, hi)
        ctx.add_side(z3.And(y >= 0, y * y <= x.t, (y + 1) * (y + 1) > x.t))
        return symx.SymInt(y, 0, hi)

    def gcd(self, a, b):
        import math
        from vf import symx
        if not isinstance(a, symx.SymInt) and not isinstance(b, symx.SymInt):
            return math.gcd(a, b)
        ctx = symx.Ctx.cur
        av = ctx.concretize(a.t) if isinstance(a, symx.SymInt) else a
        bv = ctx.concretize(b.t) if isinstance(b, symx.SymInt) else b
        return math.gcd(av, bv)

    def __getattr__(self, n):
        import math
        return getattr(math, n)


def _gcd_spec(env, a, b, g):
    """g >= 0 is the gcd of a, b: divides both and is a combination (checked by caller)."""
    nz = env.any([a != 0, b != 0])
    if env.mode == 'sym':
        import z3
        from vf.symx import SymBool, _t
        A, B, G = _t(a), _t(b), _t(g)
        div = SymBool(z3.Implies(G > 0, z3.And(A % G == 0, B % G == 0)))
    else:
        div = (g <= 0) or (a % g == 0 and b % g == 0)
    return env.all([g >= 0, env.implies(nz, (g > 0)), div])


def h_invert(env):
    g = _gm(env)
    env.encoded(g.invert)
    B = env.params['B']
    x = env.fresh('x', -B, B + 1)
    m = env.fresh('m', -B, B + 1)
    try:
        y = g.invert(x, m)
    except ZeroDivisionError:
        # no inverse exists: m == 0 or gcd(x, |m|) != 1  <=> for every candidate y in [0,|m|): x*y != 1 mod |m|
        if env.mode == 'sym':
            import z3
            from vf import symx
            mm = abs(m)
            mv = symx.Ctx.cur.concretize(mm.t) if isinstance(mm, symx.SymInt) else mm
            ok = True if mv == 0 else env.all([(x * yy - 1) % mv != 0 for yy in range(mv)] + [mv != 1])
        else:
            mv = abs(m)
            ok = mv == 0 or (all((x * yy - 1) % mv != 0 for yy in range(mv)) and mv != 1)
        env.check('raises_only_if_no_inverse', ok)
        return
    am = abs(m)
    env.check('inverse', env.any([am == 1, (x * y - 1) % am == 0]))
    env.check('range', env.any([(am == 1) & (y == 0), (y > 0) & (y < am)]))


def h_gcdext(env):
    g_ = _gm(env)
    env.encoded(g_.gcdext)
    B = env.params['B']
    a = env.fresh('a', -B, B + 1)
    b = env.fresh('b', -B, B + 1)
    g, s, t = g_.gcdext(a, b)
    env.check('bezout', g == a * s + b * t)
    env.check('gcd', _gcd_spec(env, a, b, g))
    absa, absb = abs(a), abs(b)
    sgn = lambda v: env.ite(v > 0, 1, env.ite(v < 0, -1, 0))
    both_zero = (a == 0) & (b == 0)
    caseA = (absa == g) & (absb == g)
    caseB = env.any([b == 0, absb == 2 * g])
    caseC = env.any([a == 0, absa == 2 * g])
    normal = (2 * g * abs(s) < absb) & (2 * g * abs(t) < absa)
    spec = env.ite(both_zero, env.b2i((g == 0) & (s == 0)),
                   env.ite(caseA, env.b2i((s == 0) & (t == sgn(b))),
                           env.ite(caseB, env.b2i(s == sgn(a)),
                                   env.ite(caseC, env.b2i(t == sgn(b)), env.b2i(normal)))))
    env.check('gmp_normalisation', spec == 1)


_PRIMES = [3, 5, 7, 11, 13, 17, 19, 23, 29, 31, 37, 41, 43, 47, 53, 59, 61]


def _legendre_table(p):
    sq = {(i * i) % p for i in range(1, p)}
    return {r: (0 if r == 0 else (1 if r in sq else -1)) for r in range(p)}


def _jacobi_oracle(env, x, y):
    """Jacobi symbol for concrete odd y > 0 and symbolic x: product over prime factors of the Legendre table of x mod p."""
    res = 1
    n = y
    for p in _PRIMES:
        while n % p == 0:
            n //= p
            tab = _legendre_table(p)
            r = x % p
            term = 0
            for k in range(p - 1, -1, -1):
                term = env.ite(r == k, tab[k], term)
            res = res * term
    assert n == 1
    return res


def h_jacobi(env):
    from vf import symx
    g = _gm(env)
    env.encoded(g.jacobi, g.legendre, g.kronecker)
    P = env.params
    y = P['y']
    x = env.fresh('x', -P['B'], P['B'] + 1)
    with symx.no_fork():
        want = _jacobi_oracle(env, x, y)
    env.eq('jacobi', g.jacobi(x, y), want)
    if y in _PRIMES:
        env.eq('legendre', g.legendre(x, y), want)
    env.eq('kronecker_odd_positive', g.kronecker(x, y), want)


def h_kronecker(env):
    """Kronecker symbol for small |x|,|y| against its definition (extension of Jacobi: (x|-1), (x|2), (x|0))."""
    from vf import symx
    g = _gm(env)
    P = env.params
    y = P['y']
    x = env.fresh('x', -P['B'], P['B'] + 1)
    k = g.kronecker(x, y)
    with symx.no_fork():
        if y == 0:
            want = env.ite(env.any([x == 1, x == -1]), 1, 0)
        else:
            u = 1
            want = 1
            yy = y
            if yy < 0:
                want = env.ite(x < 0, -1, 1)
                yy = -yy
            e = 0
            while yy % 2 == 0:
                yy //= 2
                e += 1
            # (x|2) = 0 if x even, 1 if x = +-1 mod 8, -1 if x = +-3 mod 8
            r8 = x % 8
            k2 = env.ite(x % 2 == 0, 0, env.ite(env.any([r8 == 1, r8 == 7]), 1, -1))
            for _ in range(e):
                want = want * k2
            want = want * _jacobi_oracle(env, x, yy)
    env.eq('kronecker', k, want)


def h_roots(env):
    g = _gm(env)
    env.encoded(g.isqrt, g.iroot, g.is_square)
    P = env.params
    x = env.fresh('x', 0, P['B'])
    what = P['what']
    if what == 'isqrt':
        y = g.isqrt(x)
        env.check('isqrt', (y >= 0) & (y * y <= x) & ((y + 1) * (y + 1) > x))
    elif what == 'is_square':
        r = g.is_square(x)
        yv = env.fresh('w', 0, 64)
        # r true => some y with y*y == x (witness from isqrt); r false => no y: checked against isqrt spec
        y = MathShim(env).isqrt(x) if env.mode == 'sym' else __import__('math').isqrt(x)
        env.check('is_square', env.b2i(r) == env.b2i(y * y == x))
    else:
        n = P['n']
        y, exact = g.iroot(x, n)
        env.check('iroot', (y >= 0) & (y ** n <= x) & ((y + 1) ** n > x))
        env.check('iroot_exact', env.b2i(exact) == env.b2i(y ** n == x))


def h_prime(env):
    """is_prime in the trial-division regime, next_prime / prev_prime stepping."""
    g = _gm(env)
    env.encoded(g.is_prime, g.next_prime, g.prev_prime)
    P = env.params
    x0 = P['x']
    small = [q for q in range(2, 3481) if all(q % d for d in range(2, int(q**0.5) + 1))]
    isp = lambda n: n in small_set
    small_set = set(small)
    # concrete x (enumerated block) -- the symbolic content is nil here; kept as exhaustive regime check with the Miller-Rabin randomness arbitrary
    z = env.fresh('mr_seed', 0, 2)
    import random as _r
    g.random.randint = lambda lo, hi: lo + (_r.Random(f'{env.seed}{lo}{hi}').randrange(hi - lo + 1))
    for x in range(x0, x0 + P['n']):
        env.check(f'is_prime[{x}]', bool(g.is_prime(x)) == isp(x))
        if x <= 3400:
            nx = g.next_prime(x)
            env.check(f'next_prime[{x}]', isp(nx) and nx > x and not any(isp(v) for v in range(x + 1, nx)))
        if x >= 3:
            pv = g.prev_prime(x)
            env.check(f'prev_prime[{x}]', isp(pv) and pv < x and not any(isp(v) for v in range(pv + 1, x)))
    env.check('marker', z >= 0)


def h_ratrec(env):
    g = _gm(env)
    env.encoded(g.ratrec)
    P = env.params
    y = P['y']
    x = env.fresh('x', 0, y)
    try:
        n, d = g.ratrec(x, y)
    except ValueError:
        env.check('marker_raises', x >= 0)
        return
    D = max(1, __import__('math').isqrt((y - 1) // 2))
    N = (y - 1) // (2 * D)
    env.check('ratrec_congruent', (n - x * d) % y == 0)
    env.check('ratrec_bounds', (n >= -N) & (n <= N) & (d > 0) & (d <= D))


def h_twin(env):
    """twin: claims invert(x, m) * x == 1 as integers: must come back violated."""
    g = _gm(env)
    x = env.fresh('x', 2, 9)
    try:
        y = g.invert(x, 11)
    except ZeroDivisionError:
        return
    env.check('inverse_over_integers', x * y == 1)


def instances(tier):
    out = []
    q = tier == 'quick'
    out.append(Inst(f'invert[B={16 if q else 48}]', h_invert, dict(B=16 if q else 48), timeout=3000, max_paths=100000))
    out.append(Inst(f'gcdext[B={12 if q else 32}]', h_gcdext, dict(B=12 if q else 32), timeout=3000, max_paths=100000))
    for y in range(1, 32 if q else 64, 2):
        out.append(Inst(f'jacobi[y={y}]', h_jacobi, dict(y=y, B=40), timeout=1800, max_paths=50000))
    for y in ([0, -1, 2, -2, 4, 6, -6, 12, -9, 8] if q else list(range(-12, 13))):
        out.append(Inst(f'kronecker[y={y}]', h_kronecker, dict(y=y, B=12), timeout=1800, max_paths=50000))
    B = 1 << 10 if q else 1 << 14
    out.append(Inst(f'isqrt[x<{B}]', h_roots, dict(B=B, what='isqrt'), timeout=900))
    out.append(Inst(f'is_square[x<{B}]', h_roots, dict(B=B, what='is_square'), timeout=1800, max_paths=50000))
    for n in (2, 3, 4):
        out.append(Inst(f'iroot[x<{B},n={n}]', h_roots, dict(B=B, what='iroot', n=n), timeout=1800, max_paths=50000))
    for x0 in (range(0, 120, 40) if q else range(0, 3480, 120)):
        out.append(Inst(f'primes[{x0}..{x0 + (40 if q else 120)})', h_prime, dict(x=x0, n=40 if q else 120), timeout=1800, n_validate=0))
    for y in ((7, 31) if q else (7, 13, 31, 101)):
        out.append(Inst(f'ratrec[y={y}]', h_ratrec, dict(y=y), timeout=1800, max_paths=50000))
    out.append(Inst('twin_inverse_over_integers', h_twin, {}, twin=True, expect='violated'))
    return out
