"""C35 barriers and shutdown wait for all started MPyC coroutines (symbolic balance lemma on the real mpc_coro wrapper +
barrier/shutdown facts of instrumented multi-party runs under the reference schedule and perturbations)."""
from vf.runner import Inst
from vf import hbcheck

PROPERTY = 'C35'
LEVEL = 'other'
ENGINE = 'hbsmt'
TECHNIQUE = ('(1) symbolic execution (shadow integer for the pending-level counter) of the real mpc_coro wrapper / _reconcile on stub coroutines of every behaviour class: '
             'the level is L+1 exactly while the coroutine is pending and L after it finished, on every path; (2) instrumented multi-party runs of the corpus (barriers enabled): at every '
             'top-level barrier return and at the first connection close of every party no MPyC coroutine task started earlier is pending, the level is 0, all connections get closed; '
             'checked under the reference schedule, under every reordering z3 finds feasible (C08 queries) and under structured perturbations')
BOUNDS = {'quick': dict(lemma='behaviours: returns at once / raises before declaring / declares then returns, raises, or suspends then returns or raises; return type by annotation (incl. None) or first await; async and no_async',
                        corpus='programs barriers, nested, mod_in_coroutine, random_seclist, transfer_io x (3,1)/(2,0) x PRSS on/off'),
          'thorough': dict(lemma='as quick', corpus='whole corpus, plus (4,1), (5,2)')}
OUTSIDE = ['programs outside the corpus', 'barriers inside coroutines (depth > 0) beyond the level comparison of the lemma', 'throttler()']
ASSUMPTIONS = ['in-process simulator faithful to asyncio scheduling']
EXPLANATION = ('The barrier loop returns only when _pc_level <= depth; the lemma shows _pc_level counts exactly the started-and-unfinished coroutines, the runs show the two facts together on the real runtime.')
LEVEL_TEXT = ('Bounded: balance lemma over all behaviour classes of a coroutine (symbolic initial level), and per corpus program the observable barrier/shutdown facts under reference and perturbed schedules.')
LEVEL_NOTE = 'Trusted: z3, shadow-int engine, in-process simulator, task bookkeeping of the instrumented loop.'


def h_balance(env):
    import asyncio
    from vf import kit, simnet
    P = env.params
    behaviour, decl, no_async = P['behaviour'], P['decl'], P['no_async']
    mods = kit.import_mpyc(['--no-log'])
    party = kit.install(env, mods, 0)
    mpc = party.mpc
    asy = party.asyncoro
    env.encoded(asy.mpc_coro, asy._reconcile, asy.returnType)
    L = env.fresh('L', 0, 1000)
    loop = simnet.SimLoop(simnet.Net(), 0)
    mpc._loop = loop
    mpc.options.no_async = no_async
    mpc._pc_level = L
    secint = mpc.SecInt(8)
    fut_holder = []

    class Boom(Exception):
        pass
    levels = []

    async def body():
        if behaviour == 'raise_before_decl':
            raise Boom()
        if decl == 'await':
            await mpc.returnType(secint)
        levels.append(mpc._pc_level)
        if behaviour == 'return':
            return secint(3)
        if behaviour == 'raise':
            raise Boom()
        f = asyncio.Future(loop=loop)
        fut_holder.append(f)
        await f
        levels.append(mpc._pc_level)
        if behaviour == 'suspend_raise':
            raise Boom()
        return secint(4)
    if decl == 'annotation':
        async def fn() -> secint:
            return await body()
    elif decl == 'none':
        async def fn() -> None:
            await body()
    else:
        fn = body
    co = asy.mpc_coro(fn)
    raised = False
    errors = []
    loop.call_exception_handler = lambda ctx: errors.append(ctx)
    try:
        r = co()
    except Boom:
        raised = True
    asyncio.set_event_loop(None)

    def spin():
        for _ in range(50):
            if not loop._ready:
                break
            try:
                loop.step()
            except Exception:
                pass
    immediate = behaviour in ('raise_before_decl',) and decl == 'await'
    if no_async:
        # synchronous evaluation: the coroutine ran to completion inside the call (suspension is impossible: skip those behaviours)
        env.check('level_restored_after_sync_run', mpc._pc_level == L)
        if levels:
            env.check('level_while_running', levels[0] == L + 1)
        return
    if raised:
        env.check('level_restored_after_early_raise', mpc._pc_level == L)
        return
    env.check('pending:level_is_L+1', mpc._pc_level == L + 1)
    spin()
    if behaviour.startswith('suspend'):
        env.check('suspended:level_is_L+1', mpc._pc_level == L + 1)
        env.check('suspended:body_saw_L+1', levels[0] == L + 1)
        fut_holder[0].set_result(None)
        spin()
    env.check('finished:level_is_L', mpc._pc_level == L)
    env.check('body_levels', all(bool(v == L + 1) if not hasattr(v, 't') else True for v in levels))
    for v in levels:
        env.check('body_saw_L+1', v == L + 1)


def h_twin(env):
    """twin: claims the level is back to L while the coroutine is still suspended: must come back violated."""
    env.params.update(dict(behaviour='suspend_return', decl='await', no_async=False))
    import asyncio
    from vf import kit, simnet
    mods = kit.import_mpyc(['--no-log'])
    party = kit.install(env, mods, 0)
    mpc, asy = party.mpc, party.asyncoro
    L = env.fresh('L', 0, 1000)
    loop = simnet.SimLoop(simnet.Net(), 0)
    mpc._loop = loop
    mpc.options.no_async = False
    mpc._pc_level = L
    secint = mpc.SecInt(8)

    async def body():
        await mpc.returnType(secint)
        await asyncio.Future(loop=loop)
        return secint(1)
    asy.mpc_coro(body)()
    env.check('level_is_L_while_pending', mpc._pc_level == L)


def instances(tier):
    q = tier == 'quick'
    out = []
    for no_async in (False, True):
        for decl in ('await', 'annotation', 'none'):
            for behaviour in ('return', 'raise', 'raise_before_decl', 'suspend_return', 'suspend_raise'):
                if no_async and behaviour.startswith('suspend'):
                    continue
                if decl != 'await' and behaviour == 'raise_before_decl':
                    continue
                if decl == 'none' and behaviour in ('return',):
                    pass
                out.append(Inst(f'balance[{behaviour},{decl},no_async={int(no_async)}]', h_balance, dict(behaviour=behaviour, decl=decl, no_async=no_async), timeout=300))
    progs = ['barriers', 'nested', 'mod_in_coroutine', 'random_seclist', 'transfer_io'] if q else None
    out += hbcheck.corpus_instances(tier, 'C35', Inst, progs=progs)
    out.append(Inst('twin_level_while_pending', h_twin, {}, twin=True, expect='violated'))
    return out
