"""C01 secure integer operations are exact in every configuration.

H1 (L1): real m-party runtime, symbolic inputs/dealer randomness/PRF outputs, all parties' outputs.
H2.. (L2): comparison, sign, abs, min/max, lsb, mod/floordiv by public divisors, shifts at m=1 with every
mask and random bit symbolic and the real k=30 / real field size."""
from vf.runner import Inst
from vf import l1

PROPERTY = 'C01'
LEVEL = 'model_checking'
ENGINE = 'symx'
BOUNDS = {
    'quick': dict(L1='(m,t) in {(1,0)[L2],(2,0),(3,1),(4,1),(5,2)} x PRSS on/off, l=8, k=30, corpus mul_add,linear,in_prod,prod3,pow3,vec,matrix,select,allany,output_conv',
                  L2='l=4 (both operands over the full l-bit range), k=30, real field; mod b for b in 2..5'),
    'thorough': dict(L1='(2,0),(3,0),(3,1),(4,1),(5,1),(5,2),(6,2),(7,3) x PRSS on/off, l=8',
                     L2='l in {3,4,5,6}; mod b for b in 2..5 and 8'),
}
OUTSIDE = ['l > 6 for the comparison-type protocols (2^(l+1) paths per masked opening)', 'secure gcd/lcm/gcdext beyond l=4 (5 in the thorough tier) and inverse beyond l=6 (7); there the operands are forked by value and comparisons / parity / public division enter through their contracts', 'compositions deeper than the corpus programs for m >= 4 (each operation is exact on '
           'arbitrary in-range inputs; compositions follow by induction while intermediate values stay in range)',
           'label collisions of the 64-bit hash', 'mod b for b > 5 (solver unknown)']
ASSUMPTIONS = ['multiplicative masks in is_zero_public are non-zero (documented "nonzero with high probability"; restart loops cut after '
               'the first restart)', 'PRF contract (C17), serialisation (C22)']
LEVEL_TEXT = ('Bounded symbolic model checking of the real runtime code: one symbolic execution covers all inputs of the bit length and '
              'all protocol randomness (dealer coefficients, PRF outputs, mask bits); each output obligation "value == Python value" is '
              'decided by z3. The party configuration, PRSS mode and bit length are enumerated bounds.')
LEVEL_NOTE = ('Trusted: z3; shadow-int engine (validated per run against the unshimmed code on solver models); ideal random_bits (own subject '
              'in C33) and the prod/is_zero_public contract inside comparisons (both checked on the real code in the L1 programs prod3, allany, zero_public).')

L1_PROGRAMS = ['mul_add', 'linear', 'in_prod', 'prod3', 'pow3', 'vec', 'matrix', 'select', 'allany', 'output_conv']


# --------------------------------------------------------------------------------- H1 (L1)

def h_l1(env):
    P = env.params
    inst = None
    if P['prog'] == 'zero_public':
        def inst(party, sim):
            mpc = party.mpc
            orig = mpc._randoms
            calls = [0]

            def _randoms(sftype, n, bound=None):
                if n == 2 and bound is None:
                    calls[0] += 1
                    if calls[0] > 2:      # two invocations of is_zero_public; a third draw means a restart
                        env.cut('restart of the r*s != 0 loop in is_zero_public (probability ~ 2/p)')
                return orig(sftype, n, bound)
            mpc._randoms = _randoms
    run = l1.run_program(env, P['m'], P['t'], P['prss'], P['prog'], instrument=inst)
    l1.assert_outputs(env, run)


def _cap_restarts(env, ntests):
    def inst(party, sim):
        mpc = party.mpc
        orig = mpc._randoms
        calls = [0]

        def _randoms(sftype, n, bound=None):
            if n == 2 and bound is None:
                calls[0] += 1
                if calls[0] > ntests:      # one draw per zero test; another draw means a restart
                    env.cut('restart of the r*s != 0 loop in is_zero_public (probability ~ 2/p per test)')
            return orig(sftype, n, bound)
        mpc._randoms = _randoms
    return inst


def h_fld_zero(env):
    """is_zero_public / eq_public over a prime field, each field-size regime of the code selected by -K
    (large: one multiplicative mask; medium and small: retry loop r*s != 0, small adds resharing / PRSS zero shares)."""
    P = env.params
    run = l1.run_fld_program(env, P['m'], P['t'], P['prss'], 'fld_zero', P['p'], P['k'], instrument=_cap_restarts(env, 2))
    X = run['X']
    l1.zero_test_obligations(env, run, [X[0] - X[1], X[0] * X[1]], P['regime'])
    l1.assert_outputs(env, run)


def h_int_zero(env):
    """the same for secure integers with the real k=30: l=8 gives a medium field, l=32 a large one."""
    P = env.params
    l = P['l']

    def inst(party, sim):
        _cap_restarts(env, 2)(party, sim)
        l1.log_calls(party, '_randoms', 'output')
    run = l1.run_program(env, P['m'], P['t'], P['prss'], 'zero_public', l=l, instrument=inst)
    run['m'], run['t'] = P['m'], P['t']
    X = run['X']
    l1.zero_test_obligations(env, run, [X[0] - X[1], X[0] * X[1]], P['regime'])
    l1.assert_outputs(env, run, l)


# --------------------------------------------------------------------------------- L2

def _l2(env, **kw):
    from vf import l2
    return l2.L2(env, **kw)


def _inp(env, k, secint, name, l):
    h = 1 << (l - 1)
    a = env.fresh(name, -h, h)
    return a, secint(secint.field(a))


def h_cmp(env):
    P = env.params
    l = P['l']
    k = _l2(env, ideal_zero_test=True, fork_mod=1 << P['l'])
    mpc = k.mpc
    env.encoded(type(mpc).sgn, type(mpc).lt, type(mpc).eq)
    secint = mpc.SecInt(l)
    a, x = _inp(env, k, secint, 'a', l)
    b, y = _inp(env, k, secint, 'b', l)
    op = P['op']
    if op == 'lt':
        z, want = x < y, a < b
    elif op == 'le':
        z, want = x <= y, a <= b
    elif op == 'gt':
        z, want = x > y, a > b
    elif op == 'ge':
        z, want = x >= y, a >= b
    elif op == 'eq':
        z, want = x == y, a == b
    else:
        z, want = x != y, a != b
    env.eq(op, k.sval(z), env.b2i(want))


def h_sgn(env):
    P = env.params
    l = P['l']
    k = _l2(env, ideal_zero_test=True, fork_mod=1 << P['l'])
    mpc = k.mpc
    secint = mpc.SecInt(l)
    a, x = _inp(env, k, secint, 'a', l)
    what = P['what']
    if what == 'sgn':
        env.eq('sgn', k.sval(mpc.sgn(x)), env.ite(a < 0, -1, env.ite(a == 0, 0, 1)))
    elif what == 'abs':
        env.assume(a > -(1 << (l - 1)), note='abs: result within l bits')
        env.eq('abs', k.sval(abs(x)), env.ite(a < 0, -a, a))
    elif what == 'is_zero':
        env.eq('is_zero', k.sval(mpc.is_zero(x)), env.b2i(a == 0))
    elif what == 'lsb':
        env.eq('lsb', k.sval(mpc.lsb(x)), a % 2)


def h_gcd(env):
    """secure gcd / lcm / gcdext / inverse (Bernstein-Yang divsteps) on value-forked operands: comparisons, parity and division by public
    constants through their contracts (checked on the real protocols by the cmp / sgn / lsb / mod harnesses) and reciprocals as field inverses
    (masked reciprocal: C04); the divstep loop, the swaps and the final normalisations are the real code; replays run everything real."""
    import math
    P = env.params
    l, what = P['l'], P['what']
    k = _l2(env, ideal_zero_test=True, ideal_cmp=True, ideal_mod=True, public_reciprocal=True)
    mpc = k.mpc
    R = type(mpc)
    env.encoded(R._gcd, R._divsteps, R.inverse, R.gcdext, R.gcd, R.lcm, R.gcp2)
    secint = mpc.SecInt(l)
    if env.mode == 'sym':
        k.cap_calls(mpc, '_random', 4, 'retries of reciprocal mask loops')           # replays run the real protocols, which draw many masks
        # greatest common power of two by its contract (C30 checks the real trailing_zeros / find composition; not both operands zero)
        def gcp2(x_, y_, l=None):
            xa, ya = int(k.sval(x_)), int(k.sval(y_))
            if xa == 0 and ya == 0:
                env.cut('gcp2(0, 0): outside the contract established by C30 (documented TODO in the code)')
            g_ = 1
            while xa % (2 * g_) == 0 and ya % (2 * g_) == 0:
                g_ *= 2
            return secint(secint.field(g_))
        mpc.gcp2 = gcp2
        env.stubs.add('Runtime.gcp2 -> greatest common power of two (contract established by C30; symbolic run only, operands are forked by value)')
    h = 1 << (l - 1)
    lo = 0 if what == 'inverse' else -h + 1
    a = env.fresh('a', lo, h)
    b = env.fresh('b', 1 if what == 'inverse' else lo, h)
    av = a.__index__() if env.mode == 'sym' else a
    bv = b.__index__() if env.mode == 'sym' else b
    if what == 'inverse' and math.gcd(av, bv) != 1:
        env.cut('inverse: operands not coprime (precondition)')
    if what in ('lcm',) and abs(math.lcm(av, bv)) >= h:
        env.cut('lcm does not fit the type (precondition)')
    x, y = secint(secint.field(av)), secint(secint.field(bv))
    if what == 'inverse':
        r = k.sval(mpc.inverse(x, y))
        env.eq('inverse', r, pow(av, -1, bv))
    elif what == 'gcd':
        env.eq('gcd', k.sval(mpc.gcd(x, y)), math.gcd(av, bv))
    elif what == 'lcm':
        env.eq('lcm', k.sval(mpc.lcm(x, y)), math.lcm(av, bv))
    else:
        g, s_, t_ = mpc.gcdext(x, y)
        g, s_, t_ = k.sval(g), k.sval(s_), k.sval(t_)
        env.eq('gcdext:g', g, math.gcd(av, bv))
        env.check('gcdext:bezout', s_ * av + t_ * bv == g)


def h_minmax(env):
    P = env.params
    l = P['l']
    k = _l2(env, ideal_zero_test=True, fork_mod=1 << P['l'])
    mpc = k.mpc
    secint = mpc.SecInt(l)
    a, x = _inp(env, k, secint, 'a', l)
    b, y = _inp(env, k, secint, 'b', l)
    if P['what'] == 'max':
        env.eq('max', k.sval(mpc.max(x, y)), env.ite(a < b, b, a))
    else:
        env.eq('min', k.sval(mpc.min(x, y)), env.ite(b < a, b, a))


def h_mod(env):
    P = env.params
    l, b = P['l'], P['b']
    k = _l2(env, ideal_zero_test=True, rb_cap=P.get('rb_cap', 4), public_reciprocal=True)
    mpc = k.mpc
    env.encoded(type(mpc)._mod, type(mpc).mod, type(mpc).lsb)
    secint = mpc.SecInt(l)
    a, x = _inp(env, k, secint, 'a', l)
    what = P['what']
    if what == 'mod':
        env.eq('mod', k.sval(x % b), a % b)
    elif what == 'floordiv':
        env.eq('floordiv', k.sval(x // b), a // b)
    elif what == 'divmod':
        q, r = divmod(x, b)
        env.eq('divmod.q', k.sval(q), a // b)
        env.eq('divmod.r', k.sval(r), a % b)
    elif what == 'rshift':
        env.eq('rshift', k.sval(x >> b), a >> b)


def h_glue(env):
    """lsb executed by m parties (real masks from PRSS or dealers, real opening), random_bits ideal m-party."""
    P = env.params
    run = l1.run_glue(env, P['m'], P['t'], P['prss'], P['prog'], P['l'])
    l1.assert_outputs(env, run, P['l'])
    l1.assert_sharing(env, run, P['t'])


def h_twin_lt(env):
    """seeded wrong oracle: claims x < y is (a <= b): must come back violated with a replayed model."""
    k = _l2(env, ideal_zero_test=True, fork_mod=8)
    mpc = k.mpc
    secint = mpc.SecInt(3)
    a, x = _inp(env, k, secint, 'a', 3)
    b, y = _inp(env, k, secint, 'b', 3)
    env.eq('lt_is_le', k.sval(x < y), env.b2i(a <= b))


def instances(tier):
    out = []
    cfgs = [(2, 0), (3, 1), (4, 1), (5, 2)] if tier == 'quick' else [(2, 0), (3, 0), (3, 1), (4, 1), (5, 1), (5, 2), (6, 2), (7, 3)]
    for (m, t) in cfgs:
        for prss in (True, False):
            for prog in L1_PROGRAMS:
                if prog in ('prod3', 'pow3', 'allany') and m > 3:
                    continue
                if tier == 'quick' and m >= 4 and prog in ('matrix', 'vec', 'linear', 'select', 'output_conv'):
                    continue
                out.append(Inst(f'L1:{prog}[m={m},t={t},prss={int(prss)}]', h_l1, dict(m=m, t=t, prss=prss, prog=prog), timeout=900))
    for (m, t) in ([(3, 1)] if tier == 'quick' else [(2, 0), (3, 1), (4, 1)]):       # (5,2): up to ten goals per instance came back unknown
        for prss in (True, False):
            for regime, kk in (('large', 2), ('medium', 3), ('small', 30)):
                out.append(Inst(f'L1:fld_zero[p=11,{regime},m={m},t={t},prss={int(prss)}]', h_fld_zero,
                                dict(m=m, t=t, prss=prss, p=11, k=kk, regime=regime), timeout=1200))
            for regime, l in (('medium', 8), ('large', 32)):
                out.append(Inst(f'L1:int_zero[l={l},{regime},m={m},t={t},prss={int(prss)}]', h_int_zero,
                                dict(m=m, t=t, prss=prss, l=l, regime=regime), timeout=1200))
    ls = [4] if tier == 'quick' else [3, 4, 5, 6]
    for l in ls:
        for op in ('lt', 'le', 'gt', 'ge', 'eq', 'ne'):
            out.append(Inst(f'L2:cmp.{op}[l={l}]', h_cmp, dict(l=l, op=op), timeout=3000, max_paths=20000))
        for what in ('sgn', 'abs', 'is_zero', 'lsb'):
            out.append(Inst(f'L2:{what}[l={l}]', h_sgn, dict(l=l, what=what), timeout=3000, max_paths=20000))
        for what in ('max', 'min'):
            out.append(Inst(f'L2:{what}[l={l}]', h_minmax, dict(l=l, what=what), timeout=3000, max_paths=20000))
    for what, l in ((('inverse', 6), ('gcd', 4), ('gcdext', 4), ('lcm', 4)) if tier == 'quick' else (('inverse', 7), ('gcd', 5), ('gcdext', 5), ('lcm', 5))):
        out.append(Inst(f'L2:{what}[l={l},operands value-forked]', h_gcd, dict(l=l, what=what), timeout=3000, max_paths=50000, n_validate=1))
    for l in ([4] if tier == 'quick' else [4, 5]):
        for b in ((2, 3, 4, 5) if tier == 'quick' else (2, 3, 4, 5, 8)):
            out.append(Inst(f'L2:mod[l={l},b={b}]', h_mod, dict(l=l, b=b, what='mod'), timeout=3000, max_paths=20000))
        for b in (2, 3):
            out.append(Inst(f'L2:floordiv[l={l},b={b}]', h_mod, dict(l=l, b=b, what='floordiv', rb_cap=6), timeout=3000, max_paths=20000))
        out.append(Inst(f'L2:rshift[l={l},b=1]', h_mod, dict(l=l, b=1, what='rshift', rb_cap=6), timeout=3000, max_paths=20000))
    for (m, t) in ([(3, 1)] if tier == 'quick' else [(3, 1), (4, 1), (5, 2)]):
        for prss in (True, False):
            out.append(Inst(f'glue:lsb[m={m},t={t},l=4,prss={int(prss)}]', h_glue, dict(m=m, t=t, prss=prss, prog='lsb', l=4), timeout=1200))
    out.append(Inst('twin_lt_is_le', h_twin_lt, {}, twin=True, expect='violated', timeout=600))
    return out
