"""C16 PRSS keys are shared exactly among each subset's members (real Runtime.start(): key generation by the lowest member,
transmission in the client handshake, reception by the server), under a solver-chosen split of a handshake."""
import itertools

from vf.runner import Inst

PROPERTY = 'C16'
LEVEL = 'model_checking'
BOUNDS = {'quick': dict(configs='all (m,t) with m<=5, 2t<m', chunking='(3,1),(4,1),(5,2): one handshake split at a symbolic offset (every offset, every client->server connection), '
                        'the other connections delivered whole; remaining configurations canonical delivery', keys='distinct 128-bit key symbols per (generator, counter)'),
          'thorough': dict(configs='all (m,t) with m<=7, 2t<m', chunking='as quick for m<=5, two-way split')}
OUTSIDE = ['arbitrary multi-way chunkings of several handshakes at once (the merge law of C10 reduces every chunking of one stream to one-shot delivery)',
           'the randomness of secrets.token_bytes (keys are distinct symbols)', 'm > 7']
ASSUMPTIONS = ['secrets.token_bytes(16) returns fresh values (distinct symbols)']
LEVEL_TEXT = ('Bounded symbolic model checking of the real connection set-up: all parties run the unmodified start(); the byte offset at which one client handshake '
              'is split is a solver variable (forced to every value by the delivery code, completeness certified by the solver); obligations over the resulting '
              '_prss_keys of every party: members of a subset hold the same key symbol, non-members hold none, every subset has a key, every t-coalition misses one.')
LEVEL_NOTE = 'Trusted: z3 (case-split completeness), in-process network simulator. Solver content is thin here (key identity is symbol identity); the framing under arbitrary chunking is C10.'


def _run(env, m, t, split=None):
    from vf import simnet
    sim = simnet.Sim(env, m, t, [])
    after = {}

    async def prog(party):
        after[party.pid] = dict(party.mpc._prss_keys)
        return True
    sim.start(prog)
    done_split = [False]
    w = None
    steps = 0
    while not sim.done():
        steps += 1
        if steps > 100000:
            raise RuntimeError('max steps')
        sim.net.process_closes()
        ch = sim.choices()
        if not ch:
            try:
                sim.idle_step()
            except simnet.Deadlock:
                env.check('all_parties_complete_setup', False)      # reported (with the split offset) and replayed, not a harness error
                return sim, None, w
            continue
        for kind, arg in ch:
            if kind == 'step':
                sim.loops[arg].step()
            else:
                c, side = arg
                if split is not None and not done_split[0] and side == 0 and tuple(c.pids) == split[0]:
                    done_split[0] = True
                    n = len(c.queues[0])
                    off = split[1]
                    env.assume((off >= 1) & (off < n), note='split offset inside the handshake')
                    w = off.__index__() if env.mode == 'sym' else off
                    sim.net.deliver(c, side, w)
                else:
                    sim.net.deliver(c, side)
    try:
        sim.results()
    except Exception as e:
        from vf.symx import Unmodelled
        if isinstance(e, (Unmodelled, AssertionError)) or type(e).__name__ == 'AssumptionFailed':
            raise
        env.check(f'no_exception[{type(e).__name__}]', False)
        return sim, None, w
    return sim, after, w


def _obligations(env, sim, after, m, t):
    subsets = list(itertools.combinations(range(m), m - t))
    for S in subsets:
        holders = [i for i in range(m) if S in after[i]]
        env.check(f'key{S}:held_by_members_only', holders == list(S))
        keys = {bytes(after[i][S]) for i in holders}
        env.check(f'key{S}:same_for_all_members', len(keys) == 1)
        env.check(f'key{S}:16_bytes', all(len(k) == 16 for k in keys))
    allkeys = {}
    for i in range(m):
        for S, k in after[i].items():
            env.check(f'party{i}:only_own_subsets', i in S and S in subsets)
            allkeys.setdefault(bytes(k), set()).add(S)
    env.check('keys_pairwise_distinct', all(len(v) == 1 for v in allkeys.values()))
    if t:
        for T in itertools.combinations(range(m), t):
            known = {S for i in T for S in after[i]}
            env.check(f'coalition{T}:misses_a_key', any(S not in known for S in subsets))
    z = env.fresh('z', 0, 2)
    env.check('marker', z >= 0)


def h_keys(env):
    P = env.params
    m, t = P['m'], P['t']
    split = None
    if P.get('conn'):
        split = (tuple(P['conn']), env.fresh('w', 1, 400))
    sim, after, w = _run(env, m, t, split)
    rt = sim.parties[0].mpc
    R = type(rt)
    env.encoded(R.threshold.fset, R._prss_keys_to_peer, R._prss_keys_from_peer, R.start,
                sim.parties[0].asyncoro.MessageExchanger.connection_made, sim.parties[0].asyncoro.MessageExchanger.data_received)
    if w is not None:
        env.observe('split_at', w)
    if after is not None:
        _obligations(env, sim, after, m, t)


def h_twin(env):
    """twin: claims party 2 also holds the key of subset (0,1): must come back violated."""
    sim, after, w = _run(env, 3, 1, None)
    z = env.fresh('z', 0, 2)
    env.check('nonmember_holds_key', ((0, 1) in after[2]) & (z >= 0))


def instances(tier):
    q = tier == 'quick'
    out = []
    mmax = 5 if q else 7
    for m in range(1, mmax + 1):
        for t in range(0, m):
            if 2 * t >= m:
                continue
            out.append(Inst(f'keys[m={m},t={t}]', h_keys, dict(m=m, t=t), timeout=900, n_validate=1))
    # the party with the lower pid is the client of a connection (it sends its pid and the keys of the subsets it generated)
    for (m, t) in ((2, 0), (3, 1), (4, 1)) + (((5, 2),) if not q else ()):
        for a in range(m):
            for b in range(a + 1, m):
                out.append(Inst(f'split[m={m},t={t},{a}->{b}]', h_keys, dict(m=m, t=t, conn=[a, b]), timeout=1500, max_paths=2000, n_validate=1))
    out.append(Inst('twin_nonmember_holds_key', h_twin, {}, twin=True, expect='violated'))
    return out
