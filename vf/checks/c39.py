"""C39 secure type and party configuration parameters (real SecFld argument resolution and lifting, real setup() threshold check)."""
from vf.runner import Inst

PROPERTY = 'C39'
LEVEL = 'model_checking'
BOUNDS = {'quick': dict(secfld='requested order / characteristic / degree / min_order up to 32 (value forks through the solver), m in {1,2,3,4,5,7}, threshold t symbolic with 2t<m',
                        setup='m in 1..8 through the real argument parser, threshold symbolic in [0,12)'),
          'thorough': dict(secfld='orders up to 128, m in 1..9', setup='m in 1..12, threshold in [0,16)')}
OUTSIDE = ['orders beyond the bound', 'lifting of extension fields GF(p^d), d>1, with m >= p^d and t>0: the code refuses with an AssertionError (documented TODO), which the check accepts as a refusal',
           'configurations given through -P host:port lists or .ini files (same threshold assertion)']
ASSUMPTIONS = ['number-theory helpers factor_prime_power / next_prime / iroot correct (C25)', 'find_irreducible correct (C24)']
LEVEL_TEXT = ('Bounded symbolic model checking of the real argument-resolution code: the requested parameters are solver variables that the code forces to concrete '
              'values (one path per value, completeness of the case split certified by the solver), the threshold stays symbolic; obligations: resulting '
              '(characteristic, degree, order) equal the request, order >= min_order, lifting exactly when t>0 and m >= q with q^e > m and outputs in the '
              'base field, field larger than the number of parties whenever t>0, setup() refuses exactly the thresholds with 2t >= m.')
LEVEL_NOTE = 'Trusted: z3, shadow-int engine. The solver content is the case-split completeness and the threshold conditions; parameter values are enumerated through forks.'


class _Parties:
    def __init__(self, m):
        self.m = m

    def __len__(self):
        return self.m


def _load(env, m, t):
    from vf import kit
    mods = kit.import_plain('mpyc.sectypes', 'mpyc.finfields', 'mpyc.gfpx', 'mpyc.gmpy')
    party = kit.install(env, mods, 0, prf_stub=False, rand_stub=False)
    st = party.sectypes
    st.runtime = type('rt', (), dict(threshold=t, parties=_Parties(m), options=type('o', (), dict(sec_param=30, bit_length=32))()))()
    return party, st


def _conc(env, x):
    return x.__index__() if env.mode == 'sym' else x


def _prime_power(q):
    for p in range(2, q + 1):
        if q % p == 0:
            d, x = 0, q
            while x % p == 0:
                x //= p
                d += 1
            return (p, d) if x == 1 else None
    return None


def _isprime(n):
    return n >= 2 and all(n % d for d in range(2, int(n ** 0.5) + 1))


def _check_type(env, secfld, p, d, m, t, min_order=None):
    """obligations on a returned secure field type, requested characteristic p, degree d."""
    q = p ** d
    lifted = secfld.subfield is not None
    env.check('lifting_iff_t>0_and_m>=q', env.b2i((t > 0) & (m >= q)) == int(lifted))
    base = secfld.subfield if lifted else secfld.field
    env.check('characteristic', base.characteristic == p)
    env.check('degree', base.ext_deg == d)
    env.check('order', base.order == q)
    if min_order is not None:
        env.check('order>=min_order', base.order >= min_order)
    F = secfld.field
    env.check('field_larger_than_parties_when_t>0', env.implies(t > 0, F.order > m))
    env.check('sharing_field_consistent', F.order == F.characteristic ** F.ext_deg)
    if lifted:
        env.check('lift_same_characteristic', F.characteristic == p)
        env.check('lift_order_power_of_q', any(F.order == q ** e for e in range(2, 12)))
        out = secfld._output_conversion(F(3 % p))
        env.check('outputs_in_base_field', type(out) is secfld.subfield and int(out) == (3 % p if not base.is_signed or 3 % p <= p // 2 else 3 % p - p))
    else:
        env.check('no_output_conversion', secfld._output_conversion is None)
    env.check('bit_length', secfld.bit_length == (q - 1).bit_length())


def h_secfld(env):
    P = env.params
    m, kind, N = P['m'], P['kind'], P['N']
    t = env.fresh('t', 0, (m - 1) // 2 + 1)
    party, st = _load(env, m, t)
    env.encoded(st.SecFld, st._SecFld.__wrapped__)
    x = env.fresh('x', 1, N + 1)
    xv = _conc(env, x)

    def call(**kw):
        try:
            return st.SecFld(**kw)
        except AssertionError:
            return 'assert'
        except ValueError:
            return 'value'

    if kind == 'order':
        pp = _prime_power(xv)
        r = call(order=xv)
        if pp is None:
            env.check('non_prime_power_refused', r in ('value', 'assert'))
            return
        p, d = pp
        if d > 1 and m >= xv and (m - 1) // 2 > 0:
            # documented TODO: lifting of extension fields not covered -- refusal (AssertionError) on the t>0 path is accepted
            if r == 'assert':
                env.check('refusal_only_when_lifting_needed', t > 0)
                return
        env.check('accepted', r not in ('value', 'assert'))
        if r not in ('value', 'assert'):
            _check_type(env, r, p, d, m, t)
            # redundant consistent arguments give the same field; inconsistent ones are refused
            r2 = call(order=xv, char=p, ext_deg=d)
            env.check('consistent_args_same_type', r2 is r)
            env.check('inconsistent_char_refused', call(order=xv, char=p + 1 if _isprime(p + 1) else p + 2) == 'assert')
            env.check('inconsistent_degree_refused', call(order=xv, ext_deg=d + 1) == 'assert')
    elif kind == 'char_deg':
        p = xv
        if not _isprime(p):
            env.check('marker', x >= 1)
            return
        for d in (1, 2, 3):
            if p ** d > 4 * N:
                continue
            r = call(char=p, ext_deg=d)
            if r == 'assert':
                env.check('refusal_only_when_lifting_needed', (t > 0) & (d > 1) & (m >= p ** d))
                continue
            _check_type(env, r, p, d, m, t)
        r = call(modulus=p)
        if r != 'assert':
            _check_type(env, r, p, 1, m, t)
        r = call(char=p)
        if r != 'assert':
            _check_type(env, r, p, 1, m, t)
    elif kind == 'min_order':
        r = call(min_order=xv)
        env.check('accepted', r not in ('value', 'assert'))
        if r not in ('value', 'assert'):
            base = r.subfield or r.field
            q = base.order
            env.check('prime_field', base.ext_deg == 1)
            env.check('order>=min_order', q >= xv)
            env.check('smallest_prime', all(not _isprime(c) for c in range(max(xv, 2), q)))
            _check_type(env, r, q, 1, m, t, min_order=xv)
        for p in (2, 3):
            r = call(char=p, min_order=xv)
            if r == 'assert':
                env.check('refusal_only_when_lifting_needed', t > 0)
                continue
            base = r.subfield or r.field
            env.check(f'char{p}:characteristic', base.characteristic == p)
            env.check(f'char{p}:order>=min_order', base.order >= xv)
            _check_type(env, r, p, base.ext_deg, m, t, min_order=xv)
    elif kind == 'modulus':
        # polynomial moduli: string and integer forms over GF(2), GFpX object over GF(3)
        gfpx = party.gfpx
        r = call(modulus='x^2+x+1')
        if r != 'assert':
            _check_type(env, r, 2, 2, m, t)
        else:
            env.check('refusal_only_when_lifting_needed', (t > 0) & (m >= 4))
        r = call(modulus=11, char=2)        # x^3+x+1
        if r != 'assert':
            _check_type(env, r, 2, 3, m, t)
        else:
            env.check('refusal_only_when_lifting_needed', (t > 0) & (m >= 8))
        r = call(modulus=gfpx.GFpX(3)('x^2+1'))
        if r != 'assert':
            _check_type(env, r, 3, 2, m, t)
        else:
            env.check('refusal_only_when_lifting_needed', (t > 0) & (m >= 9))
        env.check('modulus_char_mismatch_refused', call(modulus=gfpx.GFpX(3)('x^2+1'), char=2) == 'assert')
        env.check('modulus_prime_with_degree_refused', call(modulus=7, ext_deg=2) == 'assert')
        env.check('min_order_above_order_refused', call(order=4, min_order=5) == 'assert')
        env.check('marker', x >= 1)


def h_threshold(env):
    """real setup(): -M m through the real parser, the threshold a solver variable: refusal exactly when 2t >= m."""
    import sys
    from vf import kit
    P = env.params
    m = P['m']
    t = env.fresh('t', 0, P['tmax'])
    mods = kit.import_mpyc([f'-M{m}', '-I0', '--no-log'])
    party = kit.install(env, mods, 0)
    rtm = party.rt_mod
    env.encoded(rtm.setup, type(party.mpc).threshold.fset)
    mpyc_pkg = mods['mpyc']
    orig_parser = mpyc_pkg._get_arg_parser

    def parser():
        p = orig_parser()
        opk = p.parse_known_args

        def parse_known_args(*a, **kw):
            options, args = opk(*a, **kw)
            options.threshold = t
            return options, args
        p.parse_known_args = parse_known_args
        return p
    rtm.mpyc._get_arg_parser = parser
    old = sys.argv
    sys.argv = ['vf', f'-M{m}', '-I0', '--no-log']
    saved = {n: getattr(mods[n], 'runtime', None) for n in mods if hasattr(mods[n], 'runtime')}
    import asyncio
    loop = asyncio.new_event_loop()
    asyncio.set_event_loop(loop)
    try:
        try:
            rt = rtm.setup()
            refused = False
        except AssertionError:
            refused = True
    finally:
        sys.argv = old
        asyncio.set_event_loop(None)
        loop.close()
    if refused:
        env.check('refused_only_if_2t>=m', 2 * t >= m)
    else:
        env.check('accepted_only_if_2t<m', 2 * t < m)
        env.check('threshold_set', rt.threshold == t)
        env.check('parties', len(rt.parties) == m)


def h_default_threshold(env):
    """default threshold (m-1)//2 for every m; secure integer / fixed-point fields exceed the number of parties."""
    from vf import kit
    P = env.params
    m = P['m']
    mods = kit.import_mpyc([f'-M{m}', '-I0', '--no-log'])
    party = kit.install(env, mods, 0)
    mpc = party.mpc
    env.check('default_threshold', mpc.threshold == (m - 1) // 2)
    env.check('2t<m', 2 * mpc.threshold < m)
    l = env.fresh('l', 1, 9)
    lv = _conc(env, l)
    for st in (mpc.SecInt(lv), mpc.SecFxp(lv + 2, 2)):
        env.check('field_order>m', st.field.order > m)
        env.check('field_order>2^(l+f+k+1)', st.field.order > 1 << (st.bit_length + st.frac_length + mpc.options.sec_param + 1))


def h_twin(env):
    """twin: claims no field is ever lifted: must come back violated (q=2, m=3, t=1)."""
    t = env.fresh('t', 0, 2)
    party, st = _load(env, 3, t)
    r = st.SecFld(2)
    env.check('never_lifted', r.subfield is None)


def instances(tier):
    q = tier == 'quick'
    out = []
    N = 32 if q else 128
    for m in ((1, 2, 3, 4, 5, 7) if q else range(1, 10)):
        for kind in ('order', 'char_deg', 'min_order', 'modulus'):
            out.append(Inst(f'SecFld[{kind},m={m}]', h_secfld, dict(m=m, kind=kind, N=N if kind != 'char_deg' else 13), timeout=1500, max_paths=20000, n_validate=1))
    for m in (range(1, 9) if q else range(1, 13)):
        out.append(Inst(f'setup_threshold[m={m}]', h_threshold, dict(m=m, tmax=12 if q else 16), timeout=900, max_paths=2000))
        out.append(Inst(f'default_threshold[m={m}]', h_default_threshold, dict(m=m), timeout=900, max_paths=2000))
    out.append(Inst('twin_never_lifted', h_twin, {}, twin=True, expect='violated'))
    return out
