"""C20 finite field elements obey the field laws through every operator (real finfields operators, gmpy stubs, gfpx)."""
from vf.runner import Inst

PROPERTY = 'C20'
LEVEL = 'model_checking'
BOUNDS = {'quick': dict(prime_fields='2,3,5,7,13,101,2^61-1,2^255-19 (three symbolic elements)', powers='exponents -3..5 and the multiples of p-1 for p<=13',
                        shifts='0..3', ext_fields='GF(4), GF(8), GF(9) (elements by value forking, all triples for GF(4), pairs otherwise)'),
          'thorough': dict(prime_fields='as quick plus 2^127-1', ext_fields='GF(4), GF(8), GF(16), GF(9), GF(25), GF(27)')}
OUTSIDE = ['fields beyond the listed ones', 'FiniteFieldArray (C37)', 'associativity/distributivity triples for extension fields larger than GF(9) (pairs only)']
ASSUMPTIONS = ['Z_p has no zero divisors (instantiated fact for inverses)']
LEVEL_TEXT = ('Bounded symbolic model checking of the real operator methods on three symbolic elements per prime field: ring axioms, agreement of '
              'binary/in-place/reflected/mixed-int operators, ** against repeated multiplication (negative exponents through the inverse, '
              'zero base), shifts, a == (a/b)*b, "only zero has no inverse", values stay reduced. Extension fields by complete value forking.')
LEVEL_NOTE = 'Trusted: z3, shadow-int engine (fraction view for symbolic inverses).'


def _setup(env):
    from vf import kit
    mods = kit.import_plain('mpyc.finfields', 'mpyc.gfpx', 'mpyc.gmpy')
    party = kit.install(env, mods, 0, prf_stub=False, rand_stub=False)
    return party, party.finfields


def h_prime(env):
    import copy
    P = env.params
    p = P['p']
    party, ff = _setup(env)
    E = ff.PrimeFieldElement
    env.encoded(ff.FiniteFieldElement.__add__, ff.FiniteFieldElement.__sub__, ff.FiniteFieldElement.__mul__, ff.FiniteFieldElement.__truediv__,
                ff.FiniteFieldElement.__iadd__, ff.FiniteFieldElement.__isub__, ff.FiniteFieldElement.__imul__, ff.FiniteFieldElement.__itruediv__,
                ff.FiniteFieldElement.__radd__, ff.FiniteFieldElement.__rsub__, ff.FiniteFieldElement.__rmul__, ff.FiniteFieldElement.__rtruediv__,
                E.__pow__, E.__rshift__, E.__irshift__, ff.FiniteFieldElement.__lshift__, ff.FiniteFieldElement.__eq__, E.__init__)
    F = ff.GF(p)
    av, bv, cv = (env.fresh(n, 0, p) for n in 'abc')
    a, b, c = F(av), F(bv), F(cv)

    def same(label, x, y):
        env.check(label, x == y)
        env.check(label + ':reduced', (x.value >= 0) & (x.value < p))
    what = P['what']
    if what == 'ring':
        same('add_assoc', (a + b) + c, a + (b + c))
        same('add_comm', a + b, b + a)
        same('mul_assoc', (a * b) * c, a * (b * c))
        same('mul_comm', a * b, b * a)
        same('distrib', a * (b + c), a * b + a * c)
        same('sub', a - b, a + (-b))
        same('neg_neg', -(-a), a)
        same('pos', +a, a)
        same('zero', a + F(0), a)
        same('one', a * F(1), a)
        same('add_inverse', a + (-a), F(0))
        env.check('eq_value', (a == b) == (av == bv))
        env.check('bool', bool(a) == (av != 0)) if env.mode == 'conc' else None
    elif what == 'mixed':
        k = 5
        same('add_int', a + k, a + F(k))
        same('radd_int', k + a, F(k) + a)
        same('sub_int', a - k, a - F(k))
        same('rsub_int', k - a, F(k) - a)
        same('mul_int', a * k, a * F(k))
        same('rmul_int', k * a, F(k) * a)
        same('add_negint', a + (-k - p), a + F(-k))
        env.check('eq_int', (a == k + p) == (av == k % p))
        for name, op in (('iadd', lambda x, y: x.__iadd__(y)), ('isub', lambda x, y: x.__isub__(y)), ('imul', lambda x, y: x.__imul__(y))):
            for rhs, rl in ((b, 'elt'), (k, 'int')):
                x = F(av)
                r = op(x, rhs)
                ref = {'iadd': a + rhs, 'isub': a - rhs, 'imul': a * rhs}[name]
                same(f'{name}_{rl}', r, ref)
                env.check(f'{name}_{rl}:inplace', r is x)
        for s in (0, 1, 3):
            same(f'lshift{s}', a << s, a * F(2**s))
            x = F(av)
            x <<= s
            same(f'ilshift{s}', x, a * F(2**s))
    elif what == 'div':
        env.assume(bv != 0)
        from vf import l1
        q = a / b
        same('div_mul', q * b, a)
        same('rdiv_int', (3 / b) * b, F(3))
        same('reciprocal', b.reciprocal() * b, F(1))
        x = F(av)
        x /= b
        same('itruediv', x * b, a)
        if p > 2:
            for s in (1, 2):
                same(f'rshift{s}', (a >> s) * F(2**s), a)
                x = F(av)
                x >>= s
                same(f'irshift{s}', x * F(2**s), a)
    elif what == 'zero_inverse':
        for label, f in (('reciprocal', lambda: F(0).reciprocal()), ('div', lambda: a / F(0)), ('rdiv', lambda: 3 / F(0)),
                         ('pow-1', lambda: F(0) ** -1), ('pow-2', lambda: F(0) ** -2)):
            try:
                f()
                env.check(f'zero_has_no_inverse:{label}', False)
            except (ZeroDivisionError, ValueError):
                env.check(f'zero_has_no_inverse:{label}', True)
        env.check('marker', av >= 0)
    elif what == 'pow':
        n = P['n']
        if n >= 0:
            r = F(1)
            for _ in range(n):
                r = r * a
            same(f'pow{n}', a ** n, r)
        else:
            env.assume(av != 0)
            r = F(1)
            for _ in range(-n):
                r = r * a
            same(f'pow{n}', (a ** n) * r, F(1))
    elif what == 'pow_zero_base':
        z = F(0)
        for n in P['ns']:
            env.check(f'0**{n}', (z ** n) == (F(1) if n == 0 else F(0)))
        env.check('marker', av >= 0)


def h_ext(env):
    P = env.params
    party, ff = _setup(env)
    F = ff.GF(ff.find_irreducible(P['char'], P['deg']))
    env.encoded(ff.ExtensionFieldElement.__init__, ff.ExtensionFieldElement.__pow__, ff.ExtensionFieldElement._reciprocal)
    q = F.order
    vals = [env.fresh(n, 0, q) for n in ('a', 'b', 'c')[:P['k']]]
    vals = [v.__index__() if env.mode == 'sym' else v for v in vals]
    a, b = F(vals[0]), F(vals[1])
    c = F(vals[2]) if P['k'] == 3 else F(1)
    env.check('add_comm', a + b == b + a)
    env.check('mul_comm', a * b == b * a)
    env.check('distrib', a * (b + c) == a * b + a * c)
    env.check('mul_assoc', (a * b) * c == a * (b * c))
    env.check('add_assoc', (a + b) + c == a + (b + c))
    env.check('sub', a - b == a + (-b))
    env.check('add_int', a + 1 == a + F(1))
    env.check('radd_int', 1 + a == F(1) + a)
    env.check('pow3', a ** 3 == a * a * a)
    env.check('pow0', a ** 0 == F(1))
    if vals[1] != 0:
        env.check('div', (a / b) * b == a)
        env.check('pow-1', (b ** -1) * b == F(1))
        env.check('reciprocal', b.reciprocal() * b == F(1))
    else:
        try:
            a / b
            env.check('zero_has_no_inverse', False)
        except ZeroDivisionError:
            env.check('zero_has_no_inverse', True)
    x = F(vals[0])
    x += b
    env.check('iadd', x == a + b)
    x = F(vals[0])
    x *= b
    env.check('imul', x == a * b)
    # shifts: multiplication / division by powers of two, and >> undoes << (for every characteristic; in odd characteristic the
    # library's << multiplies by x^k while >> divides by the polynomial whose base-p encoding is 2^k: recorded as a known finding)
    two = F(2)
    tag = '' if P['char'] == 2 else 'odd_char_'
    env.check(tag + 'lshift_is_mul_by_2^k', all(a << s == a * two ** s for s in (0, 1, 2)))
    env.check(tag + 'rshift_is_div_by_2^k', all((a >> s) * two ** s == a for s in (0, 1, 2)))
    env.check(tag + 'rshift_undoes_lshift', all((a << s) >> s == a for s in (0, 1, 2)))
    x = F(vals[0])
    x <<= 2
    env.check(tag + 'ilshift_agrees', x == a << 2)
    x = F(vals[0])
    x >>= 2
    env.check(tag + 'irshift_agrees', x == a >> 2)
    env.check('reduced', 0 <= int(a * b) < q)


def h_twin(env):
    """twin: claims subtraction is commutative: must come back violated."""
    party, ff = _setup(env)
    F = ff.GF(101)
    a, b = F(env.fresh('a', 0, 101)), F(env.fresh('b', 0, 101))
    env.check('sub_comm', a - b == b - a)


def instances(tier):
    out = []
    primes = [2, 3, 5, 7, 13, 101, 2**61 - 1, 2**255 - 19] + ([2**127 - 1] if tier != 'quick' else [])
    for p in primes:
        pn = p if p < 10**6 else f'2^{p.bit_length()}'
        for what in ('ring', 'mixed', 'div', 'zero_inverse'):
            out.append(Inst(f'{what}[p={pn}]', h_prime, dict(p=p, what=what), timeout=900, goal_timeout_ms=120000))
        for n in (0, 1, 2, 3, 5, -1, -2, -3):
            if p > 101 and abs(n) > 3:
                continue
            out.append(Inst(f'pow[p={pn},n={n}]', h_prime, dict(p=p, what='pow', n=n), timeout=900, goal_timeout_ms=120000))
        ns = [0, 1, 2, p - 1, 2 * (p - 1), p, 3 * (p - 1)]
        out.append(Inst(f'pow_zero_base[p={pn}]', h_prime, dict(p=p, what='pow_zero_base', ns=ns), timeout=600, n_validate=0))
    ext = [(2, 2, 3), (2, 3, 2), (3, 2, 2)] + ([(2, 4, 2), (5, 2, 2), (3, 3, 2)] if tier != 'quick' else [])
    for (c, d, k) in ext:
        out.append(Inst(f'ext[{c}^{d},k={k}]', h_ext, dict(char=c, deg=d, k=k), timeout=3000, max_paths=50000))
    out.append(Inst('twin_sub_comm', h_twin, {}, twin=True, expect='violated'))
    return out
