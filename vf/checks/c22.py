"""C22 field elements survive serialisation (real FiniteFieldElement.to_bytes / from_bytes, __reduce__/createGF,
signed_/unsigned_/__int__)."""
from vf.runner import Inst

PROPERTY = 'C22'
LEVEL = 'model_checking'
BOUNDS = {'quick': dict(prime_fields='2,3,251,257,65537, 36-bit prime, 2^61-1, 2^127-1 (17 bytes)', lists='length 0..3, symbolic values over the whole field',
                        ext_fields='GF(2^8), GF(3^4), GF(7^3), GF(17^2) by value forking (every element)'),
          'thorough': dict(prime_fields='as quick plus 2^255-19', lists='length 0..4', ext_fields='as quick plus GF(2^9), GF(19^2)')}
OUTSIDE = ['the pickle module itself (the __reduce__ protocol is applied by the harness)', 'NumPy arrays (C37)', 'fields beyond the listed ones']
ASSUMPTIONS = ["b''.join and int.to_bytes/from_bytes follow the Python data model (modelled in vf/symbytes.py, validated on solver models)"]
LEVEL_TEXT = ('Bounded symbolic model checking of the real marshalling code: values are solver variables ranging over the whole field; obligations: '
              'decoding the encoding returns the values, the encoding has byte_length bytes per element and never overflows, unpickling via '
              '__reduce__/createGF gives an equal element of the same field, signed/unsigned/int views are consistent representatives.')
LEVEL_NOTE = "Trusted: z3, shadow-int engine, byte-list model; the function source is re-read from /repo on every run (b''.join is rebound to the modelled join)."

P36 = 68719476731


def _patch_join(env, ff):
    """re-execute the current source of to_bytes with b''.join bound to the symbolic join (the only AST-level shim)."""
    import inspect, textwrap
    from vf import symbytes, symx
    src = textwrap.dedent(inspect.getsource(ff.FiniteFieldElement.to_bytes.__func__))
    if "b''.join(" not in src:
        raise symx.Unmodelled("to_bytes no longer uses b''.join: model needs an update")
    src = src.replace('@classmethod\n', '').replace("b''.join(", '_symjoin(')
    ns = dict(ff.__dict__)
    ns['_symjoin'] = symbytes.symjoin
    exec(src, ns)
    ff.FiniteFieldElement.to_bytes = classmethod(ns['to_bytes'])
    ff.__dict__['len'] = symbytes.symlen
    env.shims.add("finfields.to_bytes: b''.join -> symjoin (source re-read from /repo)")


def h_prime(env):
    from vf import kit, symbytes
    P = env.params
    p, n = P['p'], P['n']
    mods = kit.import_plain('mpyc.finfields')
    party = kit.install(env, mods, 0, prf_stub=False, rand_stub=False)
    ff = party.finfields
    env.encoded(ff.FiniteFieldElement.to_bytes, ff.FiniteFieldElement.from_bytes, ff.PrimeFieldElement.__reduce__,
                ff.PrimeFieldElement.signed_, ff.PrimeFieldElement.__int__)
    if env.mode == 'sym':
        _patch_join(env, ff)
    F = ff.GF(p)
    vs = [env.fresh(f'v{i}', 0, p) for i in range(n)]
    data = F.to_bytes(list(vs))
    r = F.byte_length
    ln = symbytes.symlen(data) if env.mode == 'sym' else len(data)
    env.check('length', ln == n * r)
    back = F.from_bytes(data)
    env.check('count', len(back) == n)
    for i, (a, b) in enumerate(zip(vs, back)):
        env.eq(f'roundtrip[{i}]', b, a)
    if n:
        e = F(vs[0])
        func, args, state = e.__reduce__()
        obj = func(*args)
        for kk, vv in state[1].items():
            setattr(obj, kk, vv)
        env.check('pickle:same_field', type(obj) is type(e))
        env.check('pickle:equal', obj == e)
        for signed in (True, False):
            F.is_signed = signed
            v = vs[0]
            s_, u_, i_ = e.signed_(), e.unsigned_(), e.__int__()
            env.check(f'unsigned[{signed}]', u_ == v)
            env.check(f'signed_congruent[{signed}]', (s_ - v) % p == 0)
            env.check(f'signed_range[{signed}]', (2 * s_ <= p) & (2 * s_ > -p))
            env.check(f'int[{signed}]', i_ == (s_ if signed else u_))
        F.is_signed = True


def h_ext(env):
    from vf import kit
    P = env.params
    mods = kit.import_plain('mpyc.finfields', 'mpyc.gfpx')
    party = kit.install(env, mods, 0, prf_stub=False, rand_stub=False)
    ff = party.finfields
    env.encoded(ff.FiniteFieldElement.to_bytes, ff.FiniteFieldElement.from_bytes, ff.ExtensionFieldElement.__reduce__, ff.xGF.__wrapped__)
    F = ff.GF(ff.find_irreducible(P['char'], P['deg']))
    q = F.order
    v = env.fresh('v', 0, q)
    w = env.fresh('w', 0, q)
    v = v.__index__() if env.mode == 'sym' else v
    # second element fixed to the top of the range (the overflow-prone one), first one ranges over the field
    e, top = F(v), F(q - 1)
    data = F.to_bytes([e.value, top.value])
    env.check('length', len(data) == 2 * F.byte_length)
    back = F.from_bytes(data)
    env.check('roundtrip0', F(back[0]) == e)
    env.check('roundtrip1', F(back[1]) == top)
    func, args = e.__reduce__()[:2]
    state = e.__reduce__()[2]
    obj = func(*args)
    for kk, vv in state[1].items():
        setattr(obj, kk, vv)
    env.check('pickle:same_field', type(obj) is type(e))
    env.check('pickle:equal', obj == e)
    env.check('int_in_range', 0 <= int(e) < q)
    env.check('marker', (w >= 0))


def h_twin(env):
    """twin: claims one byte always suffices for GF(257): must come back violated."""
    from vf import kit
    mods = kit.import_plain('mpyc.finfields')
    party = kit.install(env, mods, 0, prf_stub=False, rand_stub=False)
    ff = party.finfields
    if env.mode == 'sym':
        _patch_join(env, ff)
    F = ff.GF(257)
    v = env.fresh('v', 0, 257)
    data = F.to_bytes([v])
    env.eq('high_byte_is_zero', data[1], 0)


def instances(tier):
    out = []
    primes = [2, 3, 251, 257, 65537, P36, 2**61 - 1, 2**127 - 1] + ([2**255 - 19] if tier != 'quick' else [])
    for p in primes:
        for n in ((0, 1, 3) if tier == 'quick' else (0, 1, 2, 4)):
            out.append(Inst(f'prime[p={p if p < 10**7 else "2^" + str(p.bit_length())},n={n}]', h_prime, dict(p=p, n=n), timeout=600))
    ext = [(2, 8), (3, 4), (7, 3), (17, 2)] + ([(2, 9), (19, 2)] if tier != "quick" else [])
    for (c, d) in ext:
        out.append(Inst(f'ext[{c}^{d}]', h_ext, dict(char=c, deg=d), timeout=1800, max_paths=5000, n_validate=1))
    out.append(Inst('twin_high_byte_is_zero', h_twin, {}, twin=True, expect='violated'))
    return out
