"""C08 results and termination do not depend on the schedule (happens-before SMT encoding over instrumented reference
runs of the real m-party runtime + symbolic one-step lemmas on the real program-counter wrapper)."""
from vf.runner import Inst
from vf import hbcheck

PROPERTY = 'C08'
LEVEL = 'other'
ENGINE = 'hbsmt'
TECHNIQUE = ('orderings as solver variables: from an instrumented reference run of the real runtime (in-process, m parties) a happens-before constraint system over '
             'integer timestamps of the event-loop callbacks in the causal past of two accesses is built (scheduling order, send-before-arrival, per-connection FIFO, '
             'ready-queue FIFO); z3 decides whether two accesses to one program-counter list by different tasks can be reordered; each model is replayed on the real code '
             'by perturbing the reference schedule; plus symbolic one-step lemmas (shadow integers) on _ProgramCounterWrapper')
BOUNDS = {'quick': dict(corpus='10 programs (arithmetic, comparison/mod, % inside a coroutine after a network wait, nested user coroutines, pending vector operands, fixed-point/convert, '
                               'randomness/seclist/sorting, barriers, transfer/io, concurrent inner products)', configs='(m,t) in {(3,1),(2,0)}, PRSS on/off', perturbations='3 structured perturbations per program'),
          'thorough': dict(corpus='as quick', configs='plus (4,1), (5,2) no-PRSS, (3,0)', perturbations='8 per program')}
OUTSIDE = ['programs outside the corpus', 'm > 5', 'collisions of the 64-bit label hash', 'uvloop / real sockets (the simulator delivers whole writes; byte-level chunking is C10)',
           'schedules that differ from the reference run in the SET of callbacks executed (the encoding keeps the reference run\'s callbacks)']
ASSUMPTIONS = ['label hash injective on one run', 'the in-process simulator is faithful to asyncio scheduling (FIFO ready queue, call_soon semantics are asyncio\'s own BaseEventLoop code)']
EXPLANATION = ('States = callbacks executed in the reference and perturbed runs; transitions = happens-before constraints generated. On the unchanged tree every program-counter list '
               'is accessed by a single task in every corpus run (no candidate pair), so the solver queries are the lemmas; a seeded no_pc coroutine that forks (Runtime.mod before '
               'its fix, in_prod in seeded C09-a) produces candidate pairs whose reordering z3 finds feasible and the perturbed replay confirms.')
LEVEL_TEXT = ('Bounded: per corpus program and configuration, (1) the reference schedule terminates with the expected outputs at every party, (2) for every pair of accesses to one '
              'program-counter list by different tasks, z3 decides reorderability under the happens-before constraints (unsat for all pairs => labels are schedule independent in the model), '
              '(3) every feasible reordering and a fixed set of structured perturbations are replayed on the real code and must give the same outputs; symbolic lemmas establish that a '
              'coroutine with its own program counter never touches the installed counter of its caller.')
LEVEL_NOTE = 'Trusted: z3, the in-process simulator, the instrumentation (wrappers around _ProgramCounterWrapper.__init__ and Runtime._prss_uci).'


def h_pc_lemma(env):
    """one step of the real _ProgramCounterWrapper from an arbitrary installed counter [c,d]: fork values, restoration of the caller's list, advance by own mutations only."""
    import z3
    from vf import kit
    from vf.symx import SymInt
    P = env.params
    mods = kit.import_plain('mpyc.asyncoro')
    asy = mods['mpyc.asyncoro']
    env.encoded(asy._ProgramCounterWrapper.__init__, asy._ProgramCounterWrapper.__await__)
    Hf = z3.Function('H', z3.IntSort(), z3.IntSort(), z3.IntSort()) if env.mode == 'sym' else None

    def hop(a):
        if env.mode == 'sym':
            from vf.symx import _t
            return SymInt(Hf(_t(a[0]), _t(a[1])))
        return hash(tuple(a))
    asy._hop = hop
    env.stubs.add('asyncoro._hop -> uninterpreted function H(counter, depth)')
    c, d = env.fresh('c', -2**40, 2**40), env.fresh('d', 0, 50)
    installed = [c, d]
    rt = type('rt', (), {})()
    rt._program_counter = installed
    behaviour, nforks = P['behaviour'], P['nforks']
    seen = []

    class Boom(Exception):
        pass

    async def inner():
        return 7

    async def coro():
        # the coroutine body runs with its own counter installed; it forks nforks child coroutines / uci increments, then suspends or finishes
        seen.append(rt._program_counter)
        for i in range(nforks):
            if i % 2 == 0:
                asy._ProgramCounterWrapper(rt, inner())
            else:
                rt._program_counter[0] += 1         # what Runtime._prss_uci does
        if behaviour == 'raise':
            raise Boom()
        if behaviour == 'yield':
            await asy._Awaitable('suspended')
            seen.append(rt._program_counter)
            rt._program_counter[0] += 1
        return 'done'
    W = asy._ProgramCounterWrapper(rt, coro())
    env.check('init:same_list_object', rt._program_counter is installed)
    env.check('init:caller_counter_incremented_once', installed[0] == c + 1)
    env.check('init:caller_depth_unchanged', installed[1] == d)
    env.check('init:fork_depth', W.pc[1] == d + 1)
    if env.mode == 'sym':
        from vf.symx import _t
        env.check('init:fork_label', W.pc[0] == SymInt(Hf(_t(c + 1), _t(d))))
    own0 = W.pc[0]
    it = W.__await__()
    raised = False
    try:
        val = next(it)
        finished = False
    except StopIteration as e:
        val, finished = e.value, True
    except Boom:
        raised, finished, val = True, True, None
    env.check('step:caller_list_restored', rt._program_counter is installed)
    env.check('step:caller_counter_untouched', (installed[0] == c + 1) & (installed[1] == d))
    env.check('step:body_ran_on_own_counter', len(seen) >= 1 and seen[0] is not installed)
    if not raised:
        env.check('step:own_counter_advanced_by_own_forks', W.pc[0] == own0 + nforks)
    env.check('step:outcome', (finished and (val == 'done' or raised)) if behaviour != 'yield' else (not finished and val == 'suspended'))
    if behaviour == 'yield':
        # the caller forks in between; resuming must reinstall the coroutine's own list and restore the caller's afterwards
        installed[0] += 5
        try:
            next(it)
            env.check('resume:finishes', False)
        except StopIteration as e:
            env.check('resume:finishes', e.value == 'done')
        env.check('resume:ran_on_own_counter', seen[1] is seen[0])
        env.check('resume:caller_list_restored', rt._program_counter is installed)
        env.check('resume:caller_counter_untouched', installed[0] == c + 6)


def h_twin(env):
    """twin: claims the fork leaves the caller's counter unchanged: must come back violated."""
    from vf import kit
    mods = kit.import_plain('mpyc.asyncoro')
    asy = mods['mpyc.asyncoro']
    asy._hop = lambda a: 0
    c = env.fresh('c', 0, 100)
    rt = type('rt', (), {})()
    rt._program_counter = [c, 0]

    async def coro():
        return 1
    asy._ProgramCounterWrapper(rt, coro())
    env.check('caller_counter_unchanged', rt._program_counter[0] == c)


def instances(tier):
    out = hbcheck.corpus_instances(tier, 'C08', Inst)
    for behaviour in ('return', 'raise', 'yield'):
        for nforks in (0, 1, 2, 3):
            out.append(Inst(f'pc_wrapper_lemma[{behaviour},forks={nforks}]', h_pc_lemma, dict(behaviour=behaviour, nforks=nforks), timeout=300))
    out.append(Inst('twin_caller_counter_unchanged', h_twin, {}, twin=True, expect='violated'))
    return out
