"""C10 message framing tolerates any chunking and arrival order (real MessageExchanger.data_received / send /
receive and Runtime._prss_keys_from_peer on a symbolic byte stream with symbolic split points)."""
from vf.runner import Inst

PROPERTY = 'C10'
LEVEL = 'model_checking'
BOUNDS = {
    'quick': dict(merge='arbitrary stream of 28 bytes, leftover <= 8, two chunks <= 16 bytes each, <= 1 pre-existing buffer entry (payload or waiting receive)',
                  roundtrip='n <= 2 frames, payload sizes 0..4, labels arbitrary distinct 64-bit, one symbolic split point, receive before/after arrival',
                  handshake='(m,t) in {(3,1),(4,1),(5,2)}, every (client, server) pair, PRSS on/off, two symbolic split points, 14 arbitrary bytes after the handshake',
                  unwinding='<= 4 frames per data_received call (checked: exploration would exceed the decision cap otherwise)'),
    'thorough': dict(merge='stream 40 bytes, leftover <= 16, chunks <= 24, <= 2 pre-existing entries',
                     roundtrip='n <= 2 frames with payload sizes 0..6, 3 frames with sizes 0..2', handshake='(m,t) up to (5,2) and (6,2), all pairs'),
}
OUTSIDE = ['streams longer than the bound', 'more than 4 frames per call', 'garbage party ids >= m in the handshake (real code raises IndexError)',
           'two frames with the same label (precondition established by C09; such paths are cut and counted)']
ASSUMPTIONS = ['labels on one connection are unique (C09)', 'payload equality is region equality of the received stream']
LEVEL_TEXT = ('Bounded symbolic model checking of the real framing code: the byte stream, the split points, leftover length, labels and payload sizes '
              'are solver variables. Obligations: (a) merge law F(F(s,x),y) == F(s,x||y) from an arbitrary pre-state, so that by induction every chunking '
              'equals one-shot delivery; (b) one-shot delivery of frames produced by the real send() files each payload under its label, with receive() '
              'before or after arrival; (d) the handshake (pid, PRSS keys) produced by the real client code is recovered under every split.')
LEVEL_NOTE = 'Trusted: z3, shadow-int engine, the struct/len/bytearray shims of vf/symbytes.py (validated by concrete replays of solver models).'


_CACHE = {}


def _mk(env, m, t, pid, peer_pid, prss=True, keytag=None):
    """exchanger of party `pid` towards `peer_pid` on a real Runtime (module copy imported once per process)."""
    from vf import kit, symbytes, symx
    key = (m, t, pid, prss)
    if key not in _CACHE:
        mods = kit.import_mpyc([f'-M{m}', f'-I{pid}', f'-T{t}', '--no-log'] + ([] if prss else ['--no-prss']))
        party = kit.install(env, mods, pid)
        asy = mods['mpyc.asyncoro']
        asy.Future = symbytes.FakeFuture
        if env.mode == 'sym':
            asy.__dict__['len'] = symbytes.symlen
            asy.__dict__['struct'] = symbytes.StructShim
            asy.__dict__['int'] = symx.IntShim
            asy.__dict__['bytes'] = symbytes.BytesShim
            mods['mpyc.runtime'].__dict__['len'] = symbytes.symlen
        rt = party.mpc
        rt._loop = None
        _CACHE[key] = (party, asy, rt, dict(rt._prss_keys) if prss else {})
    party, asy, rt, keys0 = _CACHE[key]
    if env.mode == 'sym':
        env.shims.update(['asyncoro.len=symlen', 'asyncoro.struct=StructShim', 'asyncoro.int=IntShim', 'asyncoro.Future=FakeFuture'])
    if prss:
        rt._prss_keys = dict(keys0)
    log = []
    rt.set_protocol = lambda peer, proto: log.append(peer)
    ex = asy.MessageExchanger(rt, peer_pid)
    env.encoded(asy.MessageExchanger.data_received, asy.MessageExchanger.send, asy.MessageExchanger.receive,
                type(rt)._prss_keys_from_peer, type(rt)._prss_keys_to_peer, asy.MessageExchanger.connection_made)
    return party, asy, rt, ex, log


class Mark:
    """a payload already filed in buffers before the harness starts (no set_result: a second frame with its label is the C09 violation)."""

    def __init__(self, tag):
        self.tag = tag

    def __eq__(self, o):
        return isinstance(o, Mark) and o.tag == self.tag
    __hash__ = None


def _feed(env, ex, chunk):
    if env.mode == 'sym':
        from vf.symx import Ctx
        Ctx.cur.solver.set('timeout', 4000)
    try:
        ex.data_received(chunk)
    except AttributeError as e:
        if 'set_result' in str(e):
            env.cut('second frame for a label whose payload is still buffered (label uniqueness is the precondition, C09)')
        raise


def _state(env, ex):
    from vf import symbytes
    b = ex.bytes
    if env.mode == 'sym':
        left = (b.start, b.end)
        ents = ex.buffers.items()
    else:
        left = bytes(b)
        ents = list(ex.buffers.items())
    return left, ents


def _val_eq(env, a, b):
    from vf import symbytes
    if isinstance(a, symbytes.FakeFuture) or isinstance(b, symbytes.FakeFuture):
        if not (isinstance(a, symbytes.FakeFuture) and isinstance(b, symbytes.FakeFuture)):
            return False
        if a.tag != b.tag or a.done() != b.done():
            return False
        return _val_eq(env, a.result(), b.result()) if a.done() else True
    r = (a == b)
    return r


def _compare(env, label, sa, sb):
    (la, ea), (lb, eb) = sa, sb
    if env.mode == 'sym':
        env.check(f'{label}:leftover', env.all([la[0] == lb[0], la[1] == lb[1]]))
    else:
        env.check(f'{label}:leftover', la == lb)
    env.check(f'{label}:n_entries', len(ea) == len(eb))
    for i, ((ka, va), (kb, vb)) in enumerate(zip(ea, eb)):
        env.check(f'{label}:key[{i}]', ka == kb)
        env.check(f'{label}:val[{i}]', _val_eq(env, va, vb))


def h_merge(env):
    """(a) merge law after the handshake, arbitrary stream."""
    from vf import symbytes
    P = env.params
    N, L0, LX = P['N'], P['L0'], P['LX']
    n0 = env.fresh('n0', 0, L0 + 1)
    nx = env.fresh('nx', 0, LX + 1)
    ny = env.fresh('ny', 0, LX + 1)
    env.assume(n0 + nx + ny <= N)
    stream = symbytes.Stream(env, N)
    npre = P['npre']
    pre = []
    for j in range(npre):
        k = env.fresh(f'k{j}', -(1 << 63), 1 << 63)
        kind = env.fresh(f'kind{j}', 0, 3)            # 0 absent, 1 payload buffered, 2 receive waiting
        kind = kind.__index__() if env.mode == 'sym' else kind
        pre.append((k, kind))
    if npre == 2:
        env.assume(pre[0][0] != pre[1][0])
    futs = {}

    def fresh_exchanger(which):
        party, asy, rt, ex, log = _mk(env, 3, 1, 2, 1)
        if env.mode == 'sym':
            ex.bytes = symbytes.Buf(stream, 0, n0)
            ex.buffers = symbytes.SymDict()
        else:
            ex.bytes = bytearray(stream.data[:n0])
            ex.buffers = {}
        for j, (k, kind) in enumerate(pre):
            if kind == 1:
                ex.buffers[k] = Mark(j)
            elif kind == 2:
                f = symbytes.FakeFuture(tag=f'pre{j}')
                futs[(which, j)] = f
                ex.buffers[k] = f
        return ex
    exa = fresh_exchanger('A')
    _feed(env, exa, stream.view(n0, n0 + nx))
    _feed(env, exa, stream.view(n0 + nx, n0 + nx + ny))
    exb = fresh_exchanger('B')
    _feed(env, exb, stream.view(n0, n0 + nx + ny))
    _compare(env, 'merge', _state(env, exa), _state(env, exb))
    for j, (k, kind) in enumerate(pre):
        if kind == 2:
            fa, fb = futs[('A', j)], futs[('B', j)]
            env.check(f'merge:future[{j}]', _val_eq(env, fa, fb))


def h_roundtrip(env):
    """(b)+(c): frames produced by the real send() are filed under their labels; receive before or after arrival."""
    from vf import symbytes
    P = env.params
    n, S = P['n'], P['S']
    pcs = [env.fresh(f'pc{i}', -(1 << 63), 1 << 63) for i in range(n)]
    for i in range(n):
        for j in range(i):
            env.assume(pcs[i] != pcs[j], note='labels on one connection are unique (C09)')
    sizes = [env.fresh(f'size{i}', 0, S + 1) for i in range(n)]
    early = [env.fresh(f'early{i}', 0, 2) for i in range(n)]         # receive(pc_i) called before arrival?
    early = [e.__index__() if env.mode == 'sym' else e for e in early]
    # sender
    party, asy, rt, exs, log = _mk(env, 3, 1, 1, 2)
    writes = []

    class T:
        def write(self, data):
            writes.append(data)
    exs.transport = T()
    pays = []
    for i in range(n):
        pl = symbytes.Payload(env, i, sizes[i], S)
        pays.append(pl)
        exs.send(pcs[i], pl if env.mode == 'sym' else pl.data)
    total = sum(12 + sizes[i] for i in range(n))
    env.check('nbytes_sent', exs.nbytes_sent == total)
    # receiver
    party2, asy2, rt2, exr, log2 = _mk(env, 3, 1, 2, 1)
    offs = []
    if env.mode == 'sym':
        N = n * (12 + S)
        stream = symbytes.Stream(env, N, name='rb')
        o = 0
        for w in writes:
            env.check('send_writes_one_frame', isinstance(w, symbytes.Packed))
            offs.append(o)
            o = symbytes.write_packed(stream, o, w)
        exr.bytes = symbytes.Buf(stream, 0, 0)
        exr.buffers = symbytes.SymDict()
        view = stream.view
    else:
        data = b''.join(writes)
        o = 0
        for i in range(n):
            offs.append(o)
            o += 12 + sizes[i]
        exr.bytes = bytearray()
        exr.buffers = {}
        view = lambda a, b: data[a:b]
    futs = {}
    for i in range(n):
        if early[i]:
            futs[i] = exr.receive(pcs[i])
            env.check(f'early_receive_is_future[{i}]', isinstance(futs[i], symbytes.FakeFuture) and not futs[i].done())
    k = env.fresh('split', 0, n * (12 + S) + 1)
    env.assume(k <= total)
    _feed(env, exr, view(0, k))
    _feed(env, exr, view(k, total))

    def is_payload(x, i):
        if env.mode == 'sym':
            return isinstance(x, symbytes.View) and env.all([x.off == offs[i] + 12, x.n == sizes[i]])
        return x == pays[i].data
    for i in range(n):
        if early[i]:
            env.check(f'early[{i}]:resolved', futs[i].done())
            if futs[i].done():
                env.check(f'early[{i}]:payload', is_payload(futs[i].result(), i))
        else:
            got = exr.receive(pcs[i])
            env.check(f'late[{i}]:payload', is_payload(got, i))
    left, ents = _state(env, exr)
    env.check('buffers_empty_after_all_receives', len(ents) == 0)
    if env.mode == 'sym':
        env.check('no_leftover', left[0] == left[1])
    else:
        env.check('no_leftover', left == b'')


def h_handshake(env):
    """(d): pid and PRSS keys written by the real client are recovered by the server under every split; then frames follow."""
    from vf import symbytes
    P = env.params
    m, t, c, s, prss = P['m'], P['t'], P['c'], P['s'], P['prss']
    # client side: real connection_made
    partyc, asyc, rtc, exc, logc = _mk(env, m, t, c, s, prss)
    writes = []

    class T:
        def write(self, data):
            writes.append(bytes(data))

        def writelines(self, lst):
            for x in lst:
                writes.append(bytes(x))
    exc.connection_made(T())
    hb = b''.join(writes)
    H = len(hb)
    extra = P['extra']
    stream = symbytes.Stream(env, H + extra, prefix=hb)
    k1 = env.fresh('k1', 0, H + extra + 1)
    k2 = env.fresh('k2', 0, H + extra + 1)
    env.assume(k1 <= k2)
    client_keys = dict(rtc._prss_keys) if prss else {}

    def server():
        party, asy, rt, ex, log = _mk(env, m, t, s, None, prss)
        if env.mode == 'sym':
            ex.bytes = symbytes.Buf(stream, 0, 0)
            ex.buffers = symbytes.SymDict()
        else:
            ex.bytes = bytearray()
            ex.buffers = {}
        return rt, ex, log
    rta, exa, loga = server()
    own_before = dict(rta._prss_keys) if prss else {}
    _feed(env, exa, stream.view(0, k1))
    _feed(env, exa, stream.view(k1, k2))
    _feed(env, exa, stream.view(k2, H + extra))
    keys_a = dict(rta._prss_keys) if prss else {}
    rtb, exb, logb = server()
    _feed(env, exb, stream.view(0, H + extra))
    keys_b = dict(rtb._prss_keys) if prss else {}
    _compare(env, 'handshake_merge', _state(env, exa), _state(env, exb))
    env.check('peer_pid_same', exa.peer_pid == exb.peer_pid)
    env.check('peer_pid==client', exb.peer_pid == c)
    env.check('set_protocol', loga == logb == [c])
    if prss:
        import itertools
        j = 0
        for S in itertools.combinations(range(m), m - t):
            if S[0] == c and s in S:
                for keys, tag in ((keys_a, 'chunked'), (keys_b, 'oneshot')):
                    kv = keys.get(S)
                    if env.mode == 'sym':
                        ok = isinstance(kv, symbytes.View) and env.all([kv.off == 2 + 16 * j, kv.n == 16])
                        env.check(f'key{S}:{tag}', ok)
                    else:
                        env.check(f'key{S}:{tag}', kv is not None and bytes(kv) == client_keys[S])
                env.check(f'key{S}:bytes_on_wire', hb[2 + 16 * j: 18 + 16 * j] == client_keys[S])
                j += 1
        env.check('n_keys', H == 2 + 16 * j)
        for keys in (keys_a, keys_b):
            others = {S: v for S, v in keys.items() if not (S[0] == c and s in S)}
            env.check('own_keys_untouched', others == {S: v for S, v in own_before.items() if not (S[0] == c and s in S)})
    else:
        env.check('no_keys', H == 2)


def h_twin(env):
    """twin: claims the leftover after one call is always empty (false for incomplete frames): must be violated."""
    from vf import symbytes
    stream = symbytes.Stream(env, 20)
    nx = env.fresh('nx', 0, 21)
    party, asy, rt, ex, log = _mk(env, 3, 1, 2, 1)
    if env.mode == 'sym':
        ex.bytes = symbytes.Buf(stream, 0, 0)
        ex.buffers = symbytes.SymDict()
    else:
        ex.bytes = bytearray()
        ex.buffers = {}
    _feed(env, ex, stream.view(0, nx))
    left, ents = _state(env, ex)
    env.check('leftover_always_empty', (left[0] == left[1]) if env.mode == 'sym' else left == b'')


def instances(tier):
    out = []
    q = tier == 'quick'
    out.append(Inst('merge[npre=0]', h_merge, dict(N=28 if q else 40, L0=8 if q else 16, LX=16 if q else 24, npre=0), timeout=1800, max_paths=50000))
    out.append(Inst('merge[npre=1]', h_merge, dict(N=26 if q else 40, L0=6 if q else 14, LX=14 if q else 20, npre=1), timeout=3000, max_paths=50000))
    if not q:
        out.append(Inst('merge[npre=2]', h_merge, dict(N=28, L0=8, LX=16, npre=2), timeout=3400, max_paths=80000))
    for n in ((1, 2) if q else (1, 2, 3)):
        out.append(Inst(f'roundtrip[n={n}]', h_roundtrip, dict(n=n, S=4 if q else (6 if n < 3 else 2)), timeout=1800, max_paths=20000))
    cfgs = [(3, 1), (4, 1), (5, 2)] if q else [(2, 0), (3, 1), (4, 1), (5, 2), (6, 2)]
    for (m, t) in cfgs:
        for c in range(m):
            for s in range(c + 1, m):
                for prss in (True, False):
                    if not prss and (q and (c, s) != (0, 1)):
                        continue
                    out.append(Inst(f'handshake[m={m},t={t},{c}->{s},prss={int(prss)}]', h_handshake,
                                    dict(m=m, t=t, c=c, s=s, prss=prss, extra=14), timeout=1800, max_paths=20000))
    out.append(Inst('twin_leftover_always_empty', h_twin, {}, twin=True, expect='violated'))
    return out
