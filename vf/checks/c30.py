"""C30 bit-level oblivious building blocks (real add_bits, to_bits, from_bits, find, unit_vector, trailing_zeros, gcp2
at m=1 with every mask, mask quotient and random bit symbolic; real k=30 and field)."""
from vf.runner import Inst

PROPERTY = 'C30'
LEVEL = 'model_checking'
BOUNDS = {'quick': dict(l=4, add_bits='n<=4 both operands secret', find='n<=4, a public 0/1 and secret, e in {default,-1,None}, f in {None, 2^i, cs_f}',
                        unit_vector='n in 2..5', to_bits='l=4 all bits and 2 low bits', trailing_zeros='l=4', gcp2='l=2'),
          'thorough': dict(l='4..6', add_bits='n<=6', find='n<=6', unit_vector='n in 2..8', to_bits='l in 4..6', gcp2='l=3')}
OUTSIDE = ['lengths beyond the bound', 'NumPy variants (C37)', 'secure fixed-point inputs to to_bits (integral shortcut) beyond f=2']
ASSUMPTIONS = ['random_bits ideal (C33)']
LEVEL_TEXT = ('Bounded symbolic model checking of the real code: input value, the l mask bits, the mask quotient r_divl in [0,2^(k+..)) and every '
              'intermediate bit are solver variables; obligations are the arithmetic definitions (sum of bits == value mod 2^l, one-hot vector, '
              'index of first occurrence). No assumption is made on the mask quotient: the solver found Runtime.to_bits wrong for r_divl == 0.')
LEVEL_NOTE = 'Trusted: z3, shadow-int engine, ideal random_bits.'


def _k(env, l, **kw):
    from vf import l2
    return l2.L2(env, fork_mod=1 << max(l, 3), **kw)


def _bits(env, k, secint, n, name):
    bs = [env.fresh(f'{name}{i}', 0, 2) for i in range(n)]
    return bs, [secint(secint.field(b)) for b in bs]


def h_to_bits(env):
    P = env.params
    l, nb = P['l'], P['nb']
    k = _k(env, l)
    mpc = k.mpc
    env.encoded(type(mpc).to_bits, type(mpc).add_bits)
    secint = mpc.SecInt(l)
    a = env.fresh('a', -(1 << (l - 1)), 1 << (l - 1))
    x = secint(secint.field(a))
    bits = mpc.to_bits(x) if nb is None else mpc.to_bits(x, nb)
    nb = l if nb is None else nb
    vals = [k.sval(b) for b in bits]
    env.check('n_bits', len(vals) == nb)
    for i, v in enumerate(vals):
        env.check(f'bit[{i}]in01', (v == 0) | (v == 1))
    s = 0
    for i, v in enumerate(vals):
        s = s + v * (1 << i)
    from vf.symx import no_fork
    with no_fork():
        env.eq('bits', s, a % (1 << nb))


def h_from_bits(env):
    P = env.params
    n = P['n']
    k = _k(env, n + 1)
    mpc = k.mpc
    secint = mpc.SecInt(n + 1)
    bs, xs = _bits(env, k, secint, n, 'b')
    y = mpc.from_bits(xs)
    want = 0
    for i, b in enumerate(bs):
        want = want + b * (1 << i)
    env.eq('from_bits', k.sval(y), want)


def h_add_bits(env):
    P = env.params
    n = P['n']
    k = _k(env, n + 1)
    mpc = k.mpc
    env.encoded(type(mpc).add_bits)
    secint = mpc.SecInt(n + 2)
    xs_, xs = _bits(env, k, secint, n, 'x')
    ys_, ys = _bits(env, k, secint, n, 'y')
    if P['public_y']:
        ys = list(ys_) if env.mode == 'conc' else None
        # public second operand: concretise the bits (2^n paths)
        ys = [b.__index__() if env.mode == 'sym' else b for b in ys_]
    zs = mpc.add_bits(xs, ys)
    vals = [k.sval(z) for z in zs]
    X = sum(b * (1 << i) for i, b in enumerate(xs_))
    Y = sum(b * (1 << i) for i, b in enumerate(ys_))
    S = 0
    for i, v in enumerate(vals):
        env.check(f'bit[{i}]in01', (v == 0) | (v == 1))
        S = S + v * (1 << i)
    env.eq('add_bits', S, (X + Y) % (1 << n))


def h_find(env):
    P = env.params
    n, variant = P['n'], P['variant']
    k = _k(env, 4)
    mpc = k.mpc
    env.encoded(type(mpc).find)
    secint = mpc.SecInt(8)
    bs, xs = _bits(env, k, secint, n, 'x')
    av = env.fresh('a', 0, 2)
    if variant.startswith('pub'):
        a = av.__index__() if env.mode == 'sym' else av
    else:
        a = secint(secint.field(av))
    # index of first occurrence of a, n if absent
    ix = n
    for i in range(n - 1, -1, -1):
        ix = env.ite(bs[i] == av, i, ix)
    notfound = env.all(bs[i] != av for i in range(n)) if n else True
    if variant.endswith('default'):
        y = mpc.find(xs, a)
        env.eq('find', k.sval(y), ix)
    elif variant.endswith('e-1'):
        y = mpc.find(xs, a, e=-1)
        env.eq('find_e-1', k.sval(y), env.ite(notfound, -1, ix))
    elif variant.endswith('eNone'):
        nf, y = mpc.find(xs, a, e=None)
        env.eq('nf', k.sval(nf) if hasattr(nf, 'share') else nf, env.b2i(notfound))
        env.check('ix_when_found', env.implies(~notfound if env.mode == 'sym' else (not notfound), k.sval(y) == ix))
    elif variant.endswith('f2i'):
        y = mpc.find(xs, a, f=lambda i: 2**i)
        want = 1 << n
        for i in range(n - 1, -1, -1):
            want = env.ite(bs[i] == av, 1 << i, want)
        env.eq('find_f', k.sval(y), want)
    elif variant.endswith('csf'):
        y = mpc.find(xs, a, cs_f=lambda b, i: (b + 1) << i)
        want = 1 << n
        for i in range(n - 1, -1, -1):
            want = env.ite(bs[i] == av, 1 << i, want)
        env.eq('find_csf', k.sval(y), want)
    elif variant.endswith('tuple'):
        y = mpc.find(xs, a, cs_f=lambda b, i: (i + b, (b + 1) << i))
        want = 1 << n
        for i in range(n - 1, -1, -1):
            want = env.ite(bs[i] == av, 1 << i, want)
        env.eq('find_tuple0', k.sval(y[0]), ix)
        env.eq('find_tuple1', k.sval(y[1]), want)


def h_unit_vector(env):
    P = env.params
    n = P['n']
    l = max(4, (n - 1).bit_length() + 1)
    k = _k(env, l)
    mpc = k.mpc
    env.encoded(type(mpc).unit_vector, type(mpc).to_bits)
    secint = mpc.SecInt(l)
    a = env.fresh('a', 0, n)
    u = mpc.unit_vector(secint(secint.field(a)), n)
    env.check('len', len(u) == n)
    for i, ui in enumerate(u):
        env.eq(f'u[{i}]', k.sval(ui), env.b2i(a == i))


def h_tz(env):
    P = env.params
    l = P['l']
    k = _k(env, l)
    mpc = k.mpc
    env.encoded(type(mpc).trailing_zeros, type(mpc).gcp2)
    secint = mpc.SecInt(l)
    a = env.fresh('a', -(1 << (l - 1)), 1 << (l - 1))
    x = secint(secint.field(a))
    from vf.symx import no_fork
    if P['what'] == 'tz':
        bits = [k.sval(b) for b in mpc.trailing_zeros(x)]
        with no_fork():
            u = a % (1 << l)
            lower_zero = True
            for i in range(l):
                env.check(f'tz[{i}]', env.implies(lower_zero, bits[i] == (u // (1 << i)) % 2))
                lower_zero = env.all([lower_zero, (u // (1 << i)) % 2 == 0])
    else:
        b = env.fresh('b', -(1 << (l - 1)), 1 << (l - 1))
        y = secint(secint.field(b))
        env.assume(env.any([a != 0, b != 0]), note='gcp2: not both arguments zero (documented TODO in the code for the all-zero case)')
        g = k.sval(mpc.gcp2(x, y))
        # greatest common power of two dividing a and b
        with no_fork():
            want = 1 << l
            for i in range(l - 1, -1, -1):
                d = 1 << i
                nd = 1 << (i + 1)
                want = env.ite(env.any([a % nd != 0, b % nd != 0]) & (a % d == 0) & (b % d == 0), d, want)
            env.eq('gcp2', g, want)


def h_glue(env):
    """trailing_zeros / to_bits executed by m=3 parties (real masks from PRSS or dealers, real openings and resharing);
    catches what m=1 cannot see: a share treated as a bit, a missing resharing, a wrong opening threshold."""
    from vf import l1
    P = env.params
    run = l1.run_glue(env, P['m'], P['t'], P['prss'], P['prog'], P['l'])
    l1.assert_outputs(env, run, P['l'])
    l1.assert_sharing(env, run, P['t'])


def h_twin(env):
    """twin: claims to_bits returns the bits of a+1: must come back violated."""
    k = _k(env, 3)
    mpc = k.mpc
    secint = mpc.SecInt(3)
    a = env.fresh('a', -4, 4)
    bits = mpc.to_bits(secint(secint.field(a)), 2)
    s = k.sval(bits[0]) + 2 * k.sval(bits[1])
    from vf.symx import no_fork
    with no_fork():
        env.eq('bits_of_a_plus_1', s, (a + 1) % 4)


def instances(tier):
    out = []
    q = tier == 'quick'
    for l in ([4] if q else [4, 5, 6]):
        out.append(Inst(f'to_bits[l={l},all]', h_to_bits, dict(l=l, nb=None), timeout=1800, max_paths=20000))
        out.append(Inst(f'to_bits[l={l},nb=2]', h_to_bits, dict(l=l, nb=2), timeout=1800, max_paths=20000))
    for n in ([3] if q else [3, 6]):
        out.append(Inst(f'from_bits[n={n}]', h_from_bits, dict(n=n), timeout=600))
    for n in ([2, 3, 4] if q else [2, 3, 4, 5, 6]):
        out.append(Inst(f'add_bits[n={n},secret]', h_add_bits, dict(n=n, public_y=False), timeout=1800))
        out.append(Inst(f'add_bits[n={n},public]', h_add_bits, dict(n=n, public_y=True), timeout=1800))
    for n in ([1, 3, 4] if q else [1, 2, 3, 4, 5, 6]):
        for variant in ('pub:default', 'sec:default', 'pub:e-1', 'sec:eNone', 'pub:f2i', 'sec:csf', 'pub:tuple'):
            out.append(Inst(f'find[n={n},{variant}]', h_find, dict(n=n, variant=variant), timeout=1800))
    for n in ([2, 3, 4, 5] if q else [2, 3, 4, 5, 6, 7, 8]):
        out.append(Inst(f'unit_vector[n={n}]', h_unit_vector, dict(n=n), timeout=1800, max_paths=20000))
    for l in ([4] if q else [4, 5]):
        out.append(Inst(f'trailing_zeros[l={l}]', h_tz, dict(l=l, what='tz'), timeout=1800, max_paths=20000))
    out.append(Inst(f'gcp2[l={2 if q else 3}]', h_tz, dict(l=2 if q else 3, what='gcp2'), timeout=3000, max_paths=40000))
    for prss in (True, False):
        out.append(Inst(f'glue:tz[m=3,t=1,l=3,prss={int(prss)}]', h_glue, dict(m=3, t=1, prss=prss, prog='tz', l=3), timeout=1800, max_paths=5000))
        out.append(Inst(f'glue:to_bits[m=3,t=1,l=3,prss={int(prss)}]', h_glue, dict(m=3, t=1, prss=prss, prog='to_bits', l=3), timeout=1800, max_paths=5000))
    out.append(Inst('twin_bits_of_a_plus_1', h_twin, {}, twin=True, expect='violated'))
    return out
