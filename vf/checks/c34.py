"""C34 secure statistics agree with Python's statistics module (secure integers; real mpyc.statistics code at m=1 on symbolic data,
comparison / unit-vector sub-protocols by their contracts, every random bit symbolic, public partition sizes fork paths)."""
from vf.runner import Inst

PROPERTY = 'C34'
LEVEL = 'model_checking'
BOUNDS = {'quick': dict(types='SecInt(10), data values in [-4,4)', mean='n in {1,2,4}; fixed point SecFxp(8,4): n in {2,3} within two units of s*c/2^(f+e), c the rounded public factor', median='median, median_low, median_high n<=2', quantiles='quartiles of 2 and 3 points, both methods (2 points: extrapolated cut points of the exclusive method)',
                        mode='n<=2, SecInt(4), values in [0,4)', variance='variance n=2, pvariance n=2, stdev/pstdev through _isqrt, covariance n=2', restarts='pivot / rejection loops: one restart'),
          'thorough': dict(mean='n in {1,2,3,4,8}', median='n<=4', quantiles='2..4 points', mode='n<=4', variance='as quick')}
OUTSIDE = ['secure fixed-point statistics other than mean (Newton/truncation pipelines: _fsqrt, fixed-point variance)', 'correlation, linear_regression, covariance beyond two points',
           'divisors n^2(n-1) that are not powers of two (secure floor division by 18, 48, ...: C01 covers the division protocol for divisors <= 5)',
           'data sizes beyond the bound', 'ties in quickselect beyond what the bound exercises (information leakage of ties is documented upstream)']
ASSUMPTIONS = ['quartiles of 2 points only: Runtime.mod(a, 4) by its contract (C01) in the symbolic run', 'secure comparison exact (C01), unit_vector exact (C30) -- used through their contracts in the symbolic run; replays run the real protocols', 'random_bits ideal (C33)']
LEVEL_TEXT = ('Bounded symbolic model checking of the real statistics functions on symbolic integer data: results are compared with the definition of the statistic in exact integer '
              'arithmetic (order statistics through counting, nearest-integer rounding |n*result - sum| <= n/2, r^2 <= v < (r+1)^2 for square roots, mode = first most frequent value).')
LEVEL_NOTE = 'Trusted: z3, shadow-int engine, contracts of comparison/unit_vector in the symbolic run.'


def _setup(env, cap=8, ideal_mod=False):
    from vf import l2, kit
    k = l2.L2(env, ideal_cmp=True, ideal_zero_test=True, rb_cap=cap, fork_mod=1 << 4, public_reciprocal=True, ideal_mod=ideal_mod)
    mpc = k.mpc
    if env.mode == 'sym':
        def unit_vector(a, n):
            st = type(a)
            v = k.sval(a)
            return [st(st.field(env.ite(env.any([v == i] + ([v == n] if i == 0 else [])), 1, 0))) for i in range(n)]
        mpc.unit_vector = unit_vector
        env.stubs.add('Runtime.unit_vector -> exact unit vector (contract of C30, including the documented a == n -> [1,0,...] case)')
    stats = k.mods['mpyc.statistics']
    return k, mpc, stats


def _data(env, k, mpc, n, lo=-4, hi=4, l=10):
    st = mpc.SecInt(l)
    vs = [env.fresh(f'x{i}', lo, hi) for i in range(n)]
    return st, vs, [st(st.field(v)) for v in vs]


def _kth(env, vs, kk, y):
    """y is the kk-th order statistic of vs: #{x < y} <= kk < #{x <= y} and y is a member."""
    lt = sum(env.b2i(x < y) for x in vs)
    le = sum(env.b2i(x <= y) for x in vs)
    return env.all([lt <= kk, le > kk, env.any(x == y for x in vs)])


def h_stat(env):
    P = env.params
    what, n = P['what'], P['n']
    k, mpc, stats = _setup(env, cap=P.get('cap', 8), ideal_mod=P.get('ideal_mod', False))
    env.encoded(stats.covariance, stats.mean, stats._med, stats._quickselect, stats.quantiles, stats._mode, stats._var, stats._std, stats._isqrt)
    st, vs, xs = _data(env, k, mpc, n, *(P.get('range') or (-4, 4)), l=P.get('l', 10))
    sv = k.sval
    if what == 'mean':
        r = sv(stats.mean(xs))
        s = sum(vs)
        env.check('mean:nearest_integer', (2 * (n * r - s) <= n) & (2 * (s - n * r) <= n))
        env.eq('mean:round_half_up', r, (s + n // 2) // n)
        r2 = sv(stats.mean(iter(xs)))
        env.eq('mean:iterator', r2, r)
    elif what in ('median_low', 'median_high', 'median'):
        f = getattr(stats, what)
        r = sv(f(xs))
        if what == 'median_low' or (n % 2 and what != 'median_high'):
            env.check(what, _kth(env, vs, (n - 1) // 2, r))
        elif what == 'median_high':
            env.check(what, _kth(env, vs, n // 2, r))
        else:
            # mean of the two middle values, floor
            lo = env.fresh('lo', -4, 4)
            hi = env.fresh('hi', -4, 4)
            env.check('median', env.implies(env.all([_kth(env, vs, (n - 2) // 2, lo), _kth(env, vs, n // 2, hi)]), r == (lo + hi) // 2))
    elif what == 'quantiles':
        method = P['method']
        qs = [sv(q) for q in stats.quantiles(xs, n=4, method=method)]
        env.check('n_cut_points', len(qs) == 3)
        # reference: Python's algorithm on the sorted data with the documented integer rounding (a + n//2)//n of the interpolation term
        srt = [env.fresh(f's{i}', -4, 4) for i in range(n)]
        is_sorted = env.all([_kth(env, vs, i, srt[i]) for i in range(n)])
        want = []
        for i in range(1, 4):
            if method == 'inclusive':
                m_ = n - 1
                j, delta = divmod(i * m_, 4)
                w = srt[j] + (((srt[j + 1] - srt[j]) * delta + 2) // 4 if delta else 0)
            else:
                m_ = n + 1
                j = i * m_ // 4
                j = 1 if j < 1 else n - 1 if j > n - 1 else j
                delta = i * m_ - j * 4
                w = srt[j - 1] + ((srt[j] - srt[j - 1]) * delta + 2) // 4
            want.append(w)
        for i in range(3):
            env.check(f'quantile[{i}]', env.implies(is_sorted, qs[i] == want[i]))
        for i in range(2):
            env.check(f'quantiles_monotone[{i}]', qs[i] <= qs[i + 1])
    elif what == 'mode':
        r = sv(stats.mode(xs))
        cnt = [sum(env.b2i(x == y) for x in vs) for y in vs]
        best = cnt[0]
        for c in cnt[1:]:
            best = env.ite(c > best, c, best)
        env.check('mode:member_with_max_count', env.any(env.all([r == vs[i], cnt[i] == best]) for i in range(n)))
    elif what == 'mean_fxp':
        f = 4
        sf = mpc.SecFxp(8, f)
        ws = [env.fresh(f'w{i}', -32, 32) for i in range(n)]         # values in [-2, 2) in units of 2^-4
        r = sv(stats.mean([sf(sf.field(w), integral=False) for w in ws]))
        tot = sum(ws)
        e = n.bit_length() - 1
        c = round((2 ** e / n) * (1 << f))                            # the public factor 2^e/n as the library rounds it to f fractional bits
        env.check('public_factor_rounding', abs(c / (1 << f) - 2 ** e / n) <= 2 ** -(f + 1))
        # two public-float multiplications with one truncation each (the second is exact for e = 0): within two units of s*c/2^(f+e)
        D = (1 << f) << e
        env.check('mean_fxp:within_two_units', (r * D - tot * c <= 2 * D) & (tot * c - r * D <= 2 * D))
    elif what == 'covariance':
        st2, ws, ys = _data(env, k, mpc, n, -4, 4, l=P.get('l', 10))
        ws = [env.fresh(f'y{i}', -4, 4) for i in range(n)]
        ys = [st(st.field(v)) for v in ws]
        r = sv(stats.covariance(xs, ys))
        sx, sy = sum(vs), sum(ws)
        num = sum((n * a_ - sx) * (n * b_ - sy) for a_, b_ in zip(vs, ws))
        d = n * n * (n - 1)
        env.check('covariance:nearest_integer', (2 * (r * d - num) <= d) & (2 * (num - r * d) <= d))
        env.eq('covariance:round_half_up', r, (num + d // 2) // d)
    elif what in ('variance', 'pvariance', 'stdev', 'pstdev'):
        corr = 1 if what in ('variance', 'stdev') else 0
        s = sum(vs)
        num = sum((n * x - s) * (n * x - s) for x in vs)
        d = n * n * (n - corr)
        if what in ('variance', 'pvariance'):
            r = sv(getattr(stats, what)(xs))
            env.check(f'{what}:nearest_integer', (2 * (r * d - num) <= d) & (2 * (num - r * d) <= d))
        else:
            r = sv(getattr(stats, what)(xs))
            v = (num + d // 2) // d
            env.check(f'{what}:integer_sqrt_of_variance', (r * r <= v) & (v < (r + 1) * (r + 1)) & (r >= 0))


def h_errors(env):
    import statistics as pystat
    k, mpc, stats = _setup(env)
    for label, f in (('mean_empty', lambda: stats.mean([])), ('median_empty', lambda: stats.median([])), ('mode_empty', lambda: stats.mode([])),
                     ('variance_one_point', lambda: stats.variance([mpc.SecInt(8)(1)])), ('quantiles_one_point', lambda: stats.quantiles([mpc.SecInt(8)(1)])),
                     ('quantiles_n0', lambda: stats.quantiles([mpc.SecInt(8)(1), mpc.SecInt(8)(2)], n=0))):
        try:
            f()
            env.check(label, False)
        except pystat.StatisticsError:
            env.check(label, True)
    env.check('plain_data_delegates', stats.mean([1, 2, 3]) == 2 and stats.median([3, 1, 2]) == 2 and stats.mode([1, 2, 2]) == 2)
    z = env.fresh('z', 0, 2)
    env.check('marker', z >= 0)


def h_twin(env):
    """twin: claims median_low returns the maximum: must come back violated."""
    k, mpc, stats = _setup(env)
    st, vs, xs = _data(env, k, mpc, 2)
    r = k.sval(stats.median_low(xs))
    env.check('median_low_is_max', env.all(r >= x for x in vs))


def instances(tier):
    q = tier == 'quick'
    out = []
    T = dict(timeout=1800, max_paths=30000, n_validate=1, goal_timeout_ms=120000)
    for n in ((1, 2, 4) if q else (1, 2, 3, 4, 8)):
        out.append(Inst(f'mean[n={n}]', h_stat, dict(what='mean', n=n), **T))
    for n in ((1, 2) if q else (1, 2, 3)):
        for what in ('median_low', 'median_high', 'median'):
            out.append(Inst(f'{what}[n={n}]', h_stat, dict(what=what, n=n, cap=10), **T))
    for n in ((2, 3) if q else (2, 3, 4)):
        for method in ('exclusive', 'inclusive'):
            # two points: three reductions mod 4 in one call (8 mask paths each): both tiers use the contract of Runtime.mod in the
            # symbolic run (replays run the real protocol)
            im = n == 2         # (the real reductions, 8 mask paths each, did not finish within 1800 s in the thorough tier either)
            out.append(Inst(f'quantiles[{method},n={n}]' + ('[mod by contract]' if im else ''), h_stat,
                            dict(what='quantiles', n=n, method=method, cap=12, ideal_mod=im), **T))
    for n in ((1, 2) if q else (1, 2, 3)):
        out.append(Inst(f'mode[n={n}]', h_stat, dict(what='mode', n=n, range=(0, 4), l=4), **T))
    out.append(Inst('variance[n=2]', h_stat, dict(what='variance', n=2), **T))
    out.append(Inst('stdev[n=2]', h_stat, dict(what='stdev', n=2), **T))
    for n in (2, 3):
        out.append(Inst(f'mean_fxp[8:4,n={n}]', h_stat, dict(what='mean_fxp', n=n), **T))
    out.append(Inst('covariance[n=2]', h_stat, dict(what='covariance', n=2), **T))
    for n in (2,):
        out.append(Inst(f'pvariance[n={n}]', h_stat, dict(what='pvariance', n=n), **T))
        out.append(Inst(f'pstdev[n={n}]', h_stat, dict(what='pstdev', n=n), **T))
    # variance of three points divides by 18 (secure floor division by a non-power of two): the exploration did not finish within 1800 s
    out.append(Inst('errors_and_plain_data', h_errors, {}, timeout=600))
    out.append(Inst('twin_median_low_is_max', h_twin, {}, twin=True, expect='violated', timeout=900))
    return out
