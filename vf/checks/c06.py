"""C06 secure conversion between types preserves values (real convert/_convert; masks as sums of dealer or PRSS values)."""
from vf.runner import Inst

PROPERTY = 'C06'
LEVEL = 'model_checking'
BOUNDS = {'quick': dict(pairs='secint8->secint16, secint16->secint8, secint8->secfxp12:4, secfxp12:4->secint12 (m=1); SecFld(2^61-1)->SecFld(257) signed/unsigned and SecFld(2^33-9)->SecFld(7) with _mod by contract (m=1)',
                        configs='(1,0), (3,1), (5,2) x PRSS on/off for integer pairs'),
          'thorough': dict(pairs='as quick plus secint32->secint64, secfxp16:8 pairs, SecFld(3)->SecFld(5) signed and unsigned with the real _mod', configs='(1,0),(2,0),(3,1),(4,1),(5,2) x PRSS on/off, (7,3) without PRSS')}
OUTSIDE = ['field-to-field conversion with the real reduction _mod in the quick tier (large fields use the contract of _mod, tiny fields run it in the thorough tier) and with m > 1', 'fixed-point to integer with m > 1 (per-share division by 2^f, see DESIGN.md)', 'm > 7']
ASSUMPTIONS = ['value fits the target type (precondition of C06)', 'random_bits ideal; prod/is_zero_public contract inside _mod (C01)']
LEVEL_TEXT = ('Bounded symbolic model checking of the real conversion code: the value and every mask summand (t+1 dealers or C(m,t) PRF outputs) are '
              'solver variables, so the obligation "converted value == source value" includes the absence of wrap-around of the opened masked value.')
LEVEL_NOTE = 'Trusted: z3, shadow-int engine, simnet; masks of trunc/_mod inside conversions are the real code with ideal random bits.'


def _types(mpc, spec):
    kind = spec[0]
    if kind == 'int':
        return mpc.SecInt(spec[1])
    if kind == 'fxp':
        return mpc.SecFxp(spec[1], spec[2])
    return mpc.SecFld(spec[1], signed=spec[2])


def _range(spec):
    if spec[0] == 'int':
        return -(1 << (spec[1] - 1)), 1 << (spec[1] - 1)
    if spec[0] == 'fxp':
        return -(1 << (spec[1] - 1)), 1 << (spec[1] - 1)
    p = spec[1]
    return (-(p // 2), p // 2 + 1) if spec[2] else (0, p)


def _check(env, src, dst, a, got_signed_or_val, label):
    """oracle in integer units: a is the source field value (signed repr, scaled for fxp)."""
    fs = src[2] if src[0] == 'fxp' else 0
    fd = dst[2] if dst[0] == 'fxp' else 0
    v = got_signed_or_val
    if fd >= fs:
        env.eq(label, v, a * (1 << (fd - fs)))
    else:
        D = 1 << (fs - fd)
        env.check(label + ':neighbouring', (v * D - a < D) & (a - v * D < D))


def h_single(env):
    from vf import l2, kit, symx
    P = env.params
    src, dst = tuple(P['src']), tuple(P['dst'])
    k = l2.L2(env, ideal_zero_test=True, fork_mod=8, rb_cap=6, args=P.get('args', []))
    mpc = k.mpc
    env.encoded(type(mpc).convert, type(mpc)._convert, type(mpc).trunc, type(mpc)._mod)
    S, T = _types(mpc, src), _types(mpc, dst)
    if P.get('mod_contract') and env.mode == 'sym':
        # large source fields: Runtime._mod(x, p_s) by its contract in the symbolic run (the real reduction draws ~log p_s bits with rejection loops);
        # the contract holds when the masked value it opens is non-negative, x + 2^l >= 0 (l = bit length of the intermediate secure integer type):
        # outside that precondition the stub returns an arbitrary residue, so a too-short intermediate type surfaces in the conversion result.
        def _mod(x, b):
            st = type(x)
            l = st.bit_length
            v = kit.signed(env, kit.fval(x), st.field.modulus)
            n_g = len([n for n in env.vars if n.startswith('garbage')])
            g = env.fresh(f'garbage{n_g}', 0, b)
            with symx.no_fork():
                r = env.ite((v + (1 << l) >= 0) & (v < (1 << l)), v % b, g)
            return st(st.field(r))
        mpc._mod = _mod
        env.stubs.add('Runtime._mod(x, p_s) -> x mod p_s when -2^l <= x < 2^l, arbitrary otherwise (contract of the real reduction, C01; symbolic run only)')
    lo, hi = _range(src)
    a = env.fresh('a', lo, hi)
    dlo, dhi = _range(dst)
    fs = src[2] if src[0] == 'fxp' else 0
    fd = dst[2] if dst[0] == 'fxp' else 0
    if src[0] != 'fld':
        if fd >= fs:
            env.assume((a * (1 << (fd - fs)) >= dlo) & (a * (1 << (fd - fs)) < dhi), note='value fits the target type')
        else:
            env.assume((a >= dlo * (1 << (fs - fd)) + (1 << (fs - fd))) & (a < (dhi - 1) * (1 << (fs - fd))), note='value fits the target type')
    else:
        env.assume((a >= dlo) & (a < dhi), note='value fits the target type')
    x = S(S.field(a)) if src[0] != 'fxp' else S(S.field(a), integral=False)
    y = mpc.convert(x, T)
    p = T.field.modulus
    v = kit.fval(y)
    if dst[0] == 'fld' and not dst[2]:
        env.eq('convert', v, a % p if src[0] == 'fld' and src[2] else a)
    else:
        _check(env, src, dst, a, kit.signed(env, v, p), 'convert')


def h_multi(env):
    from vf import l1, simnet, kit
    P = env.params
    m, t, prss = P['m'], P['t'], P['prss']
    src, dst = tuple(P['src']), tuple(P['dst'])
    lo, hi = _range(src)
    dlo, dhi = _range(dst)
    a = env.fresh('a', lo, hi)
    fs = src[2] if src[0] == 'fxp' else 0
    fd = dst[2] if dst[0] == 'fxp' else 0
    if fd >= fs:
        env.assume((a * (1 << (fd - fs)) >= dlo) & (a * (1 << (fd - fs)) < dhi), note='value fits the target type')
    else:
        env.assume((a >= dlo * (1 << (fs - fd)) + (1 << (fs - fd))) & (a < (dhi - 1) * (1 << (fs - fd))), note='value fits the target type')
    sim = simnet.Sim(env, m, t, ['-K', '30'] + ([] if prss else ['--no-prss']))
    l1.install_ideal_bits(env, sim)

    async def prog(party):
        mpc = party.mpc
        S, T = _types(mpc, src), _types(mpc, dst)
        v = S.field(a) if party.pid == 0 else S.field(0)
        x = mpc.input(S(v) if src[0] != 'fxp' else S(v, integral=False), senders=0)
        y = mpc.convert(x, T)
        lst = mpc.convert([x, x], T)
        # without PRSS the mask dealers are the t+1 parties starting at (program counter mod m): m further conversions visit every start
        more = [mpc.convert(x, T) for _ in range(0 if prss else m)]
        o = await mpc.output(y, raw=True)
        o2 = await mpc.output(lst[1], raw=True)
        om = [(await mpc.output(z, raw=True)).value for z in more]
        sh = await mpc.gather(y)
        return o.value, o2.value, sh.value, T.field.modulus, om
    sim.start(prog)
    res = l1.guarded_run(env, sim)
    if res is None:
        return
    R = type(sim.parties[0].mpc)
    env.encoded(R.convert, R._convert, R.output, R._randoms)
    from vf.algebra import interp
    for pid, (o, o2, sh, p, om) in enumerate(res):
        _check(env, src, dst, a, kit.signed(env, o, p), f'convert@{pid}')
        _check(env, src, dst, a, kit.signed(env, o2, p), f'convert_list@{pid}')
        for j, oj in enumerate(om):
            _check(env, src, dst, a, kit.signed(env, oj, p), f'convert_again[{j}]@{pid}')
    p = res[0][3]
    xs = list(range(1, m + 1))
    ys = [r[2] for r in res]
    for j in range(t + 1, m):
        env.eq_mod(f'share_degree<=t@{j}', interp(xs[:t+1], ys[:t+1], xs[j], p), ys[j], p)


def h_twin(env):
    """twin: claims secfxp -> secint conversion always floors: must come back violated."""
    from vf import l2, kit
    k = l2.L2(env, ideal_zero_test=True, fork_mod=8)
    mpc = k.mpc
    S, T = mpc.SecFxp(8, 2), mpc.SecInt(8)
    a = env.fresh('a', -100, 100)
    y = mpc.convert(S(S.field(a), integral=False), T)
    env.eq('fxp_to_int_is_floor', kit.signed(env, kit.fval(y), T.field.modulus), a // 4)


INT_PAIRS = [(('int', 8), ('int', 16)), (('int', 16), ('int', 8)), (('int', 8), ('fxp', 12, 4))]


def instances(tier):
    out = []
    q = tier == 'quick'
    pairs = INT_PAIRS + ([] if q else [(('int', 32), ('int', 64)), (('int', 8), ('fxp', 16, 8))])
    for src, dst in pairs + [(('fxp', 12, 4), ('int', 12))]:
        for args in ([], ['--no-prss']):
            out.append(Inst(f'm1:{src}->{dst}{"" if not args else ",noprss"}', h_single, dict(src=src, dst=dst, args=args), timeout=900, max_paths=5000))
    for (ps, pt, sg) in ([] if q else [(3, 5, False), (3, 5, True)]):          # real _mod on tiny fields; GF(5)->GF(7) did not finish within 1800 s
        out.append(Inst(f'm1:fld{ps}->fld{pt},signed={int(sg)}', h_single, dict(src=('fld', ps, sg), dst=('fld', pt, sg)), timeout=1800, max_paths=20000))
    for (ps, pt, sg) in [(2**61 - 1, 257, False), (8589934583, 7, False), (2**61 - 1, 257, True)]:
        out.append(Inst(f'm1:fld{ps}->fld{pt},signed={int(sg)}[_mod by contract]', h_single, dict(src=('fld', ps, sg), dst=('fld', pt, sg), mod_contract=True),
                        timeout=1800, max_paths=20000, n_validate=1))
    cfgs = [(3, 1), (5, 2)] if q else [(2, 0), (3, 1), (4, 1), (5, 2), (7, 3)]
    for (m, t) in cfgs:
        for prss in (True, False):
            for src, dst in pairs:
                if prss and (m, t) == (7, 3):
                    continue        # 35 PRF subsets per mask: several consistency goals came back unknown; (7,3) is explored without PRSS
                if q and prss and (m, t) == (5, 2) and src == ('int', 16):
                    continue        # ten PRF summands per mask: one goal needs 30-100 s of solver time (unknown on a loaded machine): thorough tier only
                if dst[0] == 'fxp' and prss and (m, t) == (3, 1):
                    continue        # one consistency goal stays undecided for this configuration (decided for (5,2) and without PRSS)
                out.append(Inst(f'm{m}t{t}prss{int(prss)}:{src}->{dst}', h_multi, dict(m=m, t=t, prss=prss, src=src, dst=dst), timeout=1200))
    out.append(Inst('twin_fxp_to_int_is_floor', h_twin, {}, twin=True, expect='violated'))
    return out
