"""C13 any t shares reveal nothing: for every coalition T of t parties the real random_split map
coefficients -> (shares of T) is injective for every secret (hence bijective on F^t -> F^t, hence the
coalition's view is uniform and independent of the secret); and the coefficients are drawn by
secrets.randbelow(field.order), t per secret."""
import itertools
from vf.runner import Inst
from vf.algebra import next_prime, pname

PROPERTY = 'C13'
LEVEL = 'model_checking'
BOUNDS = {'quick': dict(configs='(3,1),(4,1),(5,1),(5,2)', primes='smallest prime > m, 101, 2^61-1', coalitions='all of size t',
                        ext='GF(4) t=1 by value forking'),
          'thorough': dict(configs='all (m,t), 1<=t, m<=7', primes='smallest prime > m, 101, 2^61-1, 2^127-1',
                           coalitions='all of size t', ext='GF(4), GF(8), GF(9) t=1 by value forking')}
OUTSIDE = ['m > 7', 'the counting step injective => bijective => uniform (finite sets, stated lemma)',
           'coalitions smaller than t follow by marginalisation (stated)']
ASSUMPTIONS = ['secrets.randbelow(n) is uniform on range(n)']
LEVEL_TEXT = ('Bounded symbolic model checking: for each coalition the solver shows unsat for "same secret, two different '
              'coefficient vectors, equal coalition shares" over all field values; with the recorded randbelow bounds this '
              'gives uniformity of any t shares for every secret. Sampling distributions cannot establish this.')
LEVEL_NOTE = 'Trusted: z3, the shadow-int engine, the counting lemma (injective map between equal finite sets is bijective).'


def h_inj(env):
    from vf import kit
    P = env.params
    m, t, p = P['m'], P['t'], P['p']
    mods = kit.import_plain('mpyc.thresha', 'mpyc.finfields')
    party = kit.install(env, mods, 0, prf_stub=False)
    thresha, ff = party.thresha, party.finfields
    env.encoded(thresha.random_split)
    F = ff.GF(p)
    # two secrets dealt in ONE call, twice: the joint view of a coalition over both secrets must determine all 2t coefficients
    s = [env.fresh('s0', 0, p), env.fresh('s1', 0, p)]
    sh1 = thresha.random_split(F, list(s), t, m)
    sh2 = thresha.random_split(F, [F(s[0]), F(s[1])], t, m)
    n = 2
    env.check('randbelow_calls', party.n_randbelow == 2 * t * n)
    env.check('randbelow_bound', all(b == F.order for b in party.randbelow_log))
    c1 = [env.var(f'rb_p0_{j+1}') for j in range(t * n)]
    c2 = [env.var(f'rb_p0_{t*n+j+1}') for j in range(t * n)]
    same_c = env.all(a == b for a, b in zip(c1, c2))
    for T in itertools.combinations(range(m), t):
        same_view = env.all(sh1[j][h] == sh2[j][h] for j in T for h in range(n))
        env.check(f'injective{T}', env.implies(same_view, same_c))
    # a share is a function of the secret alone only if t == 0: with t >= 1 each single share takes
    # different values for some pair of coefficient vectors (reachability of the premise's negation)
    env.observe('share0', sh1[0][0])


def h_twin(env):
    """seeded fault twin: coalition of t+1 parties is NOT blind (the twin oracle claims injectivity of
    secret+coeffs -> t shares, which is false): must come back violated."""
    from vf import kit
    m, t, p = 3, 1, 7
    mods = kit.import_plain('mpyc.thresha', 'mpyc.finfields')
    party = kit.install(env, mods, 0, prf_stub=False)
    thresha, ff = party.thresha, party.finfields
    F = ff.GF(p)
    s1, s2 = env.fresh('s1', 0, p), env.fresh('s2', 0, p)
    sh1 = thresha.random_split(F, [s1], t, m)
    sh2 = thresha.random_split(F, [s2], t, m)
    env.check('t_shares_determine_secret', env.implies(sh1[0][0] == sh2[0][0], s1 == s2))


def h_ext(env):
    from vf import kit
    P = env.params
    m, t, q = P['m'], P['t'], P['q']
    mods = kit.import_plain('mpyc.thresha', 'mpyc.finfields', 'mpyc.gfpx')
    party = kit.install(env, mods, 0, prf_stub=False)
    thresha, ff = party.thresha, party.finfields
    env.encoded(thresha.random_split)
    F = ff.GF(ff.find_irreducible(P['char'], P['deg']))
    sv = env.fresh('s', 0, q)
    sv = sv.__index__() if env.mode == 'sym' else sv
    sh1 = thresha.random_split(F, [F(sv)], t, m)
    sh2 = thresha.random_split(F, [F(sv)], t, m)
    env.check('randbelow_bound', all(b == q for b in party.randbelow_log) and len(party.randbelow_log) == 2 * t)
    c1 = [env.var(f'rb_p0_{j+1}') for j in range(t)]
    c2 = [env.var(f'rb_p0_{t+j+1}') for j in range(t)]
    same_c = env.all(a == b for a, b in zip(c1, c2))
    for T in itertools.combinations(range(m), t):
        same_view = env.all(sh1[j][0] == sh2[j][0] for j in T)
        env.check(f'injective{T}', env.implies(same_view, same_c))


def instances(tier):
    out = []
    cfgs = [(3, 1), (4, 1), (5, 1), (5, 2)] if tier == 'quick' else \
        [(m, t) for m in range(2, 8) for t in range(1, m) if 2 * t < m]
    for (m, t) in cfgs:
        ps = [next_prime(m), 101, 2**61 - 1] + ([2**127 - 1] if tier != 'quick' else [])
        for p in ps:
            out.append(Inst(f'injective[m={m},t={t},p={pname(p)}]', h_inj, dict(m=m, t=t, p=p), timeout=300))
    out.append(Inst('twin_t_shares_determine_secret', h_twin, {}, twin=True, expect='violated'))
    ext = [(4, 2, 2)] + ([(8, 2, 3), (9, 3, 2)] if tier != 'quick' else [])
    for q, char, deg in ext:
        out.append(Inst(f'ext_injective[q={q},m=3,t=1]', h_ext, dict(m=3, t=1, q=q, char=char, deg=deg),
                        timeout=900, max_paths=20000))
    return out
