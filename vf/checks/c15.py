"""C15 PRSS consistency: real thresha.pseudorandom_share / pseudorandom_share_zero / _f_S_i and Runtime-style
key assignment; one solver variable per (subset key, input, index)."""
import itertools
from vf.runner import Inst
from vf.algebra import next_prime, pname, interp

PROPERTY = 'C15'
LEVEL = 'model_checking'
BOUNDS = {'quick': dict(configs='all (m,t), m<=5, 2t<m (also non-maximal t)', primes='smallest prime > m, 101, 2^61-1', batch=2,
                        prf_bound='field order, and 2^10 (small masks)', ext_fields='GF(8), GF(9) with (m,t) in {(3,1),(5,2),(6,2)}: unit PRF outputs (one subset, one index, every non-zero value)'),
          'thorough': dict(configs='all (m,t), m<=7, 2t<m', primes='smallest prime > m, 101, 2^61-1, 2^127-1', batch=3,
                           prf_bound='field order, and 2^10')}
OUTSIDE = ['m > 7', 'extension fields beyond GF(8), GF(9) (GF(16) in the thorough tier), where one PRF output at a time is non-zero (linearity in the PRF outputs is by inspection)', 'NumPy variants (C37)', 'the PRF itself (C17): outputs are arbitrary values in range(bound), equal for equal key and input']
ASSUMPTIONS = ['PRF contract: deterministic function of (key, input), outputs in range(bound) (C17)']
LEVEL_TEXT = ('Bounded symbolic model checking of the real PRSS code: each subset PRF output is a solver variable shared by all '
              'members; obligations (Lagrange conditions computed by an independent oracle) state that the m parties\' '
              'shares lie on one polynomial of degree <= t with secret sum_S r_S, resp. degree <= 2t with secret 0.')
LEVEL_NOTE = 'Trusted: z3, the shadow-int engine, the independent Lagrange oracle in vf/algebra.py.'


def _setup(env):
    from vf import kit
    mods = kit.import_plain('mpyc.thresha', 'mpyc.finfields')
    party = kit.install(env, mods, 0)
    return party, party.thresha, party.finfields


def h_prss(env):
    P = env.params
    m, t, p, n, bound = P['m'], P['t'], P['p'], P['n'], P['bound']
    party, thresha, ff = _setup(env)
    env.encoded(thresha.pseudorandom_share, thresha.pseudorandom_share_zero, thresha._f_S_i.__wrapped__, thresha.recombine)
    F = ff.GF(p)
    bound = p if bound == 'order' else bound
    subsets = list(itertools.combinations(range(m), m - t))
    keys = {S: bytes([0x4b, k]) + bytes(14) for k, S in enumerate(subsets)}
    uci = b'\x07\x01'
    shares, zshares = [], []
    for i in range(m):
        prfs = {S: thresha.PRF(keys[S], bound) for S in subsets if i in S}
        shares.append([a.value for a in thresha.pseudorandom_share(F, m, i, prfs, uci, n)])
        prfs0 = {S: thresha.PRF(keys[S], p) for S in subsets if i in S}
        zshares.append([a.value for a in thresha.pseudorandom_share_zero(F, m, i, prfs0, uci, n)])
    xs = list(range(1, m + 1))
    for h in range(n):
        r = [env.var(f'prf_{keys[S].hex()[:8]}_{uci.hex()}_{bound}_{h}') if bound > 1 else 0 for S in subsets]
        secret = sum(r)
        ys = [shares[i][h] for i in range(m)]
        # degree <= t: the first t+1 shares determine all others and the secret
        env.eq_mod(f'secret[{h}]', interp(xs[:t+1], ys[:t+1], 0, p), secret, p)
        for j in range(t + 1, m):
            env.eq_mod(f'degree_t[{h},{j}]', interp(xs[:t+1], ys[:t+1], xs[j], p), ys[j], p)
        # any other t+1 subset gives the same secret (quick: two more subsets)
        others = list(itertools.combinations(range(m), t + 1))[1:]
        for T in (others if P['tier'] != 'quick' else others[-2:]):
            env.eq_mod(f'secret{T}[{h}]', interp([xs[i] for i in T], [ys[i] for i in T], 0, p), secret, p)
        zs = [zshares[i][h] for i in range(m)]
        d = 2 * t
        env.eq_mod(f'zero[{h}]', interp(xs[:d+1], zs[:d+1], 0, p), 0, p)
        for j in range(d + 1, m):
            env.eq_mod(f'degree_2t[{h},{j}]', interp(xs[:d+1], zs[:d+1], xs[j], p), zs[j], p)
        for i in range(m):
            env.check(f'reduced[{h},{i}]', (ys[i] >= 0) & (ys[i] < p) & (zs[i] >= 0) & (zs[i] < p))
    # deterministic: the same call again gives the same shares (same variables)
    i = m - 1
    prfs = {S: thresha.PRF(keys[S], bound) for S in subsets if i in S}
    again = thresha.pseudorandom_share(F, m, i, prfs, uci, n)
    env.eq('deterministic', again[0].value, shares[i][0])


def h_prss_ext(env):
    """extension fields: one PRF output (subset S, index j) takes an arbitrary field value, all others are 0 (value forks). The sharing code is
    GF(q)-linear in the PRF outputs (it only adds them and multiplies by constants), so these unit cases generate the general one."""
    import itertools as it
    P = env.params
    m, t, char, deg = P['m'], P['t'], P['char'], P['deg']
    from vf import kit
    mods = kit.import_plain('mpyc.thresha', 'mpyc.finfields', 'mpyc.gfpx')
    party = kit.install(env, mods, 0, prf_stub=False)
    thresha, ff = party.thresha, party.finfields
    env.encoded(thresha.pseudorandom_share, thresha.pseudorandom_share_zero, thresha._f_S_i.__wrapped__)
    F = ff.GF(ff.find_irreducible(char, deg))
    q = F.order
    subsets = list(it.combinations(range(m), m - t))
    d = t
    sel = env.fresh('subset', 0, len(subsets))
    idx = env.fresh('index', 0, max(d, 1))
    val = env.fresh('value', 1, q)
    sel, idx, val = (v.__index__() if env.mode == 'sym' else v for v in (sel, idx, val))

    class UnitPRF:
        def __init__(self, k):
            self.k = k

        def __call__(self, uci, n=None):
            n_ = 1 if n is None else n
            out = [val if (self.k == sel and j == idx) else 0 for j in range(n_)]
            return out[0] if n is None else out
    xs = [F(i + 1) for i in range(m)]

    def interp0(points):
        """value at 0 of the polynomial through the points (library field arithmetic, C20)"""
        tot = F(0)
        for a, (xa, ya) in enumerate(points):
            lam = F(1)
            for b, (xb, _) in enumerate(points):
                if a != b:
                    lam = lam * xb / (xb - xa)
            tot = tot + lam * ya
        return tot

    def interp_at(points, x):
        tot = F(0)
        for a, (xa, ya) in enumerate(points):
            lam = F(1)
            for b, (xb, _) in enumerate(points):
                if a != b:
                    lam = lam * (x - xb) / (xa - xb)
            tot = tot + lam * ya
        return tot
    ys, zs = [], []
    for i in range(m):
        prfs = {frozenset(S): UnitPRF(k_) for k_, S in enumerate(subsets) if i in S}
        ys.append(thresha.pseudorandom_share(F, m, i, prfs, b'u', 1)[0])
        zs.append(thresha.pseudorandom_share_zero(F, m, i, prfs, b'u', 1)[0])
    pts = list(zip(xs, ys))
    secret = F(val) if idx == 0 else F(0)          # pseudorandom_share asks each PRF for one value (index 0)
    env.check('secret', interp0(pts[:t + 1]) == secret)
    for j in range(t + 1, m):
        env.check(f'degree_t[{j}]', interp_at(pts[:t + 1], xs[j]) == ys[j])
    zpts = list(zip(xs, zs))
    env.check('zero', interp0(zpts[:2 * t + 1]) == F(0))
    for j in range(2 * t + 1, m):
        env.check(f'degree_2t[{j}]', interp_at(zpts[:2 * t + 1], xs[j]) == zs[j])
    env.check('zero_sharing_not_trivial', any(z != F(0) for z in zs) or d == 0)
    z = env.fresh('z', 0, 2)
    env.check('marker', z >= 0)


def h_twin(env):
    """twin: zero-sharing claimed to have degree <= t (false for t >= 1): must come back violated."""
    m, t, p = 3, 1, 101
    party, thresha, ff = _setup(env)
    F = ff.GF(p)
    subsets = list(itertools.combinations(range(m), m - t))
    keys = {S: bytes([0x4b, k]) + bytes(14) for k, S in enumerate(subsets)}
    zs = []
    for i in range(m):
        prfs0 = {S: thresha.PRF(keys[S], p) for S in subsets if i in S}
        zs.append(thresha.pseudorandom_share_zero(F, m, i, prfs0, b'\x01', 1)[0].value)
    env.eq_mod('zero_degree_t', interp([1, 2], zs[:2], 3, p), zs[2], p)


def instances(tier):
    out = []
    mm = 5 if tier == 'quick' else 7
    for m in range(1, mm + 1):
        for t in range(0, m):
            if 2 * t >= m:
                continue
            ps = [next_prime(m), 101, 2**61 - 1] + ([2**127 - 1] if tier != 'quick' else [])
            for p in ps:
                for bound in (['order'] if p != 101 else ['order', 1024]):
                    if bound != 'order' and bound > p:
                        pass
                    out.append(Inst(f'prss[m={m},t={t},p={pname(p)},bound={bound}]', h_prss,
                                    dict(m=m, t=t, p=p, n=2 if tier == 'quick' else 3, bound=bound), timeout=300))
    for (char, deg) in ((2, 3), (3, 2)) if tier == 'quick' else ((2, 3), (3, 2), (2, 4)):
        for (m_, t_) in ((3, 1), (5, 2), (6, 2)):
            if char ** deg <= m_:
                continue
            out.append(Inst(f'prss_ext[GF({char}^{deg}),m={m_},t={t_}]', h_prss_ext, dict(m=m_, t=t_, char=char, deg=deg), timeout=900, max_paths=20000))
    out.append(Inst('twin_zero_degree_t', h_twin, {}, twin=True, expect='violated'))
    return out
