"""C03 fixed-point integrality flags are never wrong: one inductive step per operation from an arbitrary valid pre-state
(operands arbitrary field values with symbolic flags, flag => value is a multiple of 2^f), real code at m=1."""
from vf.runner import Inst

PROPERTY = 'C03'
LEVEL = 'model_checking'
BOUNDS = {'quick': dict(type='SecFxp(8,4)', ops='add sub neg pos mul(sec,int,float) lshift scalar_mul schur_prod in_prod prod sum if_else if_swap (scalar and list) trunc '
                        'vector_add vector_sub, constructor inference for int/float, sgn/lsb results'),
          'thorough': dict(type='SecFxp(8,4), SecFxp(12,6)', ops='as quick plus matrix_prod, _convert, find, argmin')}
OUTSIDE = ['programs are covered by induction over the per-operation step: a wrong pre-state cannot arise if every step preserves the invariant',
           'parties passing different public flags for the same value (API precondition)']
ASSUMPTIONS = ['all parties pass the same public flag for a value', 'random_bits ideal']
LEVEL_TEXT = ('One symbolic step per operation from an arbitrary pre-state satisfying the invariant (flag => whole number): obligations are '
              '(1) result flag => result value is a multiple of 2^f, (2) with truthful flags the result still meets its accuracy bound (the '
              'skipped-truncation shortcut is an exact division), (3) the operands (value and flag) are unchanged by the operation. '
              'Histories of any length follow by induction.')
LEVEL_NOTE = 'Trusted: z3, shadow-int engine; flags are explored as path forks (both truth values of every operand flag).'


def _setup(env, l, f):
    from vf import l2
    k = l2.L2(env, ideal_zero_test=True)
    return k, k.mpc.SecFxp(l, f)


def _operand(env, k, secfxp, name, small=False):
    """arbitrary value with an arbitrary flag satisfying the invariant."""
    l, f = secfxp.bit_length, secfxp.frac_length
    h = 1 << ((l - 1) // (2 if small else 1))
    v = env.fresh(name, -h, h)
    fl = env.fresh(name + '_int', 0, 2)
    flag = (fl.__index__() == 1) if env.mode == 'sym' else (fl == 1)
    if flag:
        env.assume(v % (1 << f) == 0, note='invariant of the pre-state: flag => whole number')
    x = secfxp(secfxp.field(v), integral=flag)
    return v, flag, x


def _flag_ok(env, k, label, z, F):
    fl = z.integral
    v = k.sval(z)
    if fl:
        env.check(f'{label}:flag=>whole', v % F == 0)
    return v


def _unchanged(env, k, label, x, v, flag):
    env.check(f'{label}:operand_value_unchanged', k.sval(x) == v)
    env.check(f'{label}:operand_flag_unchanged', x.integral == flag)


def h_op(env):
    P = env.params
    l, f, op = P['l'], P['f'], P['op']
    k, secfxp = _setup(env, l, f)
    mpc = k.mpc
    F = 1 << f
    h = 1 << (l - 1)
    a, fa, x = _operand(env, k, secfxp, 'a', small=True)
    b, fb, y = _operand(env, k, secfxp, 'b', small=True)
    within = lambda z, exact: (z * F - exact < F) & (exact - z * F < F)
    if op == 'add':
        z = x + y
        env.eq('add:value', _flag_ok(env, k, 'add', z, F), a + b)
    elif op == 'sub':
        z = x - y
        env.eq('sub:value', _flag_ok(env, k, 'sub', z, F), a - b)
    elif op == 'neg':
        z = -x
        env.eq('neg:value', _flag_ok(env, k, 'neg', z, F), -a)
        env.eq('pos:value', _flag_ok(env, k, 'pos', +x, F), a)
    elif op == 'mul':
        z = x * y
        env.check('mul:value', within(_flag_ok(env, k, 'mul', z, F), a * b))
        if fa or fb:
            env.eq('mul:exact_with_integral_operand', k.sval(z) * F, a * b)
    elif op == 'mul_int':
        z = x * 3
        env.eq('mul_int:value', _flag_ok(env, k, 'mul_int', z, F), 3 * a)
    elif op == 'mul_float':
        for c in (0.75, 2.0, 1.5):
            z = x * c
            env.check(f'mul_float{c}:value', within(_flag_ok(env, k, f'mul_float{c}', z, F), a * round(c * F)))
    elif op == 'lshift':
        for s in (1, f, f + 1):
            z = x << s
            if s <= 2:
                env.eq(f'lshift{s}:value', _flag_ok(env, k, f'lshift{s}', z, F), a * (1 << s))
            else:
                _flag_ok(env, k, f'lshift{s}', z, F)
    elif op == 'scalar_mul':
        zs = mpc.scalar_mul(x, [y])
        env.check('scalar_mul:value', within(_flag_ok(env, k, 'scalar_mul', zs[0], F), a * b))
    elif op == 'schur_prod':
        zs = mpc.schur_prod([x], [y])
        env.check('schur_prod:value', within(_flag_ok(env, k, 'schur_prod', zs[0], F), a * b))
    elif op == 'in_prod':
        z = mpc.in_prod([x, y], [y, x])
        env.check('in_prod:value', within(_flag_ok(env, k, 'in_prod', z, F), 2 * a * b) | within(k.sval(z) - 1, 2 * a * b) | within(k.sval(z) + 1, 2 * a * b))
    elif op == 'prod':
        k.mpc.prod = type(k.mpc).prod.__get__(k.mpc)      # the real prod (the zero-test contract replaced it)
        z = mpc.prod([x, y])
        env.check('prod:value', within(_flag_ok(env, k, 'prod', z, F), a * b))
    elif op == 'sum':
        z = mpc.sum([x, y, x])
        env.eq('sum:value', _flag_ok(env, k, 'sum', z, F), 2 * a + b)
    elif op == 'vector':
        z = mpc.vector_add([x, y], [y, y])
        env.eq('vector_add:value', _flag_ok(env, k, 'vector_add0', z[0], F), a + b)
        _flag_ok(env, k, 'vector_add1', z[1], F)
        w = mpc.vector_sub([x, y], [y, x])
        env.eq('vector_sub:value', _flag_ok(env, k, 'vector_sub0', w[0], F), a - b)
    elif op in ('if_else', 'if_swap', 'if_else_list', 'if_swap_list'):
        cbit = env.fresh('c', 0, 2)
        c = secfxp(secfxp.field(cbit * F), integral=True)
        if op == 'if_else':
            z = mpc.if_else(c, x, y)
            env.eq('if_else:value', _flag_ok(env, k, 'if_else', z, F), cbit * (a - b) + b)
        elif op == 'if_swap':
            u, w = mpc.if_swap(c, x, y)
            env.eq('if_swap:u', _flag_ok(env, k, 'if_swap.u', u, F), cbit * (b - a) + a)
            env.eq('if_swap:w', _flag_ok(env, k, 'if_swap.w', w, F), cbit * (a - b) + b)
        elif op == 'if_else_list':
            z = mpc.if_else(c, [x, y], [y, x])
            env.eq('if_else_list:value', _flag_ok(env, k, 'if_else_list', z[0], F), cbit * (a - b) + b)
            _flag_ok(env, k, 'if_else_list1', z[1], F)
        else:
            u, w = mpc.if_swap(c, [x, y], [y, x])
            env.eq('if_swap_list:u0', _flag_ok(env, k, 'if_swap_list.u0', u[0], F), cbit * (b - a) + a)
            env.eq('if_swap_list:w0', _flag_ok(env, k, 'if_swap_list.w0', w[0], F), cbit * (a - b) + b)
        _unchanged(env, k, op + ':condition', c, cbit * F, True)
    elif op == 'trunc':
        # public truncation / right shift of a fixed-point number: x / 2^s is in general not whole, whatever the flag of x
        for s_ in (1, 2):
            z = mpc.trunc(x, f=s_)
            v = _flag_ok(env, k, f'trunc{s_}', z, F)
            env.check(f'trunc{s_}:value', (v * (1 << s_) - a < (1 << s_)) & (a - v * (1 << s_) < (1 << s_)))
        zs = mpc.trunc([x, y], f=1)
        _flag_ok(env, k, 'trunc_list0', zs[0], F)
        _flag_ok(env, k, 'trunc_list1', zs[1], F)
    elif op == 'constructor':
        for val, want_int in ((3, True), (2.0, True), (2.5, False), (-0.0625, False)):
            z = secfxp(val)
            env.check(f'ctor[{val}]:flag', z.integral == want_int)
            env.check(f'ctor[{val}]:value', k.sval(z) == round(val * F))
        z = secfxp(2.5, integral=False)
        env.check('ctor_explicit_false', z.integral is False)
    elif op == 'bits':
        from vf import symx
        # lsb of a fixed-point number is the least significant bit of its scaled representation (unit 2^-f), returned as 0.0 / 1.0
        z = mpc.lsb(x)
        env.check('lsb:flag', z.integral is True)
        with symx.no_fork():
            env.eq('lsb:value', k.sval(z), (a % 2) * F)
    if op not in ('constructor',):
        _unchanged(env, k, op + ':a', x, a, fa)
        _unchanged(env, k, op + ':b', y, b, fb)


def h_twin(env):
    """twin: claims the sum of a flagged and an unflagged value is flagged whole: must come back violated."""
    k, secfxp = _setup(env, 8, 4)
    a = env.fresh('a', -128, 128)
    b = env.fresh('b', -128, 128)
    env.assume(a % 16 == 0)
    z = secfxp(secfxp.field(a), integral=True) + secfxp(secfxp.field(b), integral=False)
    env.check('sum_is_whole', k.sval(z) % 16 == 0)


OPS = ['add', 'sub', 'neg', 'mul', 'mul_int', 'mul_float', 'lshift', 'scalar_mul', 'schur_prod', 'in_prod', 'prod', 'sum', 'vector',
       'if_else', 'if_swap', 'if_else_list', 'if_swap_list', 'trunc', 'constructor', 'bits']


def instances(tier):
    out = []
    for (l, f) in ([(8, 4)] if tier == 'quick' else [(8, 4), (12, 6)]):
        for op in OPS:
            out.append(Inst(f'{op}[{l}:{f}]', h_op, dict(l=l, f=f, op=op), timeout=1200, goal_timeout_ms=120000))
    out.append(Inst('twin_sum_is_whole', h_twin, {}, twin=True, expect='violated'))
    return out
