"""C11 share consistency: in runs of the real m-party runtime every party's own share of inputs, products,
reshared values, PRSS/dealer randomness lies on one degree-<=t polynomial whose constant term is the value."""
from vf.runner import Inst
from vf import l1

PROPERTY = 'C11'
LEVEL = 'model_checking'
ENGINE = 'simnet'
BOUNDS = {'quick': dict(configs='(2,0),(3,1),(4,1),(5,2) x PRSS on/off', programs=sorted(l1.CORPUS), l=l1.L, k=30,
                        note='prod3/pow3 (two resharing rounds) only for m<=3'),
          'thorough': dict(configs='(2,0),(3,0),(3,1),(4,1),(5,1),(5,2),(6,2),(7,3) x PRSS on/off', programs=sorted(l1.CORPUS), l=l1.L, k=30)}
OUTSIDE = ['programs outside the corpus (each operation of the corpus is also checked as its own program, compositions of depth >= 2 '
           'only for m <= 3)', 'm > 7', 'schedules other than the canonical one (C08)']
ASSUMPTIONS = ['PRF contract (C17)', 'serialisation round trip (C22)', 'hash labels of one run are distinct (C09)']
LEVEL_TEXT = ('Bounded symbolic model checking of the real Runtime (start, input, mul, _reshare, in_prod, prod, PRSS, output, '
              'shutdown) for m parties in one process: inputs, every dealer coefficient and every PRF output are solver variables; '
              'obligations are the Lagrange conditions on the m own-share terms and "constant term == plain value".')
LEVEL_NOTE = 'Trusted: z3, shadow-int engine, simnet transports (validated against concrete replays), independent Lagrange oracle.'
PROGRAMS = ['zero_share', 'mul_add', 'linear', 'in_prod', 'prod3', 'pow3', 'vec', 'matrix', 'select', 'allany', 'randoms']


def h(env):
    P = env.params
    run = l1.run_program(env, P['m'], P['t'], P['prss'], P['prog'])
    l1.assert_sharing(env, run, P['t'])
    # the opened value of each consistent sharing is what every party reconstructs
    l1.assert_outputs(env, run)


def h_twin(env):
    """twin: claim degree <= t for the un-reshared product of two shares (degree 2t): must be violated."""
    from vf.algebra import interp
    run = l1.run_program(env, 3, 1, True, 'mul_add')
    p = run['p']
    ys = [run['results'][i]['s_a'][1] * run['results'][i]['s_a'][1] for i in range(3)]
    env.eq_mod('unreshared_product_degree_t', interp([1, 2], ys[:2], 3, p), ys[2], p)


def instances(tier):
    cfgs = [(2, 0), (3, 1), (4, 1), (5, 2)] if tier == 'quick' else [(2, 0), (3, 0), (3, 1), (4, 1), (5, 1), (5, 2), (6, 2), (7, 3)]
    out = []
    for (m, t) in cfgs:
        for prss in (True, False):
            for prog in PROGRAMS:
                if prog in ('prod3', 'pow3', 'allany') and m > 3:
                    continue
                if tier == 'quick' and m >= 4 and prog in ('matrix', 'vec', 'linear', 'select'):
                    continue
                out.append(Inst(f'{prog}[m={m},t={t},prss={int(prss)}]', h, dict(m=m, t=t, prss=prss, prog=prog), timeout=600))
    out.append(Inst('twin_unreshared_product', h_twin, {}, twin=True, expect='violated'))
    return out
