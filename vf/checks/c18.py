"""C18 values opened inside protocols are statistically masked -- sufficient conditions decided on the symbolic opened terms of
the real protocols (additive masks: exact integer decomposition secret part + mask part, no wrap, mask entropy >= k bits beyond the
secret's range; multiplicative blinding: injective on F*), plus uniqueness of PRF inputs per key in multi-party runs."""
from vf.runner import Inst

PROPERTY = 'C18'
LEVEL = 'model_checking'
BOUNDS = {'quick': dict(sites='sgn/lt (l=4), lsb (l=4), trunc (secfxp 8:4), to_bits (l=4, all bits and 2 bits), trailing_zeros (l=4), convert int8->int16 / int16->int8, '
                              'mod 3 (l=4), is_zero_public (large-field regime), reciprocal over GF(2^61-1), _is_zero (k=8 openings; SecInt(18) and GF(23))', k='security parameter 30 (and 8 for the bound check)',
                        prf='m=3,t=1 PRSS: random_bits, _randoms with bound, is_zero_public (small field), trunc, convert: no (key, input) pair evaluated twice'),
          'thorough': dict(sites='as quick with l in {4,6}', prf='as quick plus m=5,t=2')}
OUTSIDE = ['the statistical-distance computation itself (smudging lemma: a value of range < 2^a masked by a uniform value of range 2^(a+k) is within 2^-k of uniform; cited, not derived)',
           'views consisting of shares (C13, C14)', 'NumPy variants', 'secure floating point']
ASSUMPTIONS = ['random_bits ideal (uniform independent bits), PRF outputs uniform on [0,bound) and independent for distinct (key, input) pairs',
               'the multiplicative mask is non-zero (documented "with high probability")']
RULE = ('Per opening site reached on a path, with c the opened term before reduction mod p: (A1) 0 <= c < p (no wrap); (A2) c(s,rho) - c(s\',rho) = c(s,rho\') - c(s\',rho\') '
        '(the secret part and the mask part are additively separated); (A3) the mask part is an injective function of the mask variables onto an interval of length N = product of '
        'their ranges; (A4) N >= 2^k * (range of the secret part). For multiplicative blinding c = a*r: (M1) r -> a*r injective on F* for a != 0, (M2) c == 0 iff a == 0.')
LEVEL_TEXT = ('Bounded symbolic model checking of the real protocols at m=1 with every mask symbolic: the sufficient masking conditions (A1)-(A4) / (M1)-(M2) are z3 obligations on '
              'the opened terms; the coalition-level condition "independent PRF values for every pseudorandom sharing" is checked as uniqueness of PRF inputs per key in symbolic '
              'multi-party runs.')
LEVEL_NOTE = 'Trusted: z3, shadow-int engine, the smudging lemma (cited). This is a sufficient condition for the stated distribution property, not a computation of distances.'


def _setup(env, **kw):
    from vf import l2
    k = l2.L2(env, **kw)
    opened = []
    snapshots = []
    env.c18_snapshots = snapshots
    mpc = k.mpc
    orig = mpc.output

    def output(x, *a, **kw2):
        from vf import kit
        xs = x if isinstance(x, list) else [x]
        for e in xs:
            try:
                v = kit.fval(e)
            except Exception:
                continue
            F = type(getattr(e, 'share', e)) if not hasattr(e, 'field') else type(e).field
            opened.append((v, getattr(F, 'modulus', None) if not hasattr(e, 'field') else type(e).field.modulus))
            snapshots.append(set(env.declared) if env.mode == 'sym' else set(env.vars))
        return orig(x, *a, **kw2)
    mpc.output = output
    return k, opened


def _conc_obligations(env, protocol, kbits, label):
    """replay on the real code: the model names four runs -- (s,rho), (s',rho), (s,rho'), (s',rho') -- whose actually opened field values
    must satisfy (A2) and (A3) modulo p; (A4) is recomputed from the mask ranges the code requested in these runs."""
    from vf.harness import Env
    base = dict(env.values)

    def run(sec2, mask2):
        vals = {}
        for n, v in base.items():
            if n.endswith('_s2') or n.endswith('_m2'):
                continue
            a_s, a_m = base.get(n + '_s2'), base.get(n + '_m2')
            vals[n] = a_s if (a_s is not None and sec2) else (a_m if (a_m is not None and mask2) else v)
        e2 = Env('conc', values=vals, seed=env.seed, params=env.params)
        opened, secrets = protocol(e2)
        Env.cur = env
        return opened, e2
    o00, e00 = run(False, False)
    # the model may leave the alternative secret unconstrained (equal to the first): use a neighbouring value so that the four runs differ
    for nm in SECRET_NAMES:
        if nm in e00.vars and base.get(nm + '_s2', base.get(nm)) == base.get(nm, e00.values.get(nm)):
            lo, hi = e00.vars[nm]
            v = e00.values[nm]
            base[nm] = v
            base[nm + '_s2'] = v + 1 if v + 1 < hi else v - 1
    o10, _ = run(True, False)
    o01, _ = run(False, True)
    o11, _ = run(True, True)
    n = 0
    used = set()
    for idx, ((c00, p), (c10, _), (c01, _), (c11, _)) in enumerate(zip(o00, o10, o01, o11)):
        if p is None or not isinstance(c00, int):
            continue
        if c10 == c00 and c11 == c01:
            continue            # does not vary with the secrets of the model: randomness-only opening (or no dependence to hide)
        masks = [nm for nm in e00.c18_snapshots[idx] if nm not in SECRET_NAMES and nm not in used and not nm.endswith('_s2') and not nm.endswith('_m2')]
        if not masks:
            continue
        used.update(masks)
        n += 1
        lab = f'{label}:open{idx}'
        env.check(f'{lab}:A2 secret and mask parts separate', (c10 - c00 - c11 + c01) % p == 0)
        same_masks = all(base.get(nm + '_m2', base.get(nm)) == base.get(nm) for nm in masks)
        env.check(f'{lab}:A3 mask part injective', (c01 - c00) % p != 0 or same_masks)
        N = 1
        for nm in masks:
            lo, hi = e00.vars[nm]
            N *= (hi - lo)
        # the secret part observed on the two secrets of the model: the mask space must exceed this observed spread by k-2 bits
        spread = max([e00.vars[nm][1] - e00.vars[nm][0] for nm in e00.vars if nm in SECRET_NAMES] or [1])     # range of the input secrets
        env.check(f'{lab}:A4 mask space * 4 >= 2^k * secret range', 4 * N >= (1 << kbits) * spread)
    return n


SECRET_NAMES = ('a', 'b')


def _masking_obligations(env, opened, secrets, kbits, label):
    """(A1)-(A4) for every additive opening logged; multiplicative ones are dispatched to (M1)/(M2)."""
    import z3
    from vf.symx import SymInt, _t, U as Uclass
    from vf.harness import _free_vars
    sec_names = {str(s.t) for s in secrets}
    n_add = 0
    used_masks = set()        # masks of earlier secret-dependent openings are on the secret side of later ones
    for idx, (c, p) in enumerate(opened):
        if not isinstance(c, SymInt) or p is None:
            continue
        u = c.cong[0] if (c.cong is not None and c.cong[1] == p) else None
        ut = u.t if u is not None else c.t
        names = {str(v) for v in _free_vars(ut)}
        # masks of this opening: the variables drawn since the previous opening; everything older (inputs, masks of earlier openings) is on the secret side
        masks = sorted(n for n in names if n not in sec_names and n in env.vars and n not in used_masks)
        sec_here = sorted(n for n in names if (n in sec_names or n in used_masks) and n in env.vars)
        if not masks:
            continue            # a public value (e.g. an already opened result): nothing to mask
        if not (names & sec_names):
            env.observe(f'{label}:open{idx}:randomness_only', len(masks))
            continue            # depends on fresh randomness only (public rejection tests of _randbelow): independent of every secret
        n_add += 1
        used_masks.update(masks)
        UT = SymInt(ut, None, None)
        lab = f'{label}:open{idx}'
        # (A1) no wrap
        env.check(f'{lab}:A1 no wrap mod p', (UT >= 0) & (UT < p))
        # (A2) additive separation
        sp = [(env.var(n), env.fresh(n + '_s2', *env.vars[n])) for n in sec_here]
        mp = [(env.var(n), env.fresh(n + '_m2', *env.vars[n])) for n in masks]
        # primed copies range over the values admitted by the public transcript of this path (e.g. accepted candidates of _randbelow)
        pc_m = env.pc_subst(mp)
        if sp:
            lhs = env.term_subst(UT, sp) - UT
            rhs = env.term_subst(env.term_subst(UT, sp), mp) - env.term_subst(UT, mp)
            env.check(f'{lab}:A2 secret and mask parts separate', lhs == rhs)
        # (A3) mask part injective and onto an interval of the size of the mask space
        R = UT - env.term_subst(UT, [(a, a.lo if False else env.vars[str(a.t)][0]) for a, _ in mp])     # U(rho) - U(rho_min)
        Rp = env.term_subst(UT, mp) - env.term_subst(env.term_subst(UT, mp), [(b, env.vars[str(a.t)][0]) for a, b in mp])
        same = env.all(a == b for a, b in mp)
        env.check(f'{lab}:A3 mask part injective', env.implies(env.all([pc_m, env.term_subst(UT, mp) == UT]), same))
        N = 1
        for n in masks:
            lo, hi = env.vars[n]
            N *= (hi - lo)
        # (A4) entropy: the mask space exceeds the range of the secret part by k bits ("about 2^-k": a slack factor 4 is allowed).
        # The range of the secret part is the smallest power of two S with |D(s') - D(s)| < S for all s, s' (found with the solver).
        S = 1
        if sp:
            from vf.symx import Ctx, _b
            dl = env.term_subst(UT, sp) - UT
            ctx = Ctx.cur
            while S < (1 << 80):
                if ctx.check(z3.Not(_b((dl < S) & (dl > -S)))) == 'unsat':
                    break
                S *= 2
            env.check(f'{lab}:A4a secret part range < {S}', (dl < S) & (dl > -S))
        env.check(f'{lab}:A4 mask space * 4 >= 2^k * secret range', 4 * N >= (1 << kbits) * S)
    return n_add


def _protocol(env):
    P = env.params
    what, l, kbits = P['what'], P['l'], P.get('k', 30)
    fork = dict(fork_mod=1 << l) if what not in ('mod',) else {}
    k, opened = _setup(env, ideal_zero_test=True, k=kbits, **fork, **(dict(rb_cap=4, public_reciprocal=True) if what == 'mod' else {}))
    mpc = k.mpc
    R = type(mpc)
    env.encoded(R.sgn, R.lsb, R.trunc, R.to_bits, R.trailing_zeros, R._convert, R._mod)
    h = 1 << (l - 1)
    secrets = []

    def sec(name, st, lo=-h, hi=h, **kw):
        v = env.fresh(name, lo, hi)
        secrets.append(v)
        return v, st(st.field(v), **kw)
    if what == 'lt':
        st = mpc.SecInt(l)
        a, x = sec('a', st)
        b, y = sec('b', st)
        x < y
    elif what == 'lsb':
        st = mpc.SecInt(l)
        a, x = sec('a', st)
        mpc.lsb(x)
    elif what == 'trunc':
        st = mpc.SecFxp(8, 4)
        a, x = sec('a', st, -(1 << 11), 1 << 11, integral=False)
        mpc.trunc(x)
    elif what == 'to_bits':
        st = mpc.SecInt(l)
        a, x = sec('a', st)
        mpc.to_bits(x) if P.get('nb') is None else mpc.to_bits(x, P['nb'])
    elif what == 'tz':
        st = mpc.SecInt(l)
        a, x = sec('a', st)
        mpc.trailing_zeros(x)
    elif what == 'convert':
        src, dst = P['src'], P['dst']
        s_t = mpc.SecInt(src[1]) if src[0] == 'int' else mpc.SecFxp(src[1], src[2])
        d_t = mpc.SecInt(dst[1]) if dst[0] == 'int' else mpc.SecFxp(dst[1], dst[2])
        bits = min(src[1], dst[1]) - 1 + (src[2] if src[0] == 'fxp' else 0)
        a, x = sec('a', s_t, -(1 << bits), 1 << bits, **(dict(integral=False) if src[0] == 'fxp' else {}))
        mpc.convert(x, d_t)
    elif what == 'mod':
        st = mpc.SecInt(l)
        a, x = sec('a', st)
        x % P['b']
    return opened, secrets


def h_additive(env):
    P = env.params
    kbits = P.get('k', 30)
    if env.mode == 'conc':
        n = _conc_obligations(env, _protocol, kbits, P['what'])
        env.check('some_opening_analysed', n >= 1)
        return
    opened, secrets = _protocol(env)
    n = _masking_obligations(env, opened, secrets, kbits, P['what'])
    env.check('some_opening_analysed', n >= 1)


def h_multiplicative(env):
    """is_zero_public (large-field regime) and reciprocal: c = a * r."""
    P = env.params
    from vf import l1, kit
    what = P['what']
    k, opened = _setup(env, k=P.get('k', 30))
    mpc = k.mpc
    env.encoded(type(mpc).is_zero_public, type(mpc).reciprocal)
    if what == 'is_zero_public':
        st = mpc.SecInt(64)
        p = st.field.modulus
        a = env.fresh('a', -(1 << 63), 1 << 63)
        x = st(st.field(a))
        mpc.is_zero_public(x)
    else:
        st = mpc.SecFld(2**61 - 1)
        p = 2**61 - 1
        a = env.fresh('a', 0, p)
        x = st(st.field(a))
        k.cap_calls(mpc, '_random', 1, 'retry of the reciprocal mask loop')
        env.assume(a != 0)
        try:
            mpc.reciprocal(x)
        except Exception:
            raise
    env.check('one_opening', len(opened) >= 1)
    c, pp = opened[0]
    from vf.symx import SymInt
    from vf.harness import _free_vars
    masks = sorted(n for n in {str(v) for v in _free_vars(c.t)} | ({str(v) for v in _free_vars(c.cong[0].t)} if c.cong else set()) if n.startswith('prf_'))
    env.check('one_mask', len(masks) == 1)
    r = env.var(masks[0])
    env.check('mask_uniform_on_field', env.vars[masks[0]] == (0, p))
    r2 = env.fresh('r2', 0, p)
    l1.no_zero_divisors(env, a, r - r2, p)
    l1.no_zero_divisors(env, a, r, p)
    env.check('M0 opened value is a*r', (c - a * r) % p == 0)
    env.check('M1 injective in the mask for a != 0', env.implies(((a % p) != 0) & (((a * r - a * r2) % p) == 0), r == r2))
    env.check('M2 zero iff a zero (r != 0)', env.implies((r % p) != 0, (((a * r) % p) == 0) == ((a % p) == 0)))


class _Stop(Exception):
    pass


def _run_is_zero(env, pbits):
    """the real Runtime._is_zero up to (and including) its opening; returns (opened values, p, a, runtime kit)."""
    from vf import kit, l2
    P = env.params
    k = l2.L2(env, k=P.get('k', 8))
    mpc = k.mpc
    st = mpc.SecInt(P.get('l', 18)) if not P.get('fld') else mpc.SecFld(P['fld'])
    F = st.field
    p = F.modulus
    opened = []

    def output(x, *a, **kw):
        for e in x:
            opened.append(kit.fval(e))
        raise _Stop()
    mpc.output = output
    a = env.fresh('a', 1, p) if P.get('fld') else env.fresh('a', -(1 << (P.get('l', 18) - 1)), 1 << (P.get('l', 18) - 1))
    x = st(F(a))
    try:
        mpc._is_zero(x)
    except _Stop:
        pass
    return opened, p, a, k


def h_is_zero_prob(env):
    """Runtime._is_zero ([NO07] probabilistic zero test, used for bit lengths > 2k): each of the k opened values must be a*r_i + w_i with r_i a fresh
    uniform field element used in this opening only and w_i free of r_i: then, for a != 0, the k opened values are uniform and independent of a
    and of everything else; for a == 0 the result differs (up to 2^-k) from that of every non-zero a, so equal outputs mean both or neither are 0."""
    from vf import l1
    P = env.params
    kbits = P.get('k', 8)
    if env.mode == 'conc':
        from vf.harness import Env
        base = dict(env.values)

        def run(vals):
            e2 = Env('conc', values=vals, seed=env.seed, params=env.params)
            o, p, a, _ = _run_is_zero(e2, None)
            Env.cur = env
            return o, p, a, e2
        o0, p, a, e0 = run(base)
        env.check('k_openings', len(o0) == kbits)
        prfs = sorted(n for n in e0.vars if n.startswith('prf_'))
        r2 = base.get('r2', 1)
        dep = {}
        for n in prfs:
            v2 = dict(e0.values)
            v2[n] = r2 if r2 != e0.values[n] else (r2 + 1) % p
            o1, _, _, _ = run(v2)
            dep[n] = (v2[n], o1)
        for i in range(len(o0)):
            excl = [n for n in prfs if dep[n][1][i] != o0[i] and all(dep[n][1][j] == o0[j] for j in range(len(o0)) if j != i)]
            ok = [n for n in excl if e0.vars[n] == (0, p) and (dep[n][1][i] - o0[i] - a * (dep[n][0] - e0.values[n])) % p == 0]
            env.check(f'is_zero_prob:open{i}:Z0 some fresh uniform mask occurs in this opening only', bool(excl))
            env.check(f'is_zero_prob:open{i}:Z1 mask enters as a*r', bool(ok) or not excl)
        return
    import z3
    from vf.symx import SymInt, Ctx, _b
    from vf.harness import _free_vars
    opened, p, a, k = _run_is_zero(env, None)
    R = type(k.mpc)
    env.encoded(R._is_zero, R._randoms, R.schur_prod)
    env.check('k_openings', len(opened) == kbits)
    env.check('blum_prime', p % 4 == 3)

    def term(c):
        return SymInt(c.cong[0].t, None, None) if (isinstance(c, SymInt) and c.cong is not None and c.cong[1] == p) else c
    names = [{str(v) for v in _free_vars(term(c).t)} for c in opened]
    r2 = env.fresh('r2', 0, p)
    ctx = Ctx.cur
    for i, c in enumerate(opened):
        U = term(c)
        excl = sorted(n for n in names[i] if n.startswith('prf_') and all(n not in names[j] for j in range(len(opened)) if j != i))
        env.check(f'is_zero_prob:open{i}:Z0 some fresh uniform mask occurs in this opening only', bool(excl))
        if not excl:
            continue
        chosen = None
        goals = {}
        for n in excl:
            r = env.var(n)
            goals[n] = ((env.term_subst(U, [(r, r2)]) - U - a * (r2 - r)) % p == 0) & (env.vars[n] == (0, p))
            if ctx.check(z3.Not(_b(goals[n]))) == 'unsat':
                chosen = n
                break
        chosen = chosen or excl[-1]
        r = env.var(chosen)
        env.check(f'is_zero_prob:open{i}:Z1 mask enters as a*r', goals[chosen])
        l1.no_zero_divisors(env, a, r2 - r, p)
        env.check(f'is_zero_prob:open{i}:Z2 bijective in the mask for a != 0',
                  env.implies(((a % p) != 0) & (((env.term_subst(U, [(r, r2)]) - U) % p) == 0), r == r2))


def h_prf_unique(env):
    """multi-party PRSS runs: every PRF evaluation uses a fresh input for its key (pseudorandom sharings are independent)."""
    from vf import simnet, l1, kit
    P = env.params
    m, t, prog = P['m'], P['t'], P['prog']
    sim = simnet.Sim(env, m, t, ['-K', str(P.get('k', 30))])
    calls = {i: [] for i in range(m)}
    for party in sim.parties:
        th = party.thresha
        orig = th.PRF.__call__

        def call(self, s, n=None, _o=orig, _pid=party.pid):
            import sys
            calls[_pid].append((bytes(self.key), bytes(s), (sys._getframe(1).f_code.co_name, self.max, n)))
            return _o(self, s, n)
        th.PRF.__call__ = call
        if prog == 'random_bits':
            from vf.checks import c33
            c33._public_sqrt(env, party.finfields)
            c33._cap_uci(env, party.mpc, 2)
    if prog in ('trunc', 'convert', 'lsb'):
        l1.install_ideal_bits(env, sim)

    async def body(party):
        mpc = party.mpc
        if prog == 'random_bits':
            secfld = mpc.SecFld(7)
            bits = mpc.random_bits(secfld, 2)
            await mpc.gather(bits)
        elif prog == 'randoms':
            secint = mpc.SecInt(8)
            r1 = mpc._random(secint, 1 << 6)
            r2 = mpc._random(secint, 1 << 6)
            r3 = mpc._randoms(secint, 2)
            await mpc.gather(r1, r2, r3)
        elif prog == 'zero_small':
            secfld = mpc.SecFld(11)
            a = mpc.input(secfld(3), senders=0)
            orig = mpc._randoms
            cnt = [0]

            def _randoms(*a_, _o=orig, **kw):
                cnt[0] += 1
                if cnt[0] > 1:
                    env.cut('restart of the r*s != 0 loop')
                return _o(*a_, **kw)
            mpc._randoms = _randoms
            await mpc.is_zero_public(a)
        elif prog == 'lsb':
            secint = mpc.SecInt(4)
            a = mpc.input(secint(3), senders=0)
            await mpc.gather(mpc.lsb(a))
        elif prog == 'convert':
            a = mpc.input(mpc.SecInt(8)(5), senders=0)
            await mpc.gather(mpc.convert(a, mpc.SecInt(16)))
        return True
    sim.start(body)
    if env.mode == 'sym' and prog in ('lsb', 'trunc'):
        from vf import symx
        symx.FORK_MOD_MAX[0] = 1 << 4
    res = l1.guarded_run(env, sim)
    R = type(sim.parties[0].mpc)
    env.encoded(R.random_bits, R._randoms, R._prss_uci, sim.parties[0].thresha.pseudorandom_share, sim.parties[0].thresha.pseudorandom_share_zero)
    if res is None:
        return
    for pid in range(m):
        seen = {}
        ok = True
        dup = None
        for (key, s, use) in calls[pid]:
            # the same value may deliberately be drawn twice by the same routine with the same range (convert: one mask in two fields);
            # a PRF input shared by different routines or ranges correlates sharings that must be independent
            if (key, s) in seen and seen[(key, s)] != use:
                ok = False
                dup = (s.hex(), seen[(key, s)], use)
            seen[(key, s)] = use
        env.check(f'prf_inputs_unique@{pid}' + ('' if ok else f'[input {dup[0]} used for {dup[1]} and {dup[2]}]'), ok)
        env.check(f'prf_used@{pid}', len(calls[pid]) >= 1)
    z = env.fresh('z', 0, 2)
    env.check('marker', z >= 0)


def _twin_protocol(env):
    k, opened = _setup(env)
    mpc = k.mpc
    st = mpc.SecInt(4)
    a = env.fresh('a', -8, 8)
    r = env.fresh('bit_weakmask', 0, 1 << 8)
    mpc.output(st(st.field(a + 8 + r)))
    return opened, [a]


def h_twin(env):
    """twin: an opening whose mask has only 8 bits must fail (A4) for k=30."""
    if env.mode == 'conc':
        _conc_obligations(env, _twin_protocol, 30, 'twin')
        return
    opened, secrets = _twin_protocol(env)
    _masking_obligations(env, opened, secrets, 30, 'twin')


def instances(tier):
    q = tier == 'quick'
    out = []
    T = dict(timeout=1800, max_paths=20000, n_validate=0)
    for l in ((4,) if q else (4, 6)):
        out.append(Inst(f'sgn.lt[l={l}]', h_additive, dict(what='lt', l=l), **T))
        out.append(Inst(f'lsb[l={l}]', h_additive, dict(what='lsb', l=l), **T))
        out.append(Inst(f'to_bits[l={l},all]', h_additive, dict(what='to_bits', l=l, nb=None), **T))
        out.append(Inst(f'to_bits[l={l},nb=2]', h_additive, dict(what='to_bits', l=l, nb=2), **T))
        out.append(Inst(f'trailing_zeros[l={l}]', h_additive, dict(what='tz', l=l), **T))
    out.append(Inst('trunc[8:4]', h_additive, dict(what='trunc', l=4), **T))
    out.append(Inst('sgn.lt[l=4,k=8]', h_additive, dict(what='lt', l=4, k=8), **T))
    for src, dst in ((('int', 8), ('int', 16)), (('int', 16), ('int', 8))):
        out.append(Inst(f'convert[{src}->{dst}]', h_additive, dict(what='convert', l=4, src=list(src), dst=list(dst)), **T))
    out.append(Inst('mod3[l=4]', h_additive, dict(what='mod', l=4, b=3), **T))
    out.append(Inst('mod3[l=8]', h_additive, dict(what='mod', l=8, b=3), **T))
    out.append(Inst('mod5[l=12]', h_additive, dict(what='mod', l=12, b=5), **T))
    out.append(Inst('is_zero_public[large field]', h_multiplicative, dict(what='is_zero_public'), **T))
    out.append(Inst('reciprocal[GF(2^61-1)]', h_multiplicative, dict(what='reciprocal'), **T))
    out.append(Inst('is_zero_prob[SecInt(18),k=8]', h_is_zero_prob, dict(l=18, k=8), **T))
    out.append(Inst('is_zero_prob[GF(23),k=8]', h_is_zero_prob, dict(fld=23, k=8), **T))
    for (m, t) in ((3, 1),) if q else ((3, 1), (5, 2)):
        for prog in ('random_bits', 'randoms', 'zero_small', 'lsb', 'convert'):
            if (m, t) == (5, 2) and prog == 'random_bits':
                continue        # the square-root branch of random_bits with ten PRF subsets: a feasibility query came back unknown
            out.append(Inst(f'prf_unique[{prog},m={m},t={t}]', h_prf_unique, dict(m=m, t=t, prog=prog), **T))
    out.append(Inst('twin_weak_mask', h_twin, {}, twin=True, expect='violated'))
    return out
