"""C23 polynomials over GF(p): ring laws and the division algorithm (real gfpx.Polynomial code on symbolic coefficient lists;
paths fork where the code branches on coefficients; residual algebra decided by z3), binary vs generic representation for p=2."""
from vf.runner import Inst

PROPERTY = 'C23'
LEVEL = 'model_checking'
BOUNDS = {'quick': dict(fields='p in {3,5}: operands of degree <= 2 (ring ops) / <= 2 by <= 1..2 (division family); p=7 degree <= 1', powmod='exponents -1..4',
                        binary='p=2: all pairs of polynomials of degree <= 3 (value forks), BinaryPolynomial vs a list-based Polynomial subclass with p=2'),
          'thorough': dict(fields='p in {3,5,7}, degree <= 3 by <= 2 for ring laws and divmod; gcd / invert with degree sum <= 3 for p >= 5; powmod with base degree <= 1 for p >= 5 and <= 2 for p = 3', binary='degree <= 4')}
OUTSIDE = ['degrees and primes beyond the bounds', 'string parsing/printing (from_terms/to_terms)', 'performance-oriented paths for large p']
ASSUMPTIONS = ['gmpy.invert correct (C25)']
LEVEL_TEXT = ('Bounded symbolic model checking of the real list-based polynomial arithmetic: coefficients are solver variables, the explorer forks where the code tests a coefficient '
              '(zero stripping, carries, inverses); on every path the results are compared coefficientwise with an independent reference (convolution / evaluation) or with defining '
              'identities (a = q*b + r with deg r < deg b; gcd monic, dividing both and equal to s*a + t*b; s*a = 1 mod b; powmod vs repeated product); operands are never mutated.')
LEVEL_NOTE = 'Trusted: z3, shadow-int engine, the reference arithmetic in this file.'


def _load(env, p):
    from vf import kit
    mods = kit.import_plain('mpyc.gfpx', 'mpyc.gmpy')
    party = kit.install(env, mods, 0, prf_stub=False, rand_stub=False)
    gfpx = party.gfpx
    P = gfpx.GFpX(p)
    return gfpx, P


def _poly(env, name, p, deg):
    """coefficient list of exact degree deg (deg = -1: zero polynomial); leading coefficient non-zero."""
    cs = [env.fresh(f'{name}{i}', 0, p) for i in range(deg + 1)]
    if cs:
        env.assume(cs[-1] != 0, note='polynomial given by its exact degree: leading coefficient non-zero (degrees are enumerated)')
    return cs


# ---- reference arithmetic on coefficient lists (unreduced integers; comparisons are modulo p)

def r_add(a, b):
    n = max(len(a), len(b))
    return [(a[i] if i < len(a) else 0) + (b[i] if i < len(b) else 0) for i in range(n)]


def r_neg(a):
    return [-x for x in a]


def r_mul(a, b):
    if not a or not b:
        return []
    c = [0] * (len(a) + len(b) - 1)
    for i, x in enumerate(a):
        for j, y in enumerate(b):
            c[i + j] = c[i + j] + x * y
    return c


def _same(env, label, got, want, p):
    """got: normalised list from the code; want: unreduced reference list."""
    n = max(len(got), len(want))
    for i in range(n):
        g = got[i] if i < len(got) else 0
        w = want[i] if i < len(want) else 0
        env.check(f'{label}[{i}]', (g - w) % p == 0)
    for i, g in enumerate(got):
        env.check(f'{label}:reduced[{i}]', (g >= 0) & (g < p))
    if got:
        env.check(f'{label}:normalised', got[-1] != 0)


def _cong(env, label, u, v, p):
    """coefficientwise congruence of two unreduced lists"""
    n = max(len(u), len(v))
    for i in range(n):
        x = u[i] if i < len(u) else 0
        y = v[i] if i < len(v) else 0
        env.check(f'{label}[{i}]', (x - y) % p == 0)


def _unchanged(env, label, lst, orig):
    env.check(f'{label}:operand_length_unchanged', len(lst) == len(orig))
    for i, (x, y) in enumerate(zip(lst, orig)):
        env.check(f'{label}:operand_unchanged[{i}]', x == y)


def h_ring(env):
    P_ = env.params
    p, da, db = P_['p'], P_['da'], P_['db']
    gfpx, P = _load(env, p)
    env.encoded(P._add, P._sub, P._mul, P._sq, P._neg, P._lshift, P._rshift, P._deriv, P.__call__, P._to_int, P._from_int, P._lt)
    a, b = _poly(env, 'a', p, da), _poly(env, 'b', p, db)
    a0, b0 = list(a), list(b)
    A, B = P(list(a), check=False), P(list(b), check=False)
    _same(env, 'add', (A + B).value, r_add(a, b), p)
    _same(env, 'sub', (A - B).value, r_add(a, r_neg(b)), p)
    _same(env, 'neg', (-A).value, r_neg(a), p)
    _same(env, 'mul', (A * B).value, r_mul(a, b), p)
    _same(env, 'sq', (A * A).value, r_mul(a, a), p)
    _same(env, 'pow2', (A ** 2).value, r_mul(a, a), p)
    _same(env, 'lshift', (A << 2).value, [0, 0] + a if a else [], p)
    _same(env, 'rshift', (A >> 1).value, a[1:], p)
    _same(env, 'add_int', (A + 1).value, r_add(a, [1]), p)
    _same(env, 'rsub_int', (1 - A).value, r_add([1], r_neg(a)), p)
    _same(env, 'mul_int', (A * 2).value, [2 * x for x in a], p)
    d = [(i + 1) * a[i + 1] for i in range(len(a) - 1)]
    _same(env, 'deriv', A.deriv().value, d, p)
    x = env.fresh('x', 0, p)
    ev = 0
    for i, c in enumerate(a):
        ev = ev + c * x ** i
    env.check('call', (A(x) - ev) % p == 0)
    env.check('call:reduced', (A(x) >= 0) & (A(x) < p))
    ia = sum(c * p ** i for i, c in enumerate(a))
    ib = sum(c * p ** i for i, c in enumerate(b))
    env.eq('to_int', int(A) if env.mode == 'conc' else P._to_int(A.value), ia)
    env.check('lt', bool(A < B) == bool(ia < ib)) if env.mode == 'conc' else env.check('lt', env.b2i(A < B) == env.b2i(ia < ib))
    env.check('eq', (A == B) == (a == b) if env.mode == 'conc' else True)
    env.check('degree', A.degree() == da)
    env.check('bool', bool(A) == (da >= 0))
    _unchanged(env, 'a', A.value, a0)
    _unchanged(env, 'b', B.value, b0)


def h_div(env):
    P_ = env.params
    p, da, db, what = P_['p'], P_['da'], P_['db'], P_['what']
    gfpx, P = _load(env, p)
    env.encoded(P._divmod, P._mod, P._gcd, P._gcdext, P._invert, P._powmod, P._monic)
    a, b = _poly(env, 'a', p, da), _poly(env, 'b', p, db)
    a0, b0 = list(a), list(b)
    A, B = P(list(a), check=False), P(list(b), check=False)
    if what == 'divmod':
        q, r = divmod(A, B)
        _same(env, 'a=q*b+r', a, r_add(r_mul(q.value, b), r.value), p)
        env.check('deg_r<deg_b', len(r.value) < len(b))
        _same(env, 'q_normalised', q.value, q.value, p)
        _same(env, 'r_normalised', r.value, r.value, p)
        _same(env, 'floordiv', (A // B).value, q.value, p)
        _same(env, 'mod', (A % B).value, r.value, p)
    elif what == 'gcd':
        g = P.gcd(A, B)
        gg, s, t = P.gcdext(A, B)
        env.check('gcd_monic', g.value[-1] == 1 if g.value else True)
        _same(env, 'gcdext_same_gcd', gg.value, g.value, p)
        _same(env, 'bezout', g.value, r_add(r_mul(s.value, a), r_mul(t.value, b)), p)
        if g.value == []:
            env.check('gcd_is_zero_only_for_zero_operands', a == [] and b == [])
        else:
            env.check('gcd_divides_a', (A % g).value == [])
            env.check('gcd_divides_b', (B % g).value == [])
        _same(env, 'gcd_commutes', P.gcd(B, A).value, g.value, p)
    elif what == 'invert':
        g = P.gcd(A, B)
        if g.value == [1] and db >= 1:
            s = P.invert(A, B)
            k, rem = divmod(s * A - 1, B)
            env.check('a*inv=1_mod_b', rem.value == [])
            _cong(env, 'a*inv=1+k*b', r_mul(s.value, a), r_add([1], r_mul(k.value, b)), p)
            env.check('inv_reduced', len(s.value) < len(b))
            _same(env, 'powmod-1', P.powmod(A, -1, B).value, s.value, p)
        elif db >= 1:
            try:
                P.invert(A, B)
                env.check('no_inverse_raises', False)
            except ZeroDivisionError:
                env.check('no_inverse_raises', True)
        else:
            env.check('marker', a[0] >= 0)      # constant modulus: the quotient ring is trivial, nothing to compare
    elif what == 'powmod':
        acc = P(1)
        for n in range(0, 5):
            _same(env, f'powmod{n}', P.powmod(A, n, B).value, (acc % B).value if db >= 0 else acc.value, p)
            acc = acc * A
            if db >= 1:
                acc = acc % B
    _unchanged(env, 'a', A.value, a0)
    _unchanged(env, 'b', B.value, b0)


def h_zero_div(env):
    gfpx, P = _load(env, 3)
    a = _poly(env, 'a', 3, 1)
    A, Z = P(list(a), check=False), P(0)
    for label, f in (('divmod', lambda: divmod(A, Z)), ('mod', lambda: A % Z), ('floordiv', lambda: A // Z), ('invert', lambda: P.invert(A, Z))):
        try:
            f()
            env.check(f'{label}_by_zero_raises', False)
        except ZeroDivisionError:
            env.check(f'{label}_by_zero_raises', True)
    env.check('marker', a[0] >= 0)


def h_binary(env):
    """p = 2: integer bitmask representation vs the generic list representation."""
    P_ = env.params
    D = P_['deg']
    gfpx, B = _load(env, 2)
    G = type('GF(2)[x]generic', (gfpx.Polynomial,), {'__slots__': (), 'p': 2})
    env.encoded(B._mul, B._mod, B._divmod, B._gcd, B._gcdext, B._invert, B._sq, B._deriv, B._is_irreducible)
    x = env.fresh('x', 0, 1 << (D + 1))
    y = env.fresh('y', 0, 1 << (D + 1))
    x = x.__index__() if env.mode == 'sym' else x
    y = y.__index__() if env.mode == 'sym' else y
    a, b, ga, gb = B(x), B(y), G(x), G(y)

    def same(label, u, v):
        env.check(label, int(u) == int(v))
    same('add', a + b, ga + gb)
    same('sub', a - b, ga - gb)
    same('mul', a * b, ga * gb)
    same('sq', a * a, ga * ga)
    same('neg', -a, -ga)
    same('lshift', a << 3, ga << 3)
    same('rshift', a >> 1, ga >> 1)
    same('deriv', a.deriv(), ga.deriv())
    env.check('degree', a.degree() == ga.degree())
    env.check('call_at_odd_x', all(a(v) == ga(v) for v in (1, 3)))
    env.check('call_at_even_x', all(a(v) == ga(v) for v in (0, 2)))
    env.check('lt', (a < b) == (ga < gb))
    env.check('iter', list(a) == list(ga))
    if y:
        q, r = divmod(a, b)
        gq, gr = divmod(ga, gb)
        same('divmod.q', q, gq)
        same('divmod.r', r, gr)
        same('mod', a % b, ga % gb)
        same('gcd', B.gcd(a, b), G.gcd(ga, gb))
        g1, s1, t1 = B.gcdext(a, b)
        g2, s2, t2 = G.gcdext(ga, gb)
        same('gcdext.g', g1, g2)
        same('gcdext.bezout', s1 * a + t1 * b, g1)
        for n in (0, 1, 2, 3, 5):
            same(f'powmod{n}', B.powmod(a, n, b), G.powmod(ga, n, gb))
        if int(B.gcd(a, b)) == 1 and b.degree() >= 1:
            same('invert', B.invert(a, b), G.invert(ga, gb))
    env.check('is_irreducible', B.is_irreducible(a) == G.is_irreducible(ga))
    z = env.fresh('z', 0, 2)
    env.check('marker', z >= 0)


def h_twin(env):
    """twin: claims deg(a*b) < deg a + deg b: must come back violated."""
    gfpx, P = _load(env, 3)
    a, b = _poly(env, 'a', 3, 1), _poly(env, 'b', 3, 1)
    c = P(list(a), check=False) * P(list(b), check=False)
    env.check('degree_drops', len(c.value) < 3)


def instances(tier):
    q = tier == 'quick'
    out = []
    T = dict(timeout=1800, max_paths=60000, n_validate=1)
    for p, D in ((3, 2), (5, 2), (7, 1)) if q else ((3, 3), (5, 2), (7, 2)):
        for da in range(-1, D + 1):
            for db in range(-1, D + 1):
                if da + db > (3 if q else 4):
                    continue
                out.append(Inst(f'ring[p={p},deg {da},{db}]', h_ring, dict(p=p, da=da, db=db), **T))
    for p, D in ((3, 2), (5, 2)) if q else ((3, 3), (5, 2), (7, 2)):
        for da in range(-1, D + 1):
            for db in range(0, min(D, 2) + 1):
                for what in ('divmod', 'gcd', 'invert', 'powmod'):
                    if what in ('gcd', 'invert', 'powmod') and (da < 0 or (p >= 5 and da + db > 3)):
                        continue
                    if what == 'powmod' and (db < 1 or (p >= 5 and da > 1) or da > 2):
                        continue
                    out.append(Inst(f'{what}[p={p},deg {da}/{db}]', h_div, dict(p=p, da=da, db=db, what=what), **T))
    # gcd / gcdext with a zero operand (second or both): the result must still be the monic associate
    for p, D in ((3, 2), (5, 2)):
        for da in range(-1, D + 1):
            out.append(Inst(f'gcd[p={p},deg {da}/-1]', h_div, dict(p=p, da=da, db=-1, what='gcd'), **T))
    out.append(Inst('division_by_zero', h_zero_div, {}, timeout=600))
    out.append(Inst(f'binary_vs_generic[deg<={3 if q else 4}]', h_binary, dict(deg=3 if q else 4), **T))
    out.append(Inst('twin_degree_drops', h_twin, {}, twin=True, expect='violated'))
    return out
