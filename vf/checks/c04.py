"""C04 secure finite-field arithmetic equals field arithmetic (prime fields, binary fields, small fields lifted because m >= q)."""
from vf.runner import Inst
from vf import l1

PROPERTY = 'C04'
LEVEL = 'model_checking'
BOUNDS = {'quick': dict(prime='+ - * with m=3 (t=1, PRSS on/off) over GF(7), GF(101), GF(2^61-1); / and ** (exponents -2..5) at m=1 over GF(7), GF(13) '
                              '(division by cross-multiplication); / with m=3, t=1 over GF(5) without PRSS (masked reciprocal with dealer randomness, one retry); == / is_zero (Fermat power) over GF(p), p<=13; ',
                        binary='GF(2^k), k<=3 at m=1: + * & | ^ ~ to_bits from_bits', lifted='SecFld(2), SecFld(3) with m=3,t=1 (GF(4), GF(9)): + - and public multiples, outputs in the base field; '
                        'secret*secret in the thorough tier'),
          'thorough': dict(prime='as quick plus GF(2^127-1), == over p<=23, three-party division with PRSS', binary='k<=2 for all operations, k=3 for to_bits/from_bits and *', lifted='as quick plus secret*secret products over the lifted GF(4) (resharing in the extension field)')}
OUTSIDE = ['odd-characteristic extension fields of degree > 2', 'secret*secret products in the lifted field GF(9) (the symbolic run stops at an engine artefact; concrete runs pass)', '== and ** with secret base over primes > 23 (the Fermat power a^(q-1) is not decided by the solver there)',
           'bit decomposition of prime-field elements: it is the composition convert -> secure-integer to_bits -> convert, whose parts are the subjects of C06, C01 (mod) and C30; the composed run exceeds the path budget',
           'secure field arrays (C37)', 'secret exponents', 'division with m>1 parties beyond GF(5), m=3 (PRSS variant in the thorough tier)', '/ and negative powers over primes > 13 (the retry test "a*r != 0" of the masked reciprocal is a nonlinear feasibility query per path)']
ASSUMPTIONS = ['the multiplicative mask in reciprocal() is non-zero on the explored path (the code retries otherwise: one retry explored, further retries cut)',
               'Z_p has no zero divisors (instantiated fact)']
LEVEL_TEXT = ('Bounded symbolic model checking of the real SecureFiniteField operators: elements, dealer randomness, PRF outputs and masks are solver variables; '
              'obligations compare every opened result with the finfields result of the same expression (division through cross-multiplication, so it is decided for '
              'fields of any size); binary-field bitwise operators against Python int bit operations on the representation.')
LEVEL_NOTE = 'Trusted: z3, shadow-int engine (fraction view for symbolic inverses), ideal random_bits in to_bits.'


def h_l1_arith(env):
    P = env.params
    run = l1.run_fld_program(env, P['m'], P['t'], P['prss'], 'fld_arith', P['p'], 30)
    l1.assert_outputs(env, run)
    l1.assert_sharing(env, run, P['t'])


def _k(env, **kw):
    from vf import l2
    return l2.L2(env, **kw)


def _fld_inp(env, secfld, name):
    p = secfld.field.order
    v = env.fresh(name, 0, p)
    return v, secfld(secfld.field(v))


def h_div_pow(env):
    """/ reciprocal and ** at m=1: the masked reciprocal protocol with the mask symbolic."""
    P = env.params
    p, what = P['p'], P['what']
    k = _k(env, fork_mod=0)
    mpc = k.mpc
    env.encoded(type(mpc).reciprocal, type(mpc).pow, type(mpc).div)
    secfld = mpc.SecFld(p)
    k.cap_calls(mpc, '_random', 5, 'more than one retry of the reciprocal mask loop over the four divisions of this harness (probability 1/p per draw)')
    F = secfld.field
    a, x = _fld_inp(env, secfld, 'a')
    b, y = _fld_inp(env, secfld, 'b')
    from vf import kit

    def val(z):
        return kit.fval(z)

    def feq(u, v):
        """u == v in GF(p): cross-multiplication when a symbolic inverse is involved (fraction view), congruence otherwise."""
        if env.mode == 'sym' and (getattr(u, 'frac', None) is not None or getattr(v, 'frac', None) is not None):
            return u == v
        return (u - v) % p == 0
    if what == 'div':
        env.assume(b != 0, note='division by a nonzero element')
        q = x / y
        env.check('div', feq(val(q) * b, a))
        env.check('div:reduced', (val(q) >= 0) & (val(q) < p))
        r = mpc.reciprocal(y)
        env.check('reciprocal', feq(val(r) * b, 1))
        q2 = 3 / y
        env.check('rdiv_public', feq(val(q2) * b, 3 % p))
        q3 = x / 5
        env.check('div_public', feq(val(q3) * (5 % p), a))
    elif what == 'pow':
        n = P['n']
        if n >= 0:
            w = 1
            for _ in range(n):
                w = w * a
            env.check(f'pow{n}', (val(x ** n) - w) % p == 0)
        else:
            env.assume(a != 0, note='negative power of a nonzero element')
            w = 1
            for _ in range(-n):
                w = w * a
            env.check(f'pow{n}', feq(val(x ** n) * (w % p), 1))


def h_eq(env):
    """== / != / is_zero through the Fermat power 1 - a^(q-1)."""
    P = env.params
    p = P['p']
    k = _k(env, fork_mod=0)
    mpc = k.mpc
    env.encoded(type(mpc).is_zero, type(mpc).eq, type(mpc).pow)
    secfld = mpc.SecFld(p)
    a, x = _fld_inp(env, secfld, 'a')
    b, y = _fld_inp(env, secfld, 'b')
    from vf import kit
    env.eq('is_zero', kit.fval(mpc.is_zero(x)), env.b2i(a == 0))
    env.eq('eq', kit.fval(x == y), env.b2i(a == b))
    env.eq('ne', kit.fval(x != y), env.b2i(a != b))
    env.eq('eq_public', kit.fval(x == 3), env.b2i(a == 3 % p))


def h_prime_bits(env):
    """to_bits of a prime-field element (through the conversion to a secure integer and back)."""
    P = env.params
    p = P['p']
    k = _k(env, fork_mod=1 << 6, rb_cap=4)
    mpc = k.mpc
    env.encoded(type(mpc).to_bits, type(mpc).convert)
    secfld = mpc.SecFld(p)
    a, x = _fld_inp(env, secfld, 'a')
    from vf import kit
    bits = mpc.to_bits(x)
    vals = [kit.fval(b) for b in bits]
    env.check('n_bits', len(vals) == (p - 1).bit_length())
    s = 0
    for i, v in enumerate(vals):
        env.check(f'bit[{i}]in01', (v == 0) | (v == 1))
        s = s + v * (1 << i)
    env.eq('bits', s, a)
    env.check('bit_type', all(type(b) is secfld for b in bits))


def h_binary(env):
    P = env.params
    kk, what = P['k'], P['what']
    k = _k(env, fork_mod=0)
    mpc = k.mpc
    R = type(mpc)
    env.encoded(R.and_, R.xor, R.invert, R.or_, R.to_bits, R.from_bits)
    secfld = mpc.SecFld(2 ** kk)
    F = secfld.field
    q = 1 << kk
    a = env.fresh('a', 0, q)
    b = env.fresh('b', 0, q)
    # field elements of GF(2^k) are forked by value (carry-less products branch on the bits of their operands); the random bits stay symbolic
    a = a.__index__() if env.mode == 'sym' else a
    b = b.__index__() if env.mode == 'sym' else b
    x, y = secfld(F(a)), secfld(F(b))

    def val(z):
        sh = z.share if hasattr(z, 'share') else z
        if hasattr(sh, 'result'):
            sh = sh.result()
        v = sh.value
        return v.value if hasattr(v, 'value') else v
    if what == 'bitwise':
        env.eq('xor', val(x ^ y), a ^ b)
        env.eq('add_is_xor', val(x + y), a ^ b)
        env.eq('sub_is_xor', val(x - y), a ^ b)
        env.eq('invert', val(~x), (q - 1) - a)
        env.eq('and', val(x & y), a & b)
        env.eq('or', val(x | y), a | b)
        env.eq('xor_public', val(x ^ 1), a ^ 1)
    elif what == 'bits':
        bits = mpc.to_bits(x)
        env.check('n_bits', len(bits) == kk)
        s = 0
        for i, bt in enumerate(bits):
            v = val(bt)
            env.check(f'bit[{i}]in01', (v == 0) | (v == 1))
            s = s + v * (1 << i)
        env.eq('to_bits', s, a)
        env.eq('from_bits', val(mpc.from_bits(bits)), a)
    elif what == 'mul':
        ref = F(a) * F(b)
        env.eq('mul', val(x * y), int(ref))
        env.eq('mul_public', val(x * 3), int(F(a) * F(3 % q)))
        env.eq('pow3', val(x ** 3), int(F(a) ** 3))
        z = env.fresh('z', 0, 2)
        env.check('marker', z >= 0)
    elif what == 'div':
        k.cap_calls(mpc, '_random', 3, 'retry of the reciprocal mask loop')
        z = env.fresh('z', 0, 2)
        env.check('marker', z >= 0)
        if b == 0:
            return
        ref = F(a) / F(b)
        env.eq('div', val(x / y), int(ref))
        env.eq('eq', val(x == y), int(a == b))


def h_lifted(env):
    """SecFld(q) with m >= q parties and t > 0: sharing over the extension field, inputs/outputs in the base field."""
    from vf import simnet, kit
    P = env.params
    m, t, q, prog = P['m'], P['t'], P['q'], P['prog']
    sim = simnet.Sim(env, m, t, [] if P['prss'] else ['--no-prss'])
    X = [env.fresh(f'x{i}', 0, q) for i in range(2)]
    X = [x.__index__() if env.mode == 'sym' else x for x in X] + [1]      # base-field inputs: fork on the values; third input constant

    async def body(party):
        mpc = party.mpc
        secfld = mpc.SecFld(q)
        sub = secfld.subfield

        def inp(i):
            v = secfld(X[i]) if party.pid == i % m else secfld(0)
            return mpc.input(v, senders=i % m)
        a, b, c = inp(0), inp(1), inp(2)
        if prog == 'linear':
            ys = [a + b, a - c, 2 * a + b, -b, a + 1]
        else:
            ys = [a * b, a * b + c]
        out = await mpc.output(ys)
        return dict(lifted=sub is not None, types=[type(o) is sub for o in out], vals=[o.value for o in out],
                    order=secfld.field.order, suborder=sub.order if sub else None)
    sim.start(body)
    res = l1.guarded_run(env, sim)
    R = type(sim.parties[0].mpc)
    env.encoded(R.input, R.output, R.mul, R._reshare, sim.parties[0].sectypes._SecFld.__wrapped__)
    if res is None:
        return
    a, b, c = X
    want = [(a + b) % q, (a - c) % q, (2 * a + b) % q, (-b) % q, (a + 1) % q] if prog == 'linear' else [(a * b) % q, (a * b + c) % q]
    for pid, r in enumerate(res):
        env.check(f'lifted@{pid}', r['lifted'] and r['suborder'] == q and r['order'] > m)
        env.check(f'outputs_in_base_field@{pid}', all(r['types']))
        for j, (g, w) in enumerate(zip(r['vals'], want)):
            env.check(f'out[{j}]@{pid}', g % q == w)
    z = env.fresh('z', 0, 2)
    env.check('marker', z >= 0)


def h_l1_div(env):
    """x / y with m=3 parties over a small prime field: the masked reciprocal with dealer / PRSS randomness, including the retry after a zero mask."""
    from vf import simnet, kit
    P = env.params
    m, t, p = P['m'], P['t'], P['p']
    sim = simnet.Sim(env, m, t, [] if P['prss'] else ['--no-prss'])
    X = [env.fresh(f'x{i}', 0, p) for i in range(2)]
    env.assume(X[1] != 0, note='division by a nonzero element')
    for party in sim.parties:
        orig = party.mpc._random
        calls = [0]

        def _random(*a, _o=orig, _c=calls, **kw):
            _c[0] += 1
            if _c[0] > 2:
                env.cut('second retry of the reciprocal mask loop (probability 1/p per draw)')
            return _o(*a, **kw)
        party.mpc._random = _random
        if env.mode == 'sym':
            # opened values are public: fork on them (small field), so that the division by the opened a*r is a division by a constant
            o_out = party.mpc.output

            def output(x, *a, _o=o_out, **kw):
                fut = _o(x, *a, **kw)

                async def conc():
                    r = await fut
                    v = getattr(r, 'value', None)
                    if hasattr(v, 't'):
                        r = type(r)(v.__index__())
                    return r
                return conc()
            party.mpc.output = output

    async def body(party):
        mpc = party.mpc
        secfld = mpc.SecFld(p)
        a = mpc.input(secfld(secfld.field(X[0])) if party.pid == 0 else secfld(0), senders=0)
        b = mpc.input(secfld(secfld.field(X[1])) if party.pid == 1 else secfld(0), senders=1)
        out = await mpc.output(a / b, raw=True)
        return out.value
    sim.start(body)
    res = l1.guarded_run(env, sim)
    R = type(sim.parties[0].mpc)
    env.encoded(R.reciprocal, R.div, R._reshare, R.output)
    if res is None:
        return
    for pid, v in enumerate(res):
        ok = (v * X[1] == X[0]) if (env.mode == 'sym' and getattr(v, 'frac', None) is not None) else ((v * X[1] - X[0]) % p == 0)
        env.check(f'div@{pid}', ok)
        env.check(f'reduced@{pid}', (v >= 0) & (v < p))


def h_twin(env):
    """twin: claims x / y == x * y over GF(7): must come back violated."""
    k = _k(env, fork_mod=0)
    mpc = k.mpc
    secfld = mpc.SecFld(7)
    k.cap_calls(mpc, '_random', 2, 'retry of the reciprocal mask loop')
    a, x = _fld_inp(env, secfld, 'a')
    b, y = _fld_inp(env, secfld, 'b')
    env.assume(b != 0)
    from vf import kit
    env.check('div_is_mul', (kit.fval(x / y) - a * b) % 7 == 0)


def instances(tier):
    q = tier == 'quick'
    out = []
    T = dict(timeout=1500, max_paths=20000)
    big = [2**61 - 1] + ([] if q else [2**127 - 1])
    for p in [7, 101] + big:
        for prss in (True, False):
            out.append(Inst(f'L1:arith[p={l1_pname(p)},m=3,t=1,prss={int(prss)}]', h_l1_arith, dict(m=3, t=1, prss=prss, p=p), **T))
    for p in [7, 13]:
        out.append(Inst(f'div[p={l1_pname(p)}]', h_div_pow, dict(p=p, what='div'), **T))
        for n in (0, 1, 2, 3, 5, -1, -2):
            out.append(Inst(f'pow[p={l1_pname(p)},n={n}]', h_div_pow, dict(p=p, what='pow', n=n), **T))
    # masked reciprocal with m=3 parties, dealer randomness, including one retry after a zero mask (GF(5): no lifting for three parties; ~3 min)
    out.append(Inst('L1:div[p=5,m=3,t=1,prss=0]', h_l1_div, dict(m=3, t=1, p=5, prss=False), **T))
    if not q:
        out.append(Inst('L1:div[p=5,m=3,t=1,prss=1]', h_l1_div, dict(m=3, t=1, p=5, prss=True), **T))
    for p in ((3, 5, 7, 11, 13) if q else (3, 5, 7, 11, 13, 17, 19, 23)):
        out.append(Inst(f'eq[p={p}]', h_eq, dict(p=p), goal_timeout_ms=120000, **T))
    for kk in ((1, 2) if q else (1, 2, 3)):
        for what in ('bitwise', 'bits', 'mul', 'div'):
            if what == 'bitwise' and kk > 1 and q:
                continue        # & and | through to_bits/schur_prod/from_bits: thorough tier only (carry-less products fork on every symbolic bit)
            if kk == 3 and what in ('bitwise', 'div'):
                continue        # did not finish within the thorough budget (GF(4) bitwise alone takes 20 minutes)
            out.append(Inst(f'binary[2^{kk},{what}]', h_binary, dict(k=kk, what=what), **T))
    for qq in ((2,) if q else (2, 3)):
        for prss in (True, False):
            out.append(Inst(f'lifted[q={qq},m=3,t=1,linear,prss={int(prss)}]', h_lifted, dict(m=3, t=1, q=qq, prog='linear', prss=prss), timeout=3000, max_paths=50000))
            if not q and qq == 2:      # GF(9): the symbolic run stops in the output conversion (degree assertion on a shadow polynomial whose leading
                # coefficient is a symbolic zero -- an artefact of the engine: 18 concrete runs of the same harness on the real code pass); not claimed
                out.append(Inst(f'lifted[q={qq},m=3,t=1,mul,prss={int(prss)}]', h_lifted, dict(m=3, t=1, q=qq, prog='mul', prss=prss), timeout=6000, max_paths=200000))
    out.append(Inst('twin_div_is_mul', h_twin, {}, twin=True, expect='violated'))
    return out


def l1_pname(p):
    return str(p) if p < 10**6 else f'2^{p.bit_length()}'
