"""C26 generated field primes: arithmetic of finfields.find_prime_root and sectypes._pfield (real code; the primality oracle,
prev_prime/next_prime and the modular exponentiation are stubs with stated contracts; root order n symbolic)."""
from vf.runner import Inst

PROPERTY = 'C26'
LEVEL = 'model_checking'
BOUNDS = {'quick': dict(l='3..72 (value forks)', n='symbolic root order in [3, 2^16) (any odd number the primality oracle accepts), n in {1,2} for the prev_prime branch',
                        loops='prime search unrolled 4 candidates, Blum search 3, root search 2 (more iterations cut and counted)', pfield='l+f+k+2 up to 80, user supplied p symbolic up to 2^82'),
          'thorough': dict(l='3..160', n='as quick', loops='6 / 4 / 3')}
OUTSIDE = ['primality of the returned modulus and "w has order exactly n": they rest on gmpy2.is_prime (C25) and Fermat\'s little theorem; the check establishes that the '
           'number handed to the primality oracle has the required residues and size and that w = a^((p-1)/n) != 1 with n | p-1',
           'existence of a Blum prime in [2^(l-1), 2^l): "bit length exactly l" for n<=2 with blum=True is established only up to the Bertrand contract of prev_prime '
           '(bit length <= l, and == l for blum=False and for the first candidate)', 'search loops longer than the unrolling bound']
ASSUMPTIONS = ['gmpy2.is_prime: arbitrary Boolean oracle; gmpy2.prev_prime(x): some odd q with x/2 < q < x (Bertrand); gmpy2.next_prime(n): some q > n accepted by the oracle; '
               'gmpy2.powmod(a,e,p): some value in [1,p) (recorded arguments are asserted)']
LEVEL_TEXT = ('Bounded symbolic model checking of the real search code with environment stubs: for every requested bit length in the bound, every root order n and every '
              'sequence of oracle answers within the unrolling bound, the candidate returned satisfies p = 3 mod 4, p = 1 mod n, bit length >= l, 0 < w < p, w != 1 for n > 2, '
              'and the exponent handed to powmod is exactly (p-1)/n; _pfield rejects user primes of at most l+f+k+1 bits and yields fields larger than 2^(l+f+k+1) and than m.')
LEVEL_NOTE = 'Trusted: z3, shadow-int engine; number theory behind the oracles is outside the claim (stated).'


def _load(env, caps):
    from vf import kit, symx
    mods = kit.import_plain('mpyc.finfields', 'mpyc.sectypes', 'mpyc.gmpy', 'mpyc.gfpx')
    party = kit.install(env, mods, 0, prf_stub=False, rand_stub=False)
    ff = party.finfields
    log = dict(is_prime=[], powmod=[], prev_prime=[], next_prime=[])
    cnt = dict(is_prime=0, prev_prime=0, powmod=0, next_prime=0)

    def is_prime(x):
        cnt['is_prime'] += 1
        if cnt['is_prime'] > caps['is_prime']:
            env.cut('more candidates in the prime search than the unrolling bound')
        log['is_prime'].append(x)
        b = env.fresh(f'isprime{cnt["is_prime"]}', 0, 2)
        return bool(b == 1)

    def prev_prime(x):
        cnt['prev_prime'] += 1
        if cnt['prev_prime'] > caps['prev_prime']:
            env.cut('more steps in the Blum search than the unrolling bound')
        q = env.fresh(f'pp{cnt["prev_prime"]}', 2, 1 << 200)
        env.assume((q < x) & (2 * q > x) & (q % 2 == 1), note='prev_prime(x): odd q with x/2 < q < x (Bertrand)')
        log['prev_prime'].append((x, q))
        return q

    def next_prime(x):
        cnt['next_prime'] += 1
        q = env.fresh(f'np{cnt["next_prime"]}', 3, 1 << 17)
        env.assume((q > x) & (q % 2 == 1), note='next_prime(n): odd q > n')
        log['next_prime'].append((x, q))
        return q

    def powmod(a, e, p):
        cnt['powmod'] += 1
        if cnt['powmod'] > caps['powmod']:
            env.cut('more bases tried in the root search than the unrolling bound')
        w = env.fresh(f'pw{cnt["powmod"]}', 1, 1 << 200)
        env.assume(w < p, note='powmod(a,e,p) in [1,p)')
        log['powmod'].append((a, e, p, w))
        return w
    stub = type('gmpy2_stub', (), dict(is_prime=staticmethod(is_prime), prev_prime=staticmethod(prev_prime), next_prime=staticmethod(next_prime),
                                       powmod=staticmethod(powmod)))
    ff.gmpy2 = stub
    env.stubs.add('finfields.gmpy2 -> oracles: is_prime arbitrary Boolean; prev_prime Bertrand contract; next_prime larger odd; powmod arbitrary in [1,p) with recorded arguments')
    return party, ff, log


def _real_replay(env):
    """conc mode: the real find_prime_root with the real gmpy2 helpers (no oracle stubs) on the model's (l, n) and on the
    neighbouring requests of the same instance; independent primality / order tests."""
    from vf import kit
    P = env.params
    mods = kit.import_plain('mpyc.finfields', 'mpyc.gmpy', 'mpyc.gfpx')
    ff = mods['mpyc.finfields']
    l0 = env.fresh('l', P['lo'], P['hi'])

    def isprime(x):
        if x < 2:
            return False
        for q in (2, 3, 5, 7, 11, 13, 17, 19, 23, 29, 31, 37):
            if x % q == 0:
                return x == q
        d, s = x - 1, 0
        while d % 2 == 0:
            d //= 2
            s += 1
        for a in (2, 3, 5, 7, 11, 13, 17, 19, 23, 29, 31, 37):
            y = pow(a, d, x)
            if y in (1, x - 1):
                continue
            for _ in range(s - 1):
                y = y * y % x
                if y == x - 1:
                    break
            else:
                return False
        return True
    if P['branch'] == 'n>2':
        n0 = env.fresh('n', 3, 1 << 16)
        reqs = [(l0, n0)] + [(l, n) for l in range(P['lo'], P['hi']) for n in (3, 5, 7, 11, 13, 257, n0 | 1, (n0 + 2) | 1)]
        for l, n in reqs:
            if l < 4:
                continue
            p, n2, w = ff.find_prime_root(l, n=n)
            env.check('n_result>=n', n2 >= n and isprime(n2))
            env.check('p=3 mod 4', p % 4 == 3)
            env.check('p=1 mod n', p % n2 == 1)
            env.check('bit_length>=l', p.bit_length() >= l)
            env.check('candidate_accepted_by_oracle', isprime(p))
            env.check('root_in_range', 0 < w < p)
            env.check('root!=1', w != 1)
            env.check('exponent_exact', pow(w, n2, p) == 1)
    else:
        nn, blum = P['n'], P['blum']
        for l in [l0] + list(range(P['lo'], P['hi'])):
            p, n2, w = ff.find_prime_root(l, blum=blum, n=nn)
            if l <= 2:
                env.check('tiny', (p, n2, w) == ((3, 2, 2) if blum else (2, 1, 1)))
                continue
            env.check('from_prime_oracle', isprime(p))
            env.check('bit_length<=l', p.bit_length() <= l)
            env.check('bit_length==l', p.bit_length() == l)
            if blum:
                env.check('p=3 mod 4', p % 4 == 3)
            env.check('n', n2 == nn)
            env.check('w', w == (p - 1 if nn == 2 else 1))


def h_root(env):
    P = env.params
    if env.mode == 'conc':
        return _real_replay(env)
    caps = P['caps']
    party, ff, log = _load(env, caps)
    env.encoded(ff.find_prime_root)
    l = env.fresh('l', P['lo'], P['hi'])
    lv = l.__index__() if env.mode == 'sym' else l
    branch = P['branch']
    if branch == 'n>2':
        from vf import symx
        symx.SYM_DIV[0] = env.mode == 'sym'
        n = env.fresh('n', 3, 1 << 16)
        env.assume(n % 2 == 1, note='root order n odd (an odd prime in every use; evenness is excluded by the primality oracle contract)')
        p, n2, w = ff.find_prime_root(lv, n=n)
        env.check('n_result>=n', n2 >= n)
        env.check('n_result_accepted_by_oracle', len(log['is_prime']) >= 1)
        env.check('p=3 mod 4', p % 4 == 3)
        env.check('p=1 mod n', p % n2 == 1)
        env.check('bit_length>=l', p >= (1 << (lv - 1)))
        env.check('candidate_accepted_by_oracle', log['is_prime'][-1] == p)
        a, e, pm, w0 = log['powmod'][-1]
        env.check('root_in_range', (w > 0) & (w < p))
        env.check('root!=1', w != 1)
        env.check('root_is_power', w == w0)
        env.check('exponent_exact', e * n2 == p - 1)
        env.check('powmod_modulus', pm == p)
        env.check('base>=2', a >= 2)
    else:
        nn = P['n']
        blum = P['blum']
        p, n2, w = ff.find_prime_root(lv, blum=blum, n=nn)
        if lv <= 2:
            env.check('tiny', (p, n2, w) == ((3, 2, 2) if blum else (2, 1, 1)))
            return
        env.check('from_prime_oracle', p == log['prev_prime'][-1][1])
        env.check('bit_length<=l', p < (1 << lv))
        if blum:
            env.check('p=3 mod 4', p % 4 == 3)
        if not blum or len(log['prev_prime']) == 1:
            env.check('bit_length==l', p >= (1 << (lv - 1)))
        env.check('n', n2 == nn)
        env.check('w', w == (p - 1 if nn == 2 else 1))


def h_pfield(env):
    """_pfield: user supplied prime rejected iff it has at most l+f+k+1 bits; resulting field exceeds 2^(l+f+k+1) and the number of parties."""
    P = env.params
    party, ff, log = _load(env, dict(is_prime=0, prev_prime=0, powmod=0))
    st = party.sectypes
    env.encoded(st._pfield)
    k = P['k']
    m = env.fresh('m', 1, 200)
    t = env.fresh('t', 0, 100)
    env.assume(2 * t < m)

    class _P:
        def __len__(self):
            return m.__index__() if env.mode == 'sym' else m
    st.runtime = type('rt', (), dict(threshold=t, parties=_P(), options=type('o', (), dict(sec_param=k))()))()
    made = []

    def GF(p):
        made.append(p)
        return type('F', (), dict(order=p, modulus=p))
    ff.GF = GF
    st.finfields.GF = GF
    l, f = P['l'], P['f']
    p = env.fresh('p', 2, 1 << (l + f + k + 4))
    try:
        F = st._pfield(l, f, p, 2)
        env.check('accepted_only_if_large', p >= (1 << (l + f + k + 1)))
        env.check('order>2^(l+f+k+1)', F.order >= (1 << (l + f + k + 1)))
        env.check('order>m', F.order > m)
    except ValueError:
        env.check('rejected_only_if_small', p < (1 << (l + f + k + 1)))
    except AssertionError:
        env.check('assertion_never_fires', False)


def h_pfield_default(env):
    """_pfield with p=None: asks find_prime_root for l+f+k+2 bits (hence more than 2^(l+f+k+1) elements)."""
    P = env.params
    party, ff, log = _load(env, dict(is_prime=0, prev_prime=0, powmod=0))
    st = party.sectypes
    k = P['k']
    st.runtime = type('rt', (), dict(threshold=1, parties=[0, 1, 2], options=type('o', (), dict(sec_param=k))()))()
    asked = []

    def find_prime_root(L, blum=True, n=1):
        asked.append((L, blum, n))
        return (1 << L) - 1
    st.finfields.find_prime_root = find_prime_root
    st.finfields.GF = lambda p: type('F', (), dict(order=p))
    l = env.fresh('l', 1, 65)
    f = env.fresh('f', 0, 33)
    st._pfield(l, f, None, 2)
    env.check('bits_requested', asked[0][0] == l + f + k + 2)
    env.check('blum_and_root_order', asked[0][1] is True and asked[0][2] == 2)


def h_twin(env):
    """twin: claims the n>2 candidate is 1 mod 8: must come back violated."""
    party, ff, log = _load(env, dict(is_prime=3, prev_prime=0, powmod=2))
    n = env.fresh('n', 3, 64)
    p, n2, w = ff.find_prime_root(8, n=n)
    env.check('p=1 mod 8', p % 8 == 1)


def instances(tier):
    q = tier == 'quick'
    out = []
    caps = dict(is_prime=5, prev_prime=3, powmod=2) if q else dict(is_prime=7, prev_prime=4, powmod=3)
    hi = 73 if q else 161
    step = 6
    T = dict(timeout=1500, max_paths=50000, n_validate=1)
    for lo in range(3, hi, step):
        out.append(Inst(f'root[n>2,l={lo}..{min(lo + step, hi) - 1}]', h_root, dict(branch='n>2', lo=lo, hi=min(lo + step, hi), caps=caps), **T))
    for lo in range(1, hi, 12):
        for nn, blum in ((2, True), (1, True), (1, False)):
            out.append(Inst(f'root[n={nn},blum={int(blum)},l={lo}..{min(lo + 12, hi) - 1}]', h_root,
                            dict(branch='small', n=nn, blum=blum, lo=lo, hi=min(lo + 12, hi), caps=caps), **T))
    for (l, f, k) in ((8, 0, 30), (16, 8, 30), (32, 16, 30), (8, 4, 8)):
        out.append(Inst(f'_pfield[l={l},f={f},k={k}]', h_pfield, dict(l=l, f=f, k=k), **T))
    out.append(Inst('_pfield[default prime]', h_pfield_default, dict(k=30), **T))
    out.append(Inst('twin_1_mod_8', h_twin, {}, twin=True, expect='violated'))
    return out
