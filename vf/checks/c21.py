"""C21 field square roots and quadratic-residue tests (real finfields sqrt/is_sqr code for prime, extension and binary fields;
the element is a solver variable forced to every value of the field, the reference is the set of squares by exhaustive squaring)."""
from vf.runner import Inst

PROPERTY = 'C21'
LEVEL = 'model_checking'
BOUNDS = {'quick': dict(prime='every prime <= 31 (both classes mod 4; exponentiation and Cipolla-Lehmer branches), p=2', extension='GF(9), GF(25), GF(27) (Tonelli-Shanks / exponentiation)',
                        binary='GF(4), GF(8), GF(16) (Frobenius)', parametrised='sqrt(y^2)^2 == y^2 with y symbolic for primes <= 13 (no value forks)'),
          'thorough': dict(prime='every prime <= 127', extension='GF(9), GF(25), GF(27), GF(49), GF(81), GF(121), GF(125)', binary='GF(2^k), k <= 7', parametrised='primes <= 23')}
OUTSIDE = ['larger fields: the algorithms are power towers a^((q+1)/4), Cipolla-Lehmer / Tonelli-Shanks loops with data-dependent trip counts; their correctness for all p is number theory '
           '(Euler criterion, Fermat) over a symbolic modulus, which the solver does not decide -- stated, not claimed', 'FiniteFieldArray variants (C37)']
ASSUMPTIONS = ['field multiplication correct (C20)', 'gmpy.legendre / powmod helpers (C25)']
LEVEL_TEXT = ('Bounded: per field of the bound, the element is forced to each field value by solver-certified case split; is_sqr(a) must hold exactly for the squares (0 included), '
              'sqrt(a)^2 == a for squares, sqrt(a, INV=True) * sqrt(a)... precisely (sqrt(a,INV))^2 * a == 1 for non-zero squares, ZeroDivisionError for INV of 0; '
              'plus a value-fork-free parametrised obligation sqrt(y^2)^2 == y^2 with y symbolic for small primes.')
LEVEL_NOTE = 'Trusted: z3, shadow-int engine. Solver content is thin for the per-value part (stated).'


def _load(env):
    from vf import kit
    mods = kit.import_plain('mpyc.finfields', 'mpyc.gfpx', 'mpyc.gmpy')
    party = kit.install(env, mods, 0, prf_stub=False, rand_stub=False)
    return party.finfields, party.gfpx


def _field(ff, gfpx, spec):
    if spec[0] == 'p':
        return ff.GF(spec[1])
    return ff.GF(ff.find_irreducible(spec[1], spec[2]))


def h_values(env):
    P = env.params
    ff, gfpx = _load(env)
    F = _field(ff, gfpx, P['field'])
    E = type(F(0))
    env.encoded(ff.PrimeFieldElement._sqrt, ff.PrimeFieldElement._is_sqr, ff.ExtensionFieldElement._sqrt, ff.ExtensionFieldElement._is_sqr,
                ff.BinaryFieldElement._sqrt, ff.FiniteFieldElement.sqrt, ff.FiniteFieldElement.is_sqr)
    q = F.order
    x = env.fresh('a', P.get('lo', 0), min(P.get('hi', q), q))
    av = x.__index__() if env.mode == 'sym' else x
    a = F(av)
    squares = {int(F(y) * F(y)) for y in range(q)}
    issq = int(a) in squares
    env.check('is_sqr', a.is_sqr() == issq)
    if issq:
        s = a.sqrt()
        env.check('sqrt_squared', s * s == a)
        env.check('sqrt_type', type(s) is F)
        if av != 0:
            t = a.sqrt(INV=True)
            env.check('inv_sqrt', t * t * a == F(1))
        else:
            try:
                a.sqrt(INV=True)
                env.check('inv_sqrt_of_zero_raises', False)
            except ZeroDivisionError:
                env.check('inv_sqrt_of_zero_raises', True)
    z = env.fresh('z', 0, 2)
    env.check('marker', z >= 0)


def h_param(env):
    """no value forks: for symbolic y, a = y^2 is a square, the real sqrt must return a root of it (p = 3 mod 4: a single power)."""
    P = env.params
    p = P['p']
    ff, gfpx = _load(env)
    F = ff.GF(p)
    y = env.fresh('y', 0, p)
    a = F(y) * F(y)
    env.check('is_sqr(y^2)', a.is_sqr() if env.mode == 'conc' else True)
    s = a.sqrt()
    env.check('sqrt(y^2)^2==y^2', (s.value * s.value - y * y) % p == 0)
    env.check('root_is_+-y', ((s.value - y) % p == 0) | ((s.value + y) % p == 0))


def h_twin(env):
    """twin: claims every element of GF(7) is a square: must come back violated."""
    ff, gfpx = _load(env)
    F = ff.GF(7)
    x = env.fresh('a', 0, 7)
    av = x.__index__() if env.mode == 'sym' else x
    env.check('all_squares', F(av).is_sqr())


def instances(tier):
    q = tier == 'quick'
    out = []
    T = dict(timeout=1800, max_paths=100000, n_validate=1)
    primes = [p for p in range(2, 32 if q else 128) if all(p % d for d in range(2, int(p ** 0.5) + 1))]
    for p in primes:
        out.append(Inst(f'values[GF({p})]', h_values, dict(field=['p', p]), **T))
    ext = [(3, 2), (5, 2), (3, 3), (2, 2), (2, 3), (2, 4)] + ([] if q else [(7, 2), (3, 4), (11, 2), (5, 3), (2, 5), (2, 6), (2, 7)])
    for (c, d) in ext:
        out.append(Inst(f'values[GF({c}^{d})]', h_values, dict(field=['x', c, d]), **T))
    for p in ((3, 7, 11) if q else (3, 7, 11, 19, 23)):
        out.append(Inst(f'parametrised[p={p}]', h_param, dict(p=p), goal_timeout_ms=120000, **T))
    out.append(Inst('twin_all_squares', h_twin, {}, twin=True, expect='violated'))
    return out
