"""C32 mpctools.reduce / accumulate agree with functools / itertools for EVERY associative function (real code run on
elements of an uninterpreted sort; F uninterpreted with the associativity axiom), logarithmic depth."""
import functools
import itertools
import math

from vf.runner import Inst
from vf import custom

PROPERTY = 'C32'
LEVEL = 'other'
ENGINE = 'ufalg'
TECHNIQUE = ('the real mpctools code is executed on z3 constants of an uninterpreted sort with an uninterpreted binary function F; '
             'goal "result term != functools/itertools term" is refuted by z3 (E-matching) under the quantified associativity axiom, '
             'i.e. for every associative function and all elements at once; finite counter-models are replayed on the real code')
BOUNDS = {'quick': dict(n='0..16', variants='reduce / accumulate x {Sklansky, Brent-Kung, default} x {no initial, initial, initial=None}, list and generator input'),
          'thorough': dict(n='0..40', variants='as quick')}
OUTSIDE = ['input lengths beyond the bound', 'functions that are not associative (the documented precondition)',
           'functions with side effects or that inspect the number/order of their own calls']
ASSUMPTIONS = ['f is a pure associative function (documented precondition): forall a b c. F(F(a,b),c) = F(a,F(b,c))']
EXPLANATION = ('Obligations are validity queries over an uninterpreted sort: one per (function, variant, n), covering every associative f and '
               'all element values; depth/complexity obligations are computed from depth-annotated elements run through the same real code. '
               'states = executions of the real function (one straight-line path each), transitions = applications of f performed.')
LEVEL_TEXT = ('Validity modulo the theory of semigroups (uninterpreted F + associativity axiom), decided by z3 for each input length up to the bound: '
              'mpctools.reduce == functools.reduce and mpctools.accumulate == itertools.accumulate for both methods, with/without initial (including '
              'initial=None); application depth <= ceil(log2 n) (reduce, Sklansky) and <= max(2k-2,k) (Brent-Kung, k=ceil(log2 n)); documented call '
              'counts for n=2^k.')
LEVEL_NOTE = 'Trusted: z3 (quantifier instantiation can only fail to prove, in which case the check is inconclusive, never passing).'


def _mpctools():
    from vf import kit
    mods = kit.import_plain('mpyc.mpctools')
    mt = mods['mpyc.mpctools']
    # default method heuristic reads runtime.options.no_prss
    mt.runtime = type('rt', (), {'options': type('o', (), {'no_prss': False})()})()
    return mt


VARIANTS = [('reduce', None, 'no'), ('reduce', None, 'init'), ('reduce', None, 'none'),
            ('accumulate', 'Sklansky', 'no'), ('accumulate', 'Sklansky', 'init'), ('accumulate', 'Brent-Kung', 'no'),
            ('accumulate', 'Brent-Kung', 'init'), ('accumulate', 'Brent-Kung', 'none'), ('accumulate', None, 'no'),
            ('accumulate', 'Sklansky', 'gen'), ('reduce', None, 'gen')]


def _call(mt, fn, method, init, f, xs, initv, nonev, counter=None):
    """Run the real function and the reference on the same inputs; returns (got, want) as lists.
    counter: optional [n] incremented by f; counter[0] is reset so that it holds the real function's calls afterwards."""
    got, want = _call2(mt, fn, method, init, f, xs, initv, True)
    real_calls = counter[0] if counter else 0
    want = _call2(mt, fn, method, init, f, xs, initv, False)[1]
    if counter:
        counter[0] = real_calls
    return got, want


def _call2(mt, fn, method, init, f, xs, initv, real):
    def src():
        return (x for x in xs) if init == 'gen' else list(xs)
    kw = {}
    if init == 'init':
        kw['initial'] = initv
    elif init == 'none':
        kw['initial'] = None
    if fn == 'reduce':
        if not xs and not kw:
            if not real:
                return None, ['TypeError']
            try:
                mt.reduce(f, src())
                return ['no TypeError'], None
            except TypeError:
                return ['TypeError'], None
        if real:
            return [mt.reduce(f, src(), **kw)], None
        return None, ([functools.reduce(f, src(), kw['initial'])] if kw else [functools.reduce(f, src())])
    if real:
        return list(mt.accumulate(src(), f, method=method, **kw)), None
    if init == 'none':
        # documented difference: for mpctools an initial value None IS an initial value (itertools reads None as "no initial")
        return None, list(itertools.accumulate([None] + list(xs), f))
    return None, list(itertools.accumulate(src(), f, **kw))


@custom.guarded
def h_uf(params, seed, mode, values):
    import z3
    mt = _mpctools()
    if mode == 'conc':
        return _replay(mt, params, values)
    res = custom.Result()
    res.encoded(mt.reduce, mt.accumulate)
    res.note('assumptions', ASSUMPTIONS[0])
    E = z3.DeclareSort('E')
    F = z3.Function('F', E, E, E)
    a, b, c = z3.Consts('a b c', E)
    assoc = z3.ForAll([a, b, c], F(F(a, b), c) == F(a, F(b, c)))
    none_c = z3.Const('none', E)
    init_c = z3.Const('init', E)

    class El:
        __slots__ = ('t', 'd')

        def __init__(s, t, d=0):
            s.t, s.d = t, d
    ncalls = [0]

    def t_of(x):
        return none_c if x is None else x.t

    def d_of(x):
        return 0 if x is None else x.d

    def f(x, y):
        ncalls[0] += 1
        return El(F(t_of(x), t_of(y)), 1 + max(d_of(x), d_of(y)))
    for n in params['ns']:
        xs = [El(z3.Const(f'x{i}', E)) for i in range(n)]
        for (fn, method, init) in VARIANTS:
            ncalls[0] = 0
            got, want = _call(mt, fn, method, init, f, xs, El(init_c), None, ncalls)
            calls_real = ncalls[0]
            res.path(decisions=calls_real)
            label = f'{fn}[{method},{init},n={n}]'
            s = z3.Solver()
            s.set('timeout', 20000)
            s.add(assoc)
            if len(got) != len(want) or any(isinstance(g, str) or isinstance(w, str) for g, w in zip(got, want)):
                s.add(z3.BoolVal(got != want))
            else:
                diffs = [t_of(g) != t_of(w) for g, w in zip(got, want)]
                s.add(z3.Or(*diffs) if diffs else z3.BoolVal(False))

            def mv(model, n=n, fn=fn, method=method, init=init, xs=xs):
                U = model.get_universe(E) or []
                idx = {str(u): i for i, u in enumerate(U)}

                def ev(t):
                    return idx[str(model.eval(t, model_completion=True))]
                table = [[ev(F(u, v)) for v in U] for u in U]
                return dict(kind='uf', n=n, fn=fn, method=method, init=init, table=table, xs=[ev(x.t) for x in xs],
                            initv=ev(init_c), nonev=ev(none_c))
            v = res.goal(label, s, mv)
            if v == 'unknown':
                # a counter-model may exist that z3 could not construct: replay on the free semigroup (tuple concatenation)
                res.r['models'].append(dict(label=label, path=0, values=dict(kind='free', n=n, fn=fn, method=method, init=init), observed=[]))
            # depth / call-count obligations (concrete: the code is oblivious, depth depends on n only)
            size = len(want) if fn == 'accumulate' else n + (init in ('init', 'none'))
            if size >= 1 and got and not isinstance(got[0], str):
                k = max(size - 1, 0).bit_length()       # ceil(log2 size)
                depth = max(d_of(g) for g in got)
                eff = 'Sklansky' if (fn == 'accumulate' and method is None) else method
                bound = k if (fn == 'reduce' or eff == 'Sklansky') else max(2 * k - 2, k)
                s2 = z3.Solver()
                s2.add(z3.BoolVal(depth > bound))
                res.goal(f'depth:{label}', s2, lambda m, n=n, fn=fn, method=method, init=init: dict(kind='depth', n=n, fn=fn, method=method, init=init), sample=False)
                if size == 1 << k and fn == 'accumulate':
                    doc = 2 * size - 2 - k if eff == 'Brent-Kung' else (size // 2) * k
                    s3 = z3.Solver()
                    s3.add(z3.BoolVal(calls_real != doc))
                    res.goal(f'calls:{label}', s3, lambda m, n=n, fn=fn, method=method, init=init: dict(kind='calls', n=n, fn=fn, method=method, init=init), sample=False)
    # translator validation: the same variants on the free semigroup (tuples), real code vs reference
    n = max(params['ns'])
    res.validation(dict(kind='free', n=n, fn='accumulate', method='Brent-Kung', init='init'), [])
    return res.done()


def _replay(mt, params, values):
    kind = values.get('kind')
    if kind is None:            # concrete search fallback: free semigroup over all variants
        fails = []
        for n in params['ns']:
            for (fn, method, init) in VARIANTS:
                fails += _replay(mt, params, dict(kind='free', n=n, fn=fn, method=method, init=init))['failures']
        return custom.conc_result(fails[:5], values=values)
    n, fn, method, init = values['n'], values['fn'], values['method'], values['init']
    label = f'{fn}[{method},{init},n={n}]'
    if kind == 'free':
        f = lambda x, y: (() if x is None else x) + (() if y is None else y)   # noqa: E731  (None acts as the empty word)
        xs = [(i,) for i in range(n)]
        got, want = _call(mt, fn, method, init, f, xs, ('init',), None)
        return custom.conc_result([label] if got != want else [], [('got', repr(got)[:300]), ('want', repr(want)[:300])], values)
    if kind == 'uf':
        T = values['table']
        k = len(T)
        if any(T[T[a][b]][c] != T[a][T[b][c]] for a in range(k) for b in range(k) for c in range(k)):
            return custom.conc_result([], values=values, status='assumption_failed', error='model of F is not associative')
        nonev = values['nonev']
        f = lambda x, y: T[nonev if x is None else x][nonev if y is None else y]   # noqa: E731
        got, want = _call(mt, fn, method, init, f, list(values['xs']), values['initv'], None)
        return custom.conc_result([label] if got != want else [], [('got', repr(got)), ('want', repr(want))], values)
    # depth / calls
    cnt = [0]

    class D:
        def __init__(s, d=0):
            s.d = d

    def f(x, y):
        cnt[0] += 1
        return D(1 + max(getattr(x, 'd', 0), getattr(y, 'd', 0)))
    got, want = _call(mt, fn, method, init, f, [D() for _ in range(n)], D(), None, cnt)
    real_calls = cnt[0]
    size = len(want) if fn == 'accumulate' else n + (init in ('init', 'none'))
    k = max(size - 1, 0).bit_length()
    eff = 'Sklansky' if (fn == 'accumulate' and method is None) else method
    depth = max(getattr(g, 'd', 0) for g in got)
    fails = []
    if kind == 'depth':
        bound = k if (fn == 'reduce' or eff == 'Sklansky') else max(2 * k - 2, k)
        if depth > bound:
            fails.append(f'depth:{label}')
    else:
        doc = 2 * size - 2 - k if eff == 'Brent-Kung' else (size // 2) * k
        if real_calls != doc:
            fails.append(f'calls:{label}')
    return custom.conc_result(fails, [('depth', depth), ('calls', real_calls)], values)


@custom.guarded
def h_twin(params, seed, mode, values):
    """twin: the false claim reduce(f,[x0,x1]) == reduce(f,[x1,x0]) under associativity alone must come back violated
    (finite counter-model from z3, or -- if z3 cannot build one -- the free-semigroup replay)."""
    import z3
    mt = _mpctools()
    if mode == 'conc':
        if values.get('kind') == 'free' or 'table' not in values:
            f = lambda x, y: x + y   # noqa: E731
            x0, x1 = (0,), (1,)
        else:
            T = values['table']
            f = lambda x, y: T[x][y]   # noqa: E731
            x0, x1 = values['xs']
        return custom.conc_result(['swap'] if mt.reduce(f, [x0, x1]) != mt.reduce(f, [x1, x0]) else [], values=values)
    res = custom.Result()
    E = z3.DeclareSort('E')
    F = z3.Function('F', E, E, E)
    a, b, c = z3.Consts('a b c', E)
    x0, x1 = z3.Consts('x0 x1', E)

    class El:
        def __init__(s, t):
            s.t = t
    f = lambda x, y: El(F(x.t, y.t))   # noqa: E731
    s = z3.Solver()
    s.set('timeout', 10000)
    s.add(z3.ForAll([a, b, c], F(F(a, b), c) == F(a, F(b, c))))
    s.add(mt.reduce(f, [El(x0), El(x1)]).t != mt.reduce(f, [El(x1), El(x0)]).t)

    def mv(model):
        U = model.get_universe(E)
        idx = {str(u): i for i, u in enumerate(U)}
        ev = lambda t: idx[str(model.eval(t, model_completion=True))]   # noqa: E731
        return dict(table=[[ev(F(u, v)) for v in U] for u in U], xs=[ev(x0), ev(x1)])
    res.path()
    if res.goal('swap', s, mv) == 'unknown':
        res.r['models'].append(dict(label='swap', path=0, values=dict(kind='free'), observed=[]))
    return res.done()


def instances(tier):
    ns = list(range(0, 17)) if tier == 'quick' else list(range(0, 41))
    out = []
    chunk = 3 if tier == 'quick' else 2
    for i in range(0, len(ns), chunk):
        part = ns[i:i + chunk]
        out.append(Inst(f'uf[n={part[0]}..{part[-1]}]', h_uf, dict(ns=part), kind='custom', timeout=1500))
    out.append(Inst('twin_commutative', h_twin, {}, kind='custom', twin=True, expect='violated'))
    return out
