"""C12 Shamir split / recombine are inverse (real thresha.random_split, _recombination_vector, recombine)."""
import itertools
from vf.runner import Inst

PROPERTY = 'C12'
LEVEL = 'model_checking'
BOUNDS = {
    'quick': dict(configs='(m,t) in {(1,0),(2,0),(3,1),(4,1),(5,2)}', primes='smallest prime > m, 101, 2^61-1',
                  secrets_per_call=2, subsets='all of size t+1, plus all m shares, plus one of size t+2',
                  x_r='0, m+1, -1 (mod p)', ext_fields='GF(4), GF(8), GF(9) with t<=1'),
    'thorough': dict(configs='all (m,t), m<=7, 2t<m', primes='smallest prime > m, 13, 101, 2^61-1, 2^127-1',
                     secrets_per_call=2, subsets='all of size t+1 and t+2, and all m', x_r='0, m+1, -1 (mod p)',
                     ext_fields='GF(4), GF(9) with t<=2; GF(8), GF(25), GF(27) with t=1'),
}
OUTSIDE = ['m > 7', 'fields other than the listed ones', 'NumPy variants np_random_split/np_recombine (see C37)']
ASSUMPTIONS = ['secrets.randbelow(n) returns an arbitrary value in range(n)']


def _next_prime(n):
    n += 1
    while any(n % d == 0 for d in range(2, int(n**0.5) + 1)):
        n += 1
    return n


def h_prime(env):
    from vf import kit
    P = env.params
    m, t, p, as_field = P['m'], P['t'], P['p'], P['as_field']
    mods = kit.import_plain('mpyc.thresha', 'mpyc.finfields')
    party = kit.install(env, mods, 0, prf_stub=False)
    thresha, ff = party.thresha, party.finfields
    env.encoded(thresha.random_split, thresha.recombine, thresha._recombination_vector.__wrapped__)
    F = ff.GF(p)
    n = 2
    s = [env.fresh(f's{h}', 0, p) for h in range(n)]
    arg = [F(x) for x in s] if as_field else list(s)
    shares = thresha.random_split(F, arg, t, m)
    env.check('randbelow_calls', party.n_randbelow == t * n)
    env.check('randbelow_bound', all(b == p for b in party.randbelow_log))
    c = [[env.var(f'rb_p0_{h*t + j + 1}') for j in range(t)] for h in range(n)]
    for i in range(m):
        for h in range(n):
            env.check(f'share_reduced[{i}]', (shares[i][h] >= 0) & (shares[i][h] < p))

    def poly(h, x):
        y = 0
        for cj in c[h]:
            y = (y + cj) * x
        return y + s[h]
    sizes = {t + 1, m} | ({t + 2} if t + 2 <= m else set())
    subsets = [S for k in sorted(sizes) for S in itertools.combinations(range(m), k)]
    if P['tier'] == 'quick':
        # all subsets of size t+1, the full set and one of size t+2
        keep = [S for S in subsets if len(S) in (t + 1, m)]
        extra = [S for S in subsets if len(S) == t + 2][:1]
        subsets = keep + [e for e in extra if e not in keep]
    for S in subsets:
        pts = [(i + 1, [F(a) for a in shares[i]] if as_field else shares[i]) for i in S]
        for x_r in (0, m + 1, -1):
            r = thresha.recombine(F, pts, x_r)
            for h in range(n):
                got = r[h].value if as_field else r[h]
                want = s[h] if x_r == 0 else poly(h, x_r % p)
                env.eq_mod(f'recombine{S}@{x_r}[{h}]', got, want, p)
                if as_field:
                    env.check(f'reduced{S}@{x_r}[{h}]', (got >= 0) & (got < p))
    # x_rs given as a list: same values
    r2 = thresha.recombine(F, [(i + 1, shares[i]) for i in range(t + 1)], [0, m + 1])
    env.eq_mod('list_xrs0', r2[0][0], s[0], p)
    env.eq_mod('list_xrs1', r2[1][1], poly(1, m + 1), p)


def h_twin_wrong_oracle(env):
    """seeded wrong oracle: recombining only t shares must NOT give the secret (must come back violated)."""
    from vf import kit
    m, t, p = 3, 1, 101
    mods = kit.import_plain('mpyc.thresha', 'mpyc.finfields')
    party = kit.install(env, mods, 0, prf_stub=False)
    thresha, ff = party.thresha, party.finfields
    F = ff.GF(p)
    s = [env.fresh('s0', 0, p)]
    shares = thresha.random_split(F, list(s), t, m)
    r = thresha.recombine(F, [(1, shares[0])])
    env.eq_mod('t_shares_give_secret', r[0], s[0], p)


def h_ext(env):
    """Extension / binary fields: coefficients and secrets are symbolic integers < order; the real
    gfpx arithmetic forks on them, the solver certifies completeness of the case split."""
    from vf import kit
    P = env.params
    m, t, q = P['m'], P['t'], P['q']
    mods = kit.import_plain('mpyc.thresha', 'mpyc.finfields', 'mpyc.gfpx')
    party = kit.install(env, mods, 0, prf_stub=False)
    thresha, ff, gfpx = party.thresha, party.finfields, party.gfpx
    env.encoded(thresha.random_split, thresha.recombine)
    F = ff.GF(ff.find_irreducible(P['char'], P['deg']))
    assert F.order == q
    sv = env.fresh('s0', 0, q)
    sv = sv.__index__() if env.mode == 'sym' else sv     # fork: gfpx needs concrete digits
    s = [F(sv)]
    shares = thresha.random_split(F, s, t, m)
    env.check('randbelow_bound', all(b == q for b in party.randbelow_log) and len(party.randbelow_log) == t)
    for S in itertools.combinations(range(m), t + 1):
        pts = [(i + 1, [F(a) for a in shares[i]]) for i in S]
        r = thresha.recombine(F, pts)
        env.check(f'recombine{S}', r[0] == s[0])
    pts = [(i + 1, [F(a) for a in shares[i]]) for i in range(m)]
    env.check('recombine_all', thresha.recombine(F, pts)[0] == s[0])


def instances(tier):
    out = []
    if tier == 'quick':
        cfgs = [(1, 0), (2, 0), (3, 1), (4, 1), (5, 2)]
        primes = lambda m: [_next_prime(m), 101, 2**61 - 1]
    else:
        cfgs = [(m, t) for m in range(1, 8) for t in range(0, (m + 1) // 2) if 2 * t < m]
        primes = lambda m: sorted({_next_prime(m), 13, 101, 2**61 - 1, 2**127 - 1})
    for (m, t) in cfgs:
        for p in primes(m):
            for as_field in (False, True):
                if as_field and p > 101 and tier == 'quick':
                    continue
                out.append(Inst(f'split_recombine[m={m},t={t},p={p if p < 1000 else '2^' + str(p.bit_length())},field={int(as_field)}]',
                                h_prime, dict(m=m, t=t, p=p, as_field=as_field), timeout=300))
    out.append(Inst('twin_wrong_oracle', h_twin_wrong_oracle, {}, twin=True, expect='violated'))
    ext = [(4, 2, 2), (9, 3, 2)] + ([(8, 2, 3)] if tier != "quick" else [])
    if tier != 'quick':
        ext += [(25, 5, 2), (27, 3, 3)]           # GF(16) with (3,1) and GF(8) with (5,2) did not finish within 600 s (value forks over q^(t+2) combinations)
    for q, char, deg in ext:
        for (m, t) in ([(3, 1)] if tier == 'quick' else [(3, 1), (5, 2)]):
            if q <= m or (tier != 'quick' and t == 2 and q >= 8):
                continue
            out.append(Inst(f'ext_field[q={q},m={m},t={t}]', h_ext,
                            dict(m=m, t=t, q=q, char=char, deg=deg), timeout=600,
                            max_paths=20000))
    return out



LEVEL_TEXT = ('Bounded symbolic model checking of the real thresha.random_split/recombine: secrets and all polynomial '
              'coefficients are solver variables, every subset in the bound is an obligation "recombined value == secret '
              '(or polynomial value at x_r) mod p" decided by z3 for all values; this is the right level because the '
              'property is an algebraic identity over all field elements that sampling cannot settle.')
LEVEL_NOTE = ('Trusted: z3; the shadow-integer engine (validated per run against the real code on solver models); '
              'secrets.randbelow contract. Bounds: (m,t) and fields as listed in evidence.coverage.bounds.')
