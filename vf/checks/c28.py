"""C28 secure group operations match plain group operations (thin partial claim: quadratic-residue and Schnorr groups over small primes;
real SecureFiniteGroup operation / inversion / equality / if_else / repeat with public exponents at m=1 on symbolic elements)."""
from vf.runner import Inst

PROPERTY = 'C28'
LEVEL = 'model_checking'
BOUNDS = {'quick': dict(groups='QR(7), QR(11), Schnorr(p=7,q=3), Schnorr(p=11,q=5), Schnorr(p=13,q=3)', ops='@ and if_else (element values symbolic), also with plain operands; ~ == != for p = 7 (values forked); repeat / ^ with public exponents 0,1,2,5,p-1,-1,-3 for QR(7), QR(11), Schnorr(11,5)', parties='m=1'),
          'thorough': dict(groups='as quick plus QR(23) for @, if_else', ops='~ == != for all listed groups')}
OUTSIDE = ['repeat with public bases and secret exponents (per-party exponent shares, m > 1; harness h_m3 kept, not registered); repeat with secret exponents (the exploration of the bit-wise exponentiation did not finish within 1500 s; harness code kept, not registered)', 'party configurations m>1 (input/output of secure group elements)', 'elliptic curves, hyperelliptic curves, class groups, symmetric groups (secure versions)', 'groups over primes > 13 for ~ and == (masked reciprocal / Fermat power, see C04)',
           'decode', 'conversion from plain elements beyond construction secgrp(g)']
ASSUMPTIONS = ['secure field arithmetic (C04)', 'random_bits ideal', 'reciprocal mask non-zero on the explored path']
LEVEL_TEXT = ('Bounded and partial: for small prime-order subgroups of GF(p)*, secure operation / inversion / equality / selection results equal the plain group results for all element values at m=1. Exponentiation is covered for public exponents only; multi-party runs are NOT covered.')
LEVEL_NOTE = 'Trusted: z3, shadow-int engine. Most group families are outside the claim (listed).'


def _grp(fg, spec):
    return fg.QuadraticResidues(p=spec[1]) if spec[0] == 'qr' else fg.SchnorrGroup(p=spec[1], q=spec[2])


def _members(G, p):
    order = G.order
    return sorted({pow(v, (p - 1) // order, p) for v in range(1, p)})


def h_m1(env):
    P = env.params
    from vf import l2, kit
    k = l2.L2(env, fork_mod=1 << 4)
    mpc = k.mpc
    fg = k.mods['mpyc.fingroups']
    sg = k.mods['mpyc.secgroups']
    spec, what = P['group'], P['what']
    p = spec[1]
    G = _grp(fg, spec)
    S = mpc.SecGrp(G)
    env.encoded(sg.SecureFiniteGroup.if_else, sg.SecureFiniteGroup.repeat, sg.repeat_secret_base_secret_output, type(mpc).reciprocal)
    mem = _members(G, p)
    k.cap_calls(mpc, '_random', 3, 'retries of the reciprocal mask loop')

    def elt(name, fork=False):
        i = env.fresh(name, 0, len(mem))
        if fork or env.mode == 'conc':
            iv = i.__index__() if env.mode == 'sym' else i
            v = mem[iv]
        else:
            v = 0
            for j, mj in enumerate(mem):
                v = env.ite(i == j, mj, v) if j else mj
        F = G.field
        return v, S(S.sectype(F(v)))

    def val(z):
        return kit.fval(z.share) if hasattr(z, 'share') and not hasattr(z.share, 'value') else kit.fval(z)
    if what == 'op':
        a, x = elt('a')
        b, y = elt('b')
        env.check('operation', (kit.fval(x @ y) - a * b) % p == 0) if False else None
        r = x @ y
        env.check('operation', (kit.fval(r.share) - a * b) % p == 0)
        cb = env.fresh('c', 0, 2)
        c = S.sectype(S.sectype.field(cb))
        s = S.if_else(c, x, y)
        env.check('if_else', kit.fval(s.share) == env.ite(cb == 1, a, b))
        s2 = S.if_else(c, x, G(mem[0]))
        env.check('if_else_plain_operand', kit.fval(s2.share) == env.ite(cb == 1, a, mem[0]))
        r2 = x @ G(mem[-1])
        env.check('operation_with_plain_element', (kit.fval(r2.share) - a * mem[-1]) % p == 0)
    elif what == 'inv_eq':
        a, x = elt('a', fork=True)
        b, y = elt('b', fork=True)
        r = ~x
        env.check('inversion', (kit.fval(r.share) * a - 1) % p == 0)
        env.eq('eq', kit.fval(x == y), int(a == b))
        env.eq('ne', kit.fval(x != y), int(a != b))
        env.eq('eq_plain', kit.fval(x == G(b)), int(a == b))
        z = env.fresh('z', 0, 2)
        env.check('marker', z >= 0)
    elif what == 'repeat_public_exp':
        a, x = elt('a', fork=True)
        for n in P['exponents']:
            r = S.repeat(x, n) if P.get('via', 'repeat') == 'repeat' else x ^ n
            env.check(f'repeat{n}', kit.fval(r.share) % p == pow(a, n, p))
        z = env.fresh('z', 0, 2)
        env.check('marker', z >= 0)
    elif what == 'repeat_secret':
        a, x = elt('a', fork=True)
        secint = mpc.SecInt(3)
        e = env.fresh('e', 0, 4)
        ev = e.__index__() if env.mode == 'sym' else e
        r = S.repeat(x, secint(secint.field(ev)))
        env.check('repeat_secret_base_secret_exponent', kit.fval(r.share) % p == pow(a, ev, p))


def h_m3(env):
    """public base, secret exponent shared among three parties."""
    from vf import simnet, l1, kit
    P = env.params
    spec, prss, public_out = P['group'], P['prss'], P['public_out']
    p = spec[1]
    sim = simnet.Sim(env, 3, 1, [] if prss else ['--no-prss'])
    q = None

    async def body(party):
        mpc = party.mpc
        fg = party.fingroups
        G = _grp(fg, spec)
        S = mpc.SecGrp(G)
        qq = G.order
        secfld = mpc.SecFld(qq)
        xv = env.fresh('x', 0, qq)
        x = mpc.input(secfld(secfld.field(xv)) if party.pid == 0 else secfld(0), senders=0)
        g = G.generator
        if public_out:
            r = await S.repeat_public(g, x)
            return int(r) % p, int(g) % p, qq
        r = S.repeat(g, x)
        out = await mpc.output(r)
        return int(out) % p, int(g) % p, qq
    sim.start(body)
    res = l1.guarded_run(env, sim)
    sg = sim.parties[0].secgroups
    env.encoded(sg.repeat_public_base_secret_output, sg.repeat_public_base_public_output)
    if res is None:
        return
    x = env.var('x')
    for pid, (r, g, qq) in enumerate(res):
        want = 0
        for j in range(qq):
            want = env.ite(x == j, pow(g, j, p), want) if j else pow(g, 0, p)
        env.check(f'g^x@{pid}', r == want)


def h_twin(env):
    """twin: claims a @ b == a: must come back violated."""
    from vf import l2, kit
    k = l2.L2(env)
    mpc = k.mpc
    fg = k.mods['mpyc.fingroups']
    G = fg.QuadraticResidues(p=7)
    S = mpc.SecGrp(G)
    i = env.fresh('i', 0, 3)
    iv = i.__index__() if env.mode == 'sym' else i
    mem = _members(G, 7)
    x = S(S.sectype(G.field(mem[iv])))
    y = S(S.sectype(G.field(mem[1])))
    env.check('absorbing', kit.fval((x @ y).share) == mem[iv])


def instances(tier):
    q = tier == 'quick'
    out = []
    T = dict(timeout=1500, max_paths=50000, n_validate=1, goal_timeout_ms=120000)
    groups = [['qr', 7], ['qr', 11], ['schnorr', 7, 3], ['schnorr', 11, 5], ['schnorr', 13, 3]]
    for g in groups:
        gn = f'{g[0]}{tuple(g[1:])}'
        out.append(Inst(f'op[{gn}]', h_m1, dict(group=g, what='op'), **T))
        if g[1] <= 7 or not q:
            out.append(Inst(f'inv_eq[{gn}]', h_m1, dict(group=g, what='inv_eq'), **T))
    if not q:
        out.append(Inst("op[qr(23,)]", h_m1, dict(group=['qr', 23], what='op'), **T))
    # repeat with public exponents (one reciprocal per instance for negative exponents: the mask-retry loop multiplies paths)
    for g in groups[:2] + groups[3:4]:
        gn = f'{g[0]}{tuple(g[1:])}'
        out.append(Inst(f'repeat_public_exp[{gn},n>=0]', h_m1, dict(group=g, what='repeat_public_exp', exponents=[0, 1, 2, 5, g[1] - 1]), **T))
        out.append(Inst(f'repeat_public_exp[{gn},n=-1]', h_m1, dict(group=g, what='repeat_public_exp', exponents=[-1]), **T))
        out.append(Inst(f'repeat_public_exp[{gn},^-3]', h_m1, dict(group=g, what='repeat_public_exp', exponents=[-3], via='xor'), **T))
    # repeat with a secret exponent (bit decomposition of the exponent, one mask fork per bit and value) did not finish within 1500 s; the three-party public-base harness h_m3 are not registered: the explorations do not finish within
    # the budget, and transfer() pickles group elements whose classes live in the simulator's private module copies
    out.append(Inst('twin_absorbing', h_twin, {}, twin=True, expect='violated', timeout=600))
    return out
