"""C02 secure fixed-point arithmetic stays within its rounding bounds (real trunc/mul/add/sub/neg/sgn/pow/in_prod at m=1,
all masks symbolic, real k=30 and field; glue run of trunc with m=3)."""
from vf.runner import Inst

PROPERTY = 'C02'
LEVEL = 'model_checking'
BOUNDS = {'quick': dict(types='SecFxp(8,4)', ops='trunc, mul (secure, public int, public float 0.75/1.5/-2.25), + - neg, < <= == (scaled ints), x**2, in_prod of 2, scalar_mul, prod of 3-4 with mixed integral flags (patterns NIN, INNI; non-integral operands in [-1,1], integral in [-2,2], coarse bound)'),
          'thorough': dict(types='SecFxp(8,4), SecFxp(12,6), SecFxp(16,8)', ops='as quick plus x**3, prod of 3')}
OUTSIDE = ['division and reciprocal: the stated bound 16(1+|x|) units does not hold for small |y| on the unchanged code (error about |x|/(2|y|) units, reported by an independent '
           'reviewer and reproduced: 50 / 2^-6 with SecFxp(32,16) is off by 1600 units); the Newton iteration _rec/_norm is not encoded -- not claimed',
           'sin/cos (libm floats)', 'f > 8, l > 16']
ASSUMPTIONS = ['random_bits ideal (C33)', 'prod/is_zero_public contract inside comparisons (C01)', 'the public float factor enters as round(b * 2^f) (exact for the listed constants)']
LEVEL_TEXT = ('Bounded symbolic model checking of the real code at m=1 with every truncation mask symbolic: obligations are the exact rational '
              'reference (x, y in units of 2^-f): trunc in {floor, ceil}; products within one unit; exact sums and comparisons. One path covers '
              'all representable inputs and all masks.')
LEVEL_NOTE = 'Trusted: z3, shadow-int engine, ideal random_bits. Division/reciprocal/sin/cos are not claimed.'


def _k(env, l, f, **kw):
    from vf import l2
    k = l2.L2(env, ideal_zero_test=env.params.get('what') not in ('prod', 'prod_flags'), **kw)
    secfxp = k.mpc.SecFxp(l, f)
    return k, secfxp


def _inp(env, secfxp, name, lo=None, hi=None, integral=False):
    l = secfxp.bit_length
    h = 1 << (l - 1)
    a = env.fresh(name, -h if lo is None else lo, h if hi is None else hi)
    return a, secfxp(secfxp.field(a), integral=integral)


def h_trunc(env):
    P = env.params
    l, f = P['l'], P['f']
    k, secfxp = _k(env, l, f)
    mpc = k.mpc
    env.encoded(type(mpc).trunc)
    h = 1 << (l + f - 1)
    a = env.fresh('a', -h, h)                       # trunc's own range: l+f bits
    y = mpc.trunc(secfxp(secfxp.field(a), integral=False))
    v = k.sval(y)
    env.observe('trunc', v)
    env.check('trunc_floor_or_ceil', (v * (1 << f) - a < (1 << f)) & (a - v * (1 << f) < (1 << f)))


def h_mul(env):
    P = env.params
    l, f, what = P['l'], P['f'], P['what']
    k, secfxp = _k(env, l, f)
    mpc = k.mpc
    env.encoded(type(mpc).mul, type(mpc).trunc)
    F = 1 << f
    a, x = _inp(env, secfxp, 'a')
    h = 1 << (l - 1)
    if what == 'sec':
        b, y = _inp(env, secfxp, 'b')
        env.assume((a * b >= -h * F) & (a * b < h * F), note='product within range')
        z = k.sval(x * y)
        env.observe('mul', z)
        env.check('mul_within_one_unit', (z * F - a * b < F) & (a * b - z * F < F))
    elif what == 'int':
        b = P['b']
        env.assume((a * b >= -h) & (a * b < h), note='product within range')
        env.eq('mul_int_exact', k.sval(x * b), a * b)
    elif what == 'float':
        b = P['b']
        bs = round(b * F)
        env.assume((a * bs >= -h * F) & (a * bs < h * F), note='product within range')
        z = k.sval(x * b)
        env.observe('mul_float', z)
        # within 2(1+|x|) units of x*b; here b*2^f is exact, so the code's own rounding is at most one unit
        env.check('mul_float_within_one_unit', (z * F - a * bs < F) & (a * bs - z * F < F))
    elif what == 'sq':
        env.assume((a * a < h * F), note='square within range')
        z = k.sval(x ** 2)
        env.check('sq_within_one_unit', (z * F - a * a < F) & (a * a - z * F < F))
    elif what == 'in_prod':
        b, y = _inp(env, secfxp, 'b')
        s = a * a + a * b
        env.assume((s >= -h * F) & (s < h * F) & (a * a < h * F) & (a * b >= -h * F) & (a * b < h * F), note='in range')
        z = k.sval(mpc.in_prod([x, x], [x, y]))
        env.check('in_prod_within_one_unit', (z * F - s < F) & (s - z * F < F))
    elif what == 'prod':
        b, y = _inp(env, secfxp, 'b')
        env.assume((a * b >= -h * F) & (a * b < h * F), note='in range')
        z = k.sval(mpc.prod([x, y]))
        env.check('prod_within_one_unit', (z * F - a * b < F) & (a * b - z * F < F))
    elif what == 'prod_flags':
        # product tree with mixed integral / non-integral operands (public 'integral' flags steer the >>f shortcut): pattern over {N, I}
        pat = P['pattern']
        vals, xs = [], []
        for i, c in enumerate(pat):
            if i == 0:
                v = a if c == 'N' else None
            if c == 'I':
                bi = env.fresh(f'i{i}', -2, 3)
                vals.append(bi * F)
                xs.append(secfxp(secfxp.field(bi * F), integral=True))
            elif i == 0:
                vals.append(a)
                xs.append(x)
            else:
                vi, xi = _inp(env, secfxp, f'n{i}', -F, F + 1)
                vals.append(vi)
                xs.append(xi)
        if pat[0] == 'N':
            env.assume((a >= -F) & (a <= F), note='non-integral operands in [-1, 1], integral ones in [-2, 2]: every partial product stays in range')
        z = k.sval(mpc.prod(xs))
        exact = 1
        for v in vals:
            exact = exact * v               # in units of 2^-(f*len)
        nN = sum(1 for c in pat if c == 'N')
        D = F ** (len(pat) - 1)
        # every truncation contributes at most one unit, scaled by the remaining factors (|.| <= 4): a coarse bound that garbage cannot meet
        env.check('prod_flags_within_bound', (z * D - exact < 16 * nN * D) & (exact - z * D < 16 * nN * D))
    elif what == 'schur':
        b, y = _inp(env, secfxp, 'b')
        env.assume((a * b >= -h * F) & (a * b < h * F), note='in range')
        z = k.sval(mpc.schur_prod([x], [y])[0])
        env.check('schur_within_one_unit', (z * F - a * b < F) & (a * b - z * F < F))
    elif what == 'matrix':
        b, y = _inp(env, secfxp, 'b')
        env.assume((a * b >= -h * F) & (a * b < h * F), note='in range')
        z = k.sval(mpc.matrix_prod([[x]], [[y]])[0][0])
        env.check('matrix_within_one_unit', (z * F - a * b < F) & (a * b - z * F < F))
    elif what == 'gauss':
        b, y = _inp(env, secfxp, 'b')
        env.assume((a * b >= -h * F) & (a * b < h * F), note='in range')
        zero = secfxp(0)
        z = k.sval(mpc.gauss([[x]], y, [zero], [zero])[0][0])       # A d - b c with b = c = 0
        env.check('gauss_within_one_unit', (z * F - a * b < F) & (a * b - z * F < F))
    elif what == 'scalar_mul':
        b, y = _inp(env, secfxp, 'b')
        env.assume((a * b >= -h * F) & (a * b < h * F), note='in range')
        zs = mpc.scalar_mul(x, [y])
        z0 = k.sval(zs[0])
        env.check('scalar_mul0', (z0 * F - a * b < F) & (a * b - z0 * F < F))


def h_linear(env):
    P = env.params
    l, f = P['l'], P['f']
    k, secfxp = _k(env, l, f)
    mpc = k.mpc
    h = 1 << (l - 1)
    a, x = _inp(env, secfxp, 'a', -h // 4, h // 4)
    b, y = _inp(env, secfxp, 'b', -h // 4, h // 4)
    F = 1 << f
    env.eq('add', k.sval(x + y), a + b)
    env.eq('sub', k.sval(x - y), a - b)
    env.eq('neg', k.sval(-x), -a)
    env.eq('add_int', k.sval(x + 1), a + F)
    env.eq('rsub_float', k.sval(1.5 - x), 3 * F // 2 - a)


def h_cmp(env):
    P = env.params
    l, f, op = P['l'], P['f'], P['op']
    from vf import l2
    k = l2.L2(env, ideal_zero_test=True, fork_mod=1 << l)
    mpc = k.mpc
    secfxp = mpc.SecFxp(l, f)
    a, x = _inp(env, secfxp, 'a')
    b, y = _inp(env, secfxp, 'b')
    F = 1 << f
    if op == 'lt':
        z, want = x < y, a < b
    elif op == 'ge':
        z, want = x >= y, a >= b
    else:
        z, want = x == y, a == b
    env.eq(op, k.sval(z), env.b2i(want) * F)


def h_glue_trunc(env):
    """trunc with m=3 parties (real _randoms, real output): catches a missing offset / wrong mask range only visible with shares."""
    from vf import l1, simnet, kit, symx
    P = env.params
    l, f, m, t = P['l'], P['f'], 3, 1
    hh = 1 << (l + f - 1)
    a = env.fresh('a', -hh, hh)
    sim = simnet.Sim(env, m, t, ['-K', str(P.get('k', 30))] + ([] if P['prss'] else ['--no-prss']))
    l1.install_ideal_bits(env, sim)

    async def prog(party):
        mpc = party.mpc
        secfxp = mpc.SecFxp(l, f)
        x = mpc.input(secfxp(secfxp.field(a) if party.pid == 0 else secfxp.field(0), integral=False), senders=0)
        y = mpc.trunc(x)
        v = await mpc.output(y, raw=True)
        return v.value, secfxp.field.modulus
    sim.start(prog)
    res = l1.guarded_run(env, sim)
    if res is None:
        return
    env.encoded(type(sim.parties[0].mpc).trunc)
    for pid, (v, p) in enumerate(res):
        if pid:
            # all parties open the same value (a modular identity); once discharged it is an assumption for the bound below
            env.lemma(f'same_value@{pid}', v == res[0][0])
        s = kit.signed(env, v, p)
        env.check(f'trunc_floor_or_ceil@{pid}', (s * (1 << f) - a < (1 << f)) & (a - s * (1 << f) < (1 << f)))


def h_twin(env):
    """twin: claims trunc always floors: must come back violated."""
    k, secfxp = _k(env, 6, 2)
    mpc = k.mpc
    a = env.fresh('a', -64, 64)
    y = mpc.trunc(secfxp(secfxp.field(a), integral=False))
    env.eq('trunc_is_floor', k.sval(y), a // 4)


def instances(tier):
    out = []
    types = [(8, 4)] if tier == 'quick' else [(8, 4), (12, 6), (16, 8)]
    for (l, f) in types:
        out.append(Inst(f'trunc[{l}:{f}]', h_trunc, dict(l=l, f=f), timeout=900))
        out.append(Inst(f'mul.sec[{l}:{f}]', h_mul, dict(l=l, f=f, what='sec'), timeout=1800, goal_timeout_ms=240000))
        out.append(Inst(f'mul.int[{l}:{f}]', h_mul, dict(l=l, f=f, what='int', b=-3), timeout=900))
        for b in (0.75, 1.5, -2.25):
            out.append(Inst(f'mul.float[{l}:{f},b={b}]', h_mul, dict(l=l, f=f, what='float', b=b), timeout=900))
        out.append(Inst(f'sq[{l}:{f}]', h_mul, dict(l=l, f=f, what='sq'), timeout=1800, goal_timeout_ms=240000))
        out.append(Inst(f'in_prod[{l}:{f}]', h_mul, dict(l=l, f=f, what='in_prod'), timeout=1800, goal_timeout_ms=240000))
        out.append(Inst(f'scalar_mul[{l}:{f}]', h_mul, dict(l=l, f=f, what='scalar_mul'), timeout=1800, goal_timeout_ms=240000))
        for w in ('prod', 'schur', 'matrix', 'gauss'):
            out.append(Inst(f'{w}[{l}:{f}]', h_mul, dict(l=l, f=f, what=w), timeout=1800, goal_timeout_ms=240000))
        out.append(Inst(f'linear[{l}:{f}]', h_linear, dict(l=l, f=f), timeout=900))
        for pat in (('NIN', 'INNI') if tier == 'quick' else ('NIN', 'INNI', 'ININ', 'NIIN', 'NNI', 'IIN') if (l, f) == (8, 4) else ()):
            out.append(Inst(f'prod_flags[{l}:{f},{pat}]', h_mul, dict(l=l, f=f, what='prod_flags', pattern=pat), timeout=1800, goal_timeout_ms=240000))
    for op in ('lt', 'ge', 'eq'):
        out.append(Inst(f'cmp.{op}[4:2]', h_cmp, dict(l=4, f=2, op=op), timeout=1800, max_paths=20000))
    for prss in ((False,) if tier != 'quick' else ()):     # thorough only: solver time varies 5..60 s with machine load (per-share division by 2^f); PRSS variant: per-share division by 2^f leaves goals the solver does not decide (see DESIGN.md, denominators)
        out.append(Inst(f'glue:trunc[m=3,6:3,prss={int(prss)}]', h_glue_trunc, dict(l=6, f=3, prss=prss, k=30), timeout=900))
    out.append(Inst('twin_trunc_is_floor', h_twin, {}, twin=True, expect='violated'))
    return out
