"""C17 the PRF is deterministic and its outputs lie in range (real thresha.PRF.__init__/__call__, SHAKE stubbed as an
arbitrary extendable-output byte stream: every byte of the stream is a solver variable)."""
from vf.runner import Inst

PROPERTY = 'C17'
LEVEL = 'model_checking'
BOUNDS = {'quick': dict(bounds='1,2,3,5,7,8,16,127,128,129,255,256,257,1000,2^15,65536,65537,2^20,2^31, a 36-bit prime, 2^61-1, 2^63', n='None,0,1,2,3', key='16 bytes'),
          'thorough': dict(bounds='as quick plus 2^127-1, 2^255-19', n='None,0..4')}
OUTSIDE = ['SHAKE-128 itself (stubbed as an arbitrary XOF: prefix-consistent byte stream per (key, input))', 'shape-valued n (NumPy, C37)', 'pseudorandomness']
ASSUMPTIONS = ['hashlib.shake_128(k+s).digest(n) returns the first n bytes of a stream that depends only on k+s']
LEVEL_TEXT = ('Bounded symbolic model checking of the real PRF code over an arbitrary XOF byte stream: obligations: every value in range(bound), '
              'exactly n values, element 0 of a list equals the scalar call, equal (key, input) give equal outputs; bounds enumerated.')
LEVEL_NOTE = 'Trusted: z3, shadow-int engine, symbytes shims, XOF contract of SHAKE.'

P36 = 68719476731


def h(env):
    from vf import kit, symbytes, symx
    P = env.params
    bound = P['bound']
    mods = kit.import_plain('mpyc.thresha')
    thresha = mods['mpyc.thresha']
    env.encoded(thresha.PRF.__init__, thresha.PRF.__call__)
    streams = {}
    MAXB = 5 * 48

    class Shake:
        def __init__(self, data):
            self.data = bytes(data)

        def digest(self, n):
            if self.data not in streams:
                streams[self.data] = symbytes.Stream(env, MAXB, name=f'xof{len(streams)}_')
            st = streams[self.data]
            if n > MAXB:
                raise symx.Unmodelled('digest longer than the modelled stream')
            return st.view(0, n)
    thresha.shake_128 = Shake
    env.stubs.add('hashlib.shake_128 -> arbitrary prefix-consistent byte stream per input (XOF contract)')
    if env.mode == 'sym':
        thresha.__dict__['int'] = symx.IntShim
        thresha.__dict__['len'] = symbytes.symlen
    key = bytes(range(16))
    F = thresha.PRF(key, bound)
    G = thresha.PRF(key, bound)
    s = b'\x07\x00\x00\x00\x00\x00\x00\x00'
    x = F(s)
    env.check('scalar_in_range', (x >= 0) & (x < bound))
    for n in P['ns']:
        xs = F(s, n)
        env.check(f'n={n}:is_list', isinstance(xs, list))
        env.check(f'n={n}:count', len(xs) == n)
        for i, v in enumerate(xs):
            env.check(f'n={n}:in_range[{i}]', (v >= 0) & (v < bound))
        if n >= 1:
            env.eq(f'n={n}:first_equals_scalar', xs[0], x)
        ys = G(s, n)
        for i, (a, b) in enumerate(zip(xs, ys)):
            env.eq(f'n={n}:deterministic[{i}]', b, a)
        if n >= 2:
            zs = F(s, n - 1)
            for i, (a, b) in enumerate(zip(zs, xs)):
                env.eq(f'n={n}:prefix_consistent[{i}]', a, b)
    # another input uses another stream: nothing to assert beyond range
    y = F(b'\x08\x00\x00\x00\x00\x00\x00\x00')
    env.check('other_input_in_range', (y >= 0) & (y < bound))
    env.observe('x', x)


def h_twin(env):
    """twin: claims two different inputs give equal outputs: must come back violated."""
    from vf import kit, symbytes, symx
    mods = kit.import_plain('mpyc.thresha')
    thresha = mods['mpyc.thresha']
    streams = {}

    class Shake:
        def __init__(self, data):
            self.data = bytes(data)

        def digest(self, n):
            if self.data not in streams:
                streams[self.data] = symbytes.Stream(env, 40, name=f'xof{len(streams)}_')
            return streams[self.data].view(0, n)
    thresha.shake_128 = Shake
    if env.mode == 'sym':
        thresha.__dict__['int'] = symx.IntShim
        thresha.__dict__['len'] = symbytes.symlen
    F = thresha.PRF(bytes(16), 1000)
    env.eq('inputs_collide', F(b'a'), F(b'b'))


def instances(tier):
    bounds = [1, 2, 3, 5, 7, 8, 16, 127, 128, 129, 255, 256, 257, 1000, 1 << 15, 65536, 65537, 1 << 20, 1 << 31, P36, 2**61 - 1, 1 << 63]
    if tier != 'quick':
        bounds += [2**127 - 1, 2**255 - 19]
    ns = [0, 1, 2, 3] if tier == 'quick' else [0, 1, 2, 3, 4]
    out = [Inst(f'prf[bound={b if b < 10**7 else "2^" + str(b.bit_length())}]', h, dict(bound=b, ns=ns), timeout=600) for b in bounds]
    out.append(Inst('twin_inputs_collide', h_twin, {}, twin=True, expect='violated'))
    return out
