"""C37 secure NumPy arrays agree with plain NumPy and with secure scalars (NumPy from the offline wheelhouse in the check's own venv;
the real array code runs on object-dtype arrays whose entries are the engine's symbolic integers)."""
import os
from vf.runner import Inst

PROPERTY = 'C37'
LEVEL = 'model_checking'
BOUNDS = {'quick': dict(sharing='np_random_split / np_recombine / np_pseudorandom_share / np_pseudorandom_share_0 vs the list versions: (m,t) in {(3,1),(5,2)}, 2 secrets, prime field',
                        arith='SecInt(8) and SecFld(11) arrays of shapes (2,2), (2,), (2,1), (1,2), scalars: + - * neg @ outer sum prod cumsum trace, broadcasting, public operands (m=1)',
                        reduce3d='sum prod all any cumsum over every axis / axis pair of a (1,2,3) array, 3-D transpose / slices', shapes='reshape, transpose, flatten, concatenate, stack, vstack, hstack, getitem/slices, flip, roll, diag, tolist/fromlist on a (2,3) array (m=1)',
                        fxp='SecFxp(8,4) arrays: elementwise product and matmul within one unit per truncation (ideal random bits)',
                        cmp='SecInt(3) arrays of 2 elements: < == sgn minimum maximum amin amax argmin argmax sort vs NumPy (ideal random bits)',
                        io='m=3, t=1 with and without PRSS: input / output of a (2,) SecInt array and an elementwise product with array resharing'),
          'thorough': dict(arith='as quick plus shapes (2,3)@(3,2) and (3,)', cmp='3 elements', io='plus m=4,t=1 and m=5,t=2')}
OUTSIDE = ['arrays beyond the listed shapes and sizes', 'np_ functions not listed (np_det, np_convolve, np_block, splits, rot90, np_find, np_unit_vector, logarithms/exponentials, np_to_bits/from_bits, np_pow with secret exponents, np_divide)',
           'secure fixed-point division and np_reciprocal', 'secure floating-point arrays', 'dtype-specialised storage (the library stores every field array with dtype=object)',
           'pickled payloads of array resharing are modelled as tokens on the simulated wire (their byte format is the pickle module\'s)']
ASSUMPTIONS = ['NumPy\'s own object-array arithmetic (the reference is NumPy applied to the arrays of symbolic integers)', 'np_random_bits / random_bits ideal (C33)',
               'secrets.randbelow uniform, PRF values independent per (key, input) (C17)']
LEVEL_TEXT = ('Bounded symbolic model checking of the real array code paths: array entries are solver variables; the obligations compare every entry of every result with '
              'plain NumPy on the same symbolic entries (mod p; within one unit per truncation for fixed point), with the secure scalar operation where that is the reference, '
              'and the array-based sharing primitives with the list-based ones term by term.')
LEVEL_NOTE = 'Trusted: z3, shadow-int engine, NumPy object-array arithmetic, simnet (token model of pickled payloads).'


def _numpy_on():
    os.environ['MPYC_NONUMPY'] = '0'


def _arr(np, vals, shape):
    a = np.empty(len(vals), dtype=object)
    for i, v in enumerate(vals):
        a[i] = v
    return a.reshape(shape)


def _val(X):
    """value array (object ndarray) / scalar value of a secure array, secure number, field array or field element."""
    sh = getattr(X, 'share', X)
    if hasattr(sh, 'result'):
        sh = sh.result()
    return getattr(sh, 'value', sh)


def _cmp_arrays(env, np, label, got, want, p, tol=None):
    got = np.asarray(got, dtype=object) if not isinstance(got, np.ndarray) else got
    want = np.asarray(want, dtype=object) if not isinstance(want, np.ndarray) else want
    env.check(f'{label}:shape', tuple(got.shape) == tuple(want.shape))
    if tuple(got.shape) != tuple(want.shape):
        return
    g, w = got.reshape(-1), want.reshape(-1)
    for i in range(len(g)):
        env.check(f'{label}[{i}]', (g[i] - w[i]) % p == 0)


# ------------------------------------------------------------------------------------------------ sharing primitives
def h_sharing(env):
    _numpy_on()
    from vf import kit
    P = env.params
    m, t, n = P['m'], P['t'], 2
    mods = kit.import_plain('mpyc.thresha', 'mpyc.finfields', 'mpyc.gfpx', 'mpyc.gmpy', 'mpyc.numpy')
    party = kit.install(env, mods, 0, prf_stub=True)
    thresha, ff = party.thresha, party.finfields
    np = thresha.np
    if np is None:
        from vf.symx import Unmodelled
        raise Unmodelled('NumPy is not available in the check environment (setup.sh installs it from the offline wheelhouse)')
    env.encoded(thresha.np_random_split, thresha.np_recombine, thresha.np_pseudorandom_share, thresha.np_pseudorandom_share_0,
                thresha.random_split, thresha.recombine, thresha.pseudorandom_share, thresha.pseudorandom_share_zero)
    p = P['p']
    F = ff.GF(p)
    S = [env.fresh(f's{h}', 0, p) for h in range(n)]
    what = P['what']
    if what == 'split':
        sh = thresha.np_random_split(F, F.array(_arr(np, S, (n,))), t, m)
        env.check('split:shape', tuple(sh.shape) == (m, n))
        draws = [env.var(f'rb_p0_{j + 1}') for j in range(t * n)]
        env.check('split:draws', party.n_randbelow == t * n and all(b == p for b in party.randbelow_log))
        # row i is the value at i+1 of s_h + sum_j C[j][h] X^(j+1), C = the t*n fresh draws reshaped (t, n): a degree-t polynomial in independent coefficients
        for i in range(m):
            for h in range(n):
                poly = S[h] + sum(draws[j * n + h] * (i + 1) ** (j + 1) for j in range(t))
                env.check(f'split:row{i}[{h}]', (sh[i][h] - poly) % p == 0)
        # the list-based and array-based recombination both recover the secrets from any t+1 of these rows, and agree at other points
        import itertools
        for sub in list(itertools.combinations(range(m), t + 1))[:4]:
            pts_np = [(i + 1, sh[i]) for i in sub]
            pts_l = [(i + 1, [F(v) for v in sh[i]]) for i in sub]
            r_np = thresha.np_recombine(F, pts_np)
            r_l = thresha.recombine(F, pts_l)
            for h in range(n):
                env.check(f'recombine{sub}:np[{h}]', (_val(r_np)[h] - S[h]) % p == 0)
                env.check(f'recombine{sub}:list[{h}]', (_val(r_l[h]) - S[h]) % p == 0)
            xr = [m + 1, 0]
            q_np = thresha.np_recombine(F, pts_np, xr)
            q_l = thresha.recombine(F, pts_l, xr)
            for r in range(2):
                for h in range(n):
                    env.check(f'recombine{sub}@x_rs[{r}][{h}]:np==list', (_val(q_np)[r][h] - _val(q_l[r][h])) % p == 0)
        # a list-based dealing is recombined by the array version as well
        rows = thresha.random_split(F, [F(v) for v in S], t, m)
        sub = tuple(range(m - t - 1, m))
        r_np = thresha.np_recombine(F, [(i + 1, _arr(np, [_val(v) for v in rows[i]], (n,))) for i in sub])
        for h in range(n):
            env.check(f'np_recombine(list dealing)[{h}]', (_val(r_np)[h] - S[h]) % p == 0)
    else:
        import itertools
        bound = P.get('bound', p)
        keys = {}
        for sub in itertools.combinations(range(m), m - t):
            keys[frozenset(sub)] = bytes([0x4b, 0]) + bytes([len(keys) + 1]) + bytes(13)
        uci = b'\x01\x02'
        d = t           # number of PRF outputs per zero-sharing and subset: m - |S|
        nat = {'np': [], 'list': []}
        rev = {'np': [], 'list': []}
        for i in range(m):
            prfs = {S_: thresha.PRF(k, bound) for S_, k in keys.items() if i in S_}
            if what == 'prss':
                a_np = _val(thresha.np_pseudorandom_share(F, m, i, prfs, uci, n)).reshape(-1)
                a_l = thresha.pseudorandom_share(F, m, i, prfs, uci, n)
                env.check(f'{what}:len@{i}', len(a_np) == n == len(a_l))
                for h in range(n):
                    env.check(f'{what}:np==list@{i}[{h}]', (a_np[h] - _val(a_l[h])) % p == 0)
                continue
            a_np = _val(thresha.np_pseudorandom_share_0(F, m, i, prfs, uci, n)).reshape(-1)
            a_l = thresha.pseudorandom_share_zero(F, m, i, prfs, uci, n)
            env.check(f'{what}:len@{i}', len(a_np) == n == len(a_l))
            # reference: share of party i of sum_S f_S(X) * X * g_S(X), g_S of degree d-1 with the d PRF outputs of S as coefficients, in an order
            # that must not depend on the party (the list version uses the outputs in descending, the array version in ascending order of powers)
            for order, acc in (('nat', nat), ('rev', rev)):
                for h in range(n):
                    ref = 0
                    for S_, prf in prfs.items():
                        fl = prf(uci, n * d)
                        g = sum(fl[h * d + (j if order == 'nat' else d - 1 - j)] * (i + 1) ** (j + 1) for j in range(d))
                        ref = ref + g * _val(thresha._f_S_i(F, m, i, S_))
                    acc['np'].append((a_np[h] - ref) % p == 0)
                    acc['list'].append((_val(a_l[h]) - ref) % p == 0)
        if what != 'prss':
            for ver in ('np', 'list'):
                env.check(f'{what}:{ver}_shares_are_values_of_one_zero_sharing_polynomial', env.any([env.all(nat[ver]), env.all(rev[ver])]))
        z = env.fresh('z', 0, 2)
        env.check('marker', z >= 0)


# ------------------------------------------------------------------------------------------------ m = 1 arrays
def _kit(env, **kw):
    _numpy_on()
    from vf import l2
    k = l2.L2(env, **kw)
    np = k.mods['mpyc.numpy'].np
    if np is None:
        from vf.symx import Unmodelled
        raise Unmodelled('NumPy is not available in the check environment (setup.sh installs it from the offline wheelhouse)')
    return k, k.mpc, np


def _secarr(env, np, st, name, shape, lo, hi, **kw):
    import math
    n = math.prod(shape)
    vs = [env.fresh(f'{name}{i}', lo, hi) for i in range(n)]
    V = _arr(np, vs, shape)
    A = st.array(st.field.array(V.copy()), **kw) if kw else st.array(st.field.array(V.copy()))
    return V, A


def h_arith(env):
    P = env.params
    k, mpc, np = _kit(env)
    kind = P['type']
    st = mpc.SecInt(8) if kind == 'int' else mpc.SecFld(11)
    F = st.field
    p = F.modulus
    lo, hi = (-8, 8) if kind == 'int' else (0, 11)
    R = type(mpc)
    env.encoded(R.np_add, R.np_subtract, R.np_multiply, R.np_matmul, R.np_negative, R.np_sum, R.np_prod, R.np_outer, R.np_cumsum, R.np_trace)
    shapes = P['shapes']
    Av, A = _secarr(env, np, st, 'a', tuple(shapes[0]), lo, hi)
    Bv, B = _secarr(env, np, st, 'b', tuple(shapes[1]), lo, hi)
    c = env.fresh('c', lo, hi)
    sc = st(F(c))
    C = lambda lab, got, want: _cmp_arrays(env, np, lab, _val(got), want, p)
    grp = P['group']
    if grp == 'elementwise':
        C('A+B', A + B, Av + Bv)
        C('A-B', A - B, Av - Bv)
        C('A*B', A * B, Av * Bv)
        C('-A', -A, -Av)
        C('A+3', A + 3, Av + 3)
        C('3-A', 3 - A, 3 - Av)
        C('A*scalar', A * sc, Av * c)
        C('scalar+A', sc + A, c + Av)
        C('A*public_array', A * np.array([2, 3]), Av * np.array([2, 3], dtype=object)) if Av.shape[-1] == 2 else None
        C('np.add', np.add(A, B), Av + Bv)
        C('np.multiply', np.multiply(A, B), Av * Bv)
        # agreement with secure scalars
        flatA, flatB = Av.reshape(-1), Bv.reshape(-1)
        if Av.shape == Bv.shape:
            got = _val(A * B).reshape(-1)
            for i in range(len(flatA)):
                s_ = st(F(flatA[i])) * st(F(flatB[i]))
                env.check(f'A*B[{i}]==scalar_mul', (got[i] - _val(s_)) % p == 0)
    elif grp == 'matmul':
        C('A@B', A @ B, Av @ Bv)
        if Av.ndim == 2 and Bv.ndim == 2:
            C('A@B[:,0]', A @ B[:, 0], Av @ Bv[:, 0])
            C('A[0]@B', A[0] @ B, Av[0] @ Bv)
        C('outer', np.outer(A, B), np.outer(Av, Bv))
    else:
        C('sum', np.sum(A), np.sum(Av))
        C('sum0', np.sum(A, axis=0), np.sum(Av, axis=0))
        C('A.sum(1)', A.sum(axis=Av.ndim - 1), Av.sum(axis=Av.ndim - 1))
        C('prod', np.prod(A), np.prod(Av))
        C('prod0', np.prod(A, axis=0), np.prod(Av, axis=0))
        C('cumsum', np.cumsum(A), np.cumsum(Av))
        if Av.ndim == 2:
            C('trace', np.trace(A), np.trace(Av))


def h_reduce3d(env):
    """reductions over every axis (and axis tuples) of a 3-D array; all/any on 0/1 entries."""
    P = env.params
    k, mpc, np = _kit(env)
    st = mpc.SecInt(8)
    p = st.field.modulus
    shape = tuple(P['shape'])
    R = type(mpc)
    env.encoded(R.np_sum, R.np_prod, R.np_all, R.np_any, R.np_cumsum, R.np_amax)
    Av, A = _secarr(env, np, st, 'a', shape, -3, 4)
    Bv, B = _secarr(env, np, st, 'b', shape, 0, 2)
    C = lambda lab, got, want: _cmp_arrays(env, np, lab, _val(got), want, p)
    for ax in (0, 1, 2, -1, (0, 2), (1, 2), None):
        C(f'sum[axis={ax}]', np.sum(A, axis=ax), np.sum(Av, axis=ax))
        C(f'prod[axis={ax}]', np.prod(A, axis=ax), np.prod(Av, axis=ax))
        # all / any on bits: product / complement of the product of complements
        want_all = np.prod(Bv, axis=ax)
        want_any = 1 - np.prod(1 - Bv, axis=ax)
        C(f'all[axis={ax}]', np.all(B, axis=ax), want_all)
        C(f'any[axis={ax}]', np.any(B, axis=ax), want_any)
    for ax in (0, 1, 2):
        C(f'cumsum[axis={ax}]', np.cumsum(A, axis=ax), np.cumsum(Av, axis=ax))
    C('transpose(2,0,1)', np.transpose(A, (2, 0, 1)), np.transpose(Av, (2, 0, 1)))
    C('swapaxes(0,2)', np.swapaxes(A, 0, 2), np.swapaxes(Av, 0, 2))
    C('A[:,1,:]', A[:, 1, :], Av[:, 1, :])
    C('A[0,:,1:]', A[0, :, 1:], Av[0, :, 1:])


def h_shapes(env):
    k, mpc, np = _kit(env)
    st = mpc.SecInt(8)
    p = st.field.modulus
    Av, A = _secarr(env, np, st, 'a', (2, 3), -8, 8)
    Bv, B = _secarr(env, np, st, 'b', (2, 3), -8, 8)
    R = type(mpc)
    env.encoded(R.np_reshape, R.np_transpose, R.np_flatten, R.np_concatenate, R.np_stack, R.np_vstack, R.np_hstack, R.np_getitem, R.np_flip, R.np_roll,
                R.np_diag, R.np_tolist, R.np_fromlist, R.np_copy, R.np_swapaxes, R.np_expand_dims, R.np_squeeze, R.np_append, R.np_update)
    C = lambda lab, got, want: _cmp_arrays(env, np, lab, _val(got), want, p)
    C('reshape', A.reshape(3, 2), Av.reshape(3, 2))
    C('np.reshape', np.reshape(A, (6,)), np.reshape(Av, (6,)))
    C('T', A.T, Av.T)
    C('transpose', np.transpose(A), np.transpose(Av))
    C('flatten', A.flatten(), Av.flatten())
    C('concatenate0', np.concatenate((A, B)), np.concatenate((Av, Bv)))
    C('concatenate1', np.concatenate((A, B), axis=1), np.concatenate((Av, Bv), axis=1))
    C('stack', np.stack((A, B)), np.stack((Av, Bv)))
    C('stack1', np.stack((A, B), axis=1), np.stack((Av, Bv), axis=1))
    C('vstack', np.vstack((A, B)), np.vstack((Av, Bv)))
    C('hstack', np.hstack((A, B)), np.hstack((Av, Bv)))
    C('A[0]', A[0], Av[0])
    C('A[:,1]', A[:, 1], Av[:, 1])
    C('A[1,2]', A[1, 2], Av[1, 2])
    C('A[:,::-1]', A[:, ::-1], Av[:, ::-1])
    C('A[0:1,1:]', A[0:1, 1:], Av[0:1, 1:])
    C('flip', np.flip(A), np.flip(Av))
    C('flip0', np.flip(A, axis=0), np.flip(Av, axis=0))
    C('roll', np.roll(A, 1), np.roll(Av, 1))
    C('roll_axis', np.roll(A, 2, axis=1), np.roll(Av, 2, axis=1))
    C('diag', np.diag(A[:, :2]), np.diag(Av[:, :2]))
    C('swapaxes', np.swapaxes(A, 0, 1), np.swapaxes(Av, 0, 1))
    C('expand_dims', np.expand_dims(A, 0), np.expand_dims(Av, 0))
    C('squeeze', np.squeeze(A[0:1]), np.squeeze(Av[0:1]))
    C('append', np.append(A, B), np.append(Av, Bv))
    C('copy', A.copy(), Av.copy())
    lst = A.tolist()
    env.check('tolist:nesting', len(lst) == 2 and len(lst[0]) == 3)
    for i in range(2):
        for j in range(3):
            env.check(f'tolist[{i}][{j}]', (_val(lst[i][j]) - Av[i, j]) % p == 0)
    C('fromlist', mpc.np_fromlist(lst[0] + lst[1]), Av.reshape(-1))
    D = mpc.np_update(A, (0, 1), B[1, 1])
    Dv = Av.copy()
    Dv[0, 1] = Bv[1, 1]
    C('update', D, Dv)
    env.check('shape_attr', A.shape == (2, 3) and A.ndim == 2 and A.size == 6 and len(A) == 2)


def _ideal_np_bits(env, k, mpc, np):
    """np_random_bits by its ideal functionality (fresh bits), as random_bits in the scalar checks."""
    base = k.n_bits

    def np_random_bits(sftype, n, signed=False):
        issec = isinstance(sftype, type) and issubclass(sftype, mpc.SecureObject)
        field = sftype.field if issec else sftype
        f = getattr(sftype, 'frac_length', 0) if issec else 0
        vals = []
        for _ in range(n):
            k.n_bits += 1
            b = env.fresh(f'bit{k.n_bits}', 0, 2)
            vals.append((2 * b - 1 if signed else b) * (1 << f))
        arr = field.array(_arr(np, vals, (n,)))
        if issec:
            return sftype.array(arr, True) if f else sftype.array(arr)
        from vf.l2 import AwList
        fut = k.asyncoro._AwaitableFuture(arr) if hasattr(k.asyncoro, '_AwaitableFuture') else arr
        return fut
    mpc.np_random_bits = np_random_bits
    env.stubs.add('Runtime.np_random_bits -> fresh bits (ideal functionality, C33)')


def _ideal_np_zero_test(env, k, mpc, np):
    """np_prod(e, axis=0) followed by np_is_zero_public replaced by their contract 'some factor in the column is 0' (as prod / is_zero_public
    in the scalar checks; the masked multiplicative zero test itself is a subject of C01/C18); symbolic run only."""
    if env.mode != 'sym':
        return
    from vf import kit
    orig_prod, orig_izp = mpc.np_prod, mpc.np_is_zero_public

    class NpProd:
        def __init__(self, e, axis):
            self.e, self.axis = e, axis

    def np_prod(a, axis=None, *args, **kw):
        import sys
        if axis == 0 and not args and not kw and sys._getframe(1).f_code.co_name == 'np_sgn':       # the product that feeds the public zero test
            return NpProd(_val(a), axis)
        return orig_prod(a, axis, *args, **kw)

    def np_is_zero_public(a):
        if isinstance(a, NpProd):
            rows, cols = a.e.shape
            g = [env.ite(env.any(a.e[i, j] == 0 for i in range(rows)), 1, 0) for j in range(cols)]
            return k.asyncoro._AwaitableFuture(_arr(np, g, (cols,)))
        return orig_izp(a)
    mpc.np_prod = np_prod
    mpc.np_is_zero_public = np_is_zero_public
    env.stubs.add('Runtime.np_prod(e, axis=0) + np_is_zero_public -> "some factor of the column is zero" (contract; symbolic run only)')


def _ideal_np_sgn(env, k, mpc, np):
    """np_sgn by its contract (exact sign / less-than / equality per element), established for the real array protocol by the cmp:lt, cmp:eq and
    cmp:sgn instances; used for the operations built on top of comparisons (symbolic run only; replays run the real protocol)."""
    if env.mode != 'sym':
        return
    from vf import kit

    def np_sgn(a, l=None, LT=False, EQ=False):
        stype = type(a)
        F = stype.sectype.field
        p = F.modulus
        f = stype.frac_length
        V = _val(a)
        out = []
        for v in V.reshape(-1):
            s = kit.signed(env, v, p)
            if LT:
                r = env.ite(s < 0, 1, 0)
            elif EQ:
                r = env.ite(s == 0, 1, 0)
            else:
                r = env.ite(s < 0, -1, env.ite(s == 0, 0, 1))
            out.append(r * (1 << f))
        arr = F.array(_arr(np, out, V.shape))
        return stype(arr, True) if f else stype(arr)
    mpc.np_sgn = np_sgn
    env.stubs.add('Runtime.np_sgn -> exact sign per element (contract established by the cmp:lt / cmp:eq / cmp:sgn instances on the real protocol; symbolic run only)')


def h_fxp(env):
    P = env.params
    k, mpc, np = _kit(env)
    _ideal_np_bits(env, k, mpc, np)
    st = mpc.SecFxp(8, 4)
    F = st.field
    p = F.modulus
    f = 4
    S = 1 << f
    R = type(mpc)
    env.encoded(R.np_multiply, R.np_matmul, R.np_trunc)
    Av, A = _secarr(env, np, st, 'a', (2,), -2 * S, 2 * S, integral=False)
    Bv, B = _secarr(env, np, st, 'b', (2,), -2 * S, 2 * S, integral=False)
    from vf import kit
    if P['what'] == 'mul':
        got = _val(A * B).reshape(-1)
        for i in range(2):
            g = kit.signed(env, got[i], p)
            e = Av[i] * Bv[i]
            env.check(f'A*B[{i}]:within_one_unit', (g * S - e < S) & (e - g * S < S))
        got = _val(A + B).reshape(-1)
        for i in range(2):
            env.check(f'A+B[{i}]:exact', (got[i] - (Av[i] + Bv[i])) % p == 0)
    elif P['what'] == 'matmul':
        g = kit.signed(env, _val(A @ B), p)
        e = Av[0] * Bv[0] + Av[1] * Bv[1]
        env.check('A@B:within_one_unit', (g * S - e < S) & (e - g * S < S))
    else:
        Mv, M = _secarr(env, np, st, 'm', (2, 2), -S, S, integral=False)
        got = _val(M @ B).reshape(-1)
        for i in range(2):
            g = kit.signed(env, got[i], p)
            e = Mv[i, 0] * Bv[0] + Mv[i, 1] * Bv[1]
            env.check(f'M@B[{i}]:within_one_unit', (g * S - e < S) & (e - g * S < S))
        got = _val(np.outer(A, B)).reshape(-1)
        for i in range(2):
            for j in range(2):
                g = kit.signed(env, got[2 * i + j], p)
                e = Av[i] * Bv[j]
                env.check(f'outer[{i},{j}]:within_one_unit', (g * S - e < S) & (e - g * S < S))


def h_cmp(env):
    P = env.params
    l = 3
    k, mpc, np = _kit(env, ideal_zero_test=False, fork_mod=1 << (l + 1))
    _ideal_np_bits(env, k, mpc, np)
    _ideal_np_zero_test(env, k, mpc, np)
    if P['what'] not in ('lt', 'eq', 'sgn'):
        _ideal_np_sgn(env, k, mpc, np)
    st = mpc.SecInt(l)
    F = st.field
    p = F.modulus
    n = P['n']
    h = 1 << (l - 1)
    R = type(mpc)
    env.encoded(R.np_sgn, R.np_less, R.np_equal, R.np_minimum, R.np_maximum, R.np_amin, R.np_amax, R.np_argmin, R.np_argmax, R.np_sort, R._np_is_zero, R.np_is_zero_public)
    Av, A = _secarr(env, np, st, 'a', (n,), -h, h)
    from vf import kit
    what = P['what']
    sg = lambda v: kit.signed(env, v, p)
    if what in ('lt', 'eq', 'min', 'max'):
        Bv, B = _secarr(env, np, st, 'b', (n,), -h, h)
        if what == 'lt':
            got = _val(A < B).reshape(-1)
            for i in range(n):
                env.check(f'A<B[{i}]', got[i] == env.ite(Av[i] < Bv[i], 1, 0))
        elif what == 'eq':
            got = _val(A == B).reshape(-1)
            for i in range(n):
                env.check(f'A==B[{i}]', got[i] == env.ite(Av[i] == Bv[i], 1, 0))
        elif what == 'min':
            got = _val(np.minimum(A, B)).reshape(-1)
            for i in range(n):
                env.check(f'minimum[{i}]', sg(got[i]) == env.ite(Av[i] < Bv[i], Av[i], Bv[i]))
        else:
            got = _val(np.maximum(A, B)).reshape(-1)
            for i in range(n):
                env.check(f'maximum[{i}]', sg(got[i]) == env.ite(Av[i] < Bv[i], Bv[i], Av[i]))
    elif what == 'sgn':
        got = _val(mpc.np_sgn(A)).reshape(-1)
        for i in range(n):
            env.check(f'sgn[{i}]', sg(got[i]) == env.ite(Av[i] < 0, -1, env.ite(Av[i] == 0, 0, 1)))
    else:
        mn, mx = Av[0], Av[0]
        imn, imx = 0, 0
        for i in range(1, n):
            imn = env.ite(Av[i] < mn, i, imn)
            mn = env.ite(Av[i] < mn, Av[i], mn)
            imx = env.ite(Av[i] > mx, i, imx)
            mx = env.ite(Av[i] > mx, Av[i], mx)
        if what == 'amin_amax':
            env.check('amin', sg(_val(np.amin(A))) == mn)
            env.check('amax', sg(_val(np.amax(A))) == mx)
        elif what == 'arg':
            env.check('argmin', _val(np.argmin(A)) == imn)
            env.check('argmax', _val(np.argmax(A)) == imx)
        else:
            got = _val(np.sort(A)).reshape(-1)
            for i in range(n):
                lt = sum(env.b2i(x < sg(got[i])) for x in Av)
                le = sum(env.b2i(x <= sg(got[i])) for x in Av)
                env.check(f'sort[{i}]:is_order_statistic', env.all([lt <= i, le > i, env.any(x == sg(got[i]) for x in Av)]))


def _pickle_tokens(env, sim):
    """array payloads (pickle.dumps of object arrays / field arrays) cross the simulated wire as tokens when they hold symbolic entries."""
    if env.mode != 'sym':
        return
    import pickle as real_pickle
    from vf import kit, symx
    table = sim.table

    def has_sym(o):
        v = getattr(o, 'value', o)
        try:
            return any(isinstance(x, symx.SymInt) for x in v.reshape(-1))
        except AttributeError:
            return isinstance(v, symx.SymInt)

    def dumps(o, *a, **kw):
        if has_sym(o):
            tok = kit.Token(b'\xf5PKL' + len(table).to_bytes(8, 'little'))
            table[bytes(tok)] = ('pickle', o)
            return tok
        return real_pickle.dumps(o, *a, **kw)

    def loads(data, *a, **kw):
        data = bytes(data)
        if data in table and table[data][0] == 'pickle':
            o = table[data][1]
            return o.copy() if hasattr(o, 'copy') else o
        return real_pickle.loads(data, *a, **kw)
    shim = type('pickle_shim', (), dict(dumps=staticmethod(dumps), loads=staticmethod(loads)))
    for party in sim.parties:
        for mname in ('mpyc.runtime', 'mpyc.asyncoro'):
            mod = party.mods.get(mname)
            if mod is not None and 'pickle' in mod.__dict__:
                mod.__dict__['pickle'] = shim
    env.stubs.add('pickle.dumps/loads of arrays with symbolic entries -> token table (the byte format of pickled arrays is not modelled)')


def h_io(env):
    """m parties: array input, elementwise product with array resharing, array output; every party must obtain NumPy's result."""
    _numpy_on()
    from vf import simnet, l1, kit
    P = env.params
    m, t, prss = P['m'], P['t'], P['prss']
    sim = simnet.Sim(env, m, t, ['-K', '30'] + ([] if prss else ['--no-prss']))
    _pickle_tokens(env, sim)
    X = [env.fresh(f'x{i}', -8, 8) for i in range(2)]
    Y = [env.fresh(f'y{i}', -8, 8) for i in range(2)]

    async def body(party):
        mpc = party.mpc
        np = party.mods['mpyc.numpy'].np
        st = mpc.SecInt(8)
        F = st.field
        i = party.pid
        a = mpc.input(st.array(F.array(_arr(np, X if i == 0 else [0, 0], (2,)))), senders=0)
        b = mpc.input(st.array(F.array(_arr(np, Y if i == 1 else [0, 0], (2,)))), senders=1)
        c = a * b
        d = c + a
        e = a @ b
        oc = await mpc.output(c)
        od = await mpc.output(d)
        oe = await mpc.output(e)
        oa = await mpc.output(a, receivers=0)
        return [int_(v) for v in oc], [int_(v) for v in od], int_(oe), (None if oa is None else [int_(v) for v in oa]), F.modulus

    def int_(v):
        return getattr(v, 'value', v)
    sim.start(body)
    res = l1.guarded_run(env, sim)
    R = type(sim.parties[0].mpc)
    env.encoded(R.input, R.output, R.np_multiply, R.np_matmul, R._reshare, sim.parties[0].thresha.np_random_split, sim.parties[0].thresha.np_recombine)
    if res is None:
        return
    for pid, (oc, od, oe, oa, p) in enumerate(res):
        for j in range(2):
            env.check(f'a*b[{j}]@{pid}', (oc[j] - X[j] * Y[j]) % p == 0)
            env.check(f'a*b+a[{j}]@{pid}', (od[j] - (X[j] * Y[j] + X[j])) % p == 0)
        env.check(f'a@b@{pid}', (oe - (X[0] * Y[0] + X[1] * Y[1])) % p == 0)
        if pid == 0:
            for j in range(2):
                env.check(f'output(a,receivers=0)[{j}]@0', oa is not None and (oa[j] - X[j]) % p == 0)
        else:
            env.check(f'output(a,receivers=0)@{pid}:None', oa is None)


def h_twin(env):
    """twin: claims that A @ B is the elementwise product summed over the wrong axis: must come back violated."""
    k, mpc, np = _kit(env)
    st = mpc.SecInt(8)
    p = st.field.modulus
    Av, A = _secarr(env, np, st, 'a', (2, 2), -8, 8)
    Bv, B = _secarr(env, np, st, 'b', (2, 2), -8, 8)
    _cmp_arrays(env, np, 'matmul_is_transposed', _val(A @ B), (Av @ Bv).T, p)


def instances(tier):
    q = tier == 'quick'
    out = []
    T = dict(timeout=1800, max_paths=50000, n_validate=1, goal_timeout_ms=120000)
    for (m, t) in ((3, 1), (5, 2)):
        out.append(Inst(f'sharing:split[m={m},t={t},p=101]', h_sharing, dict(m=m, t=t, p=101, what='split'), **T))
        for what in ('prss', 'prss0'):
            out.append(Inst(f'sharing:{what}[m={m},t={t},p=101]', h_sharing, dict(m=m, t=t, p=101, what=what), **T))
    out.append(Inst('sharing:prss[m=3,t=1,p=101,bound=16]', h_sharing, dict(m=3, t=1, p=101, what='prss', bound=16), **T))
    shp = [((2, 2), (2, 2)), ((2, 2), (2,)), ((2, 1), (1, 2))] + ([] if q else [((3,), (3,))])
    for kind in ('int', 'fld'):
        for (sa, sb) in shp:
            out.append(Inst(f'arith[{kind},{sa}x{sb}]', h_arith, dict(type=kind, shapes=[list(sa), list(sb)], group='elementwise'), **T))
        mm = [((2, 2), (2, 2)), ((2, 2), (2,)), ((2,), (2,))] + ([] if q else [((2, 3), (3, 2))])
        for (sa, sb) in mm:
            out.append(Inst(f'matmul[{kind},{sa}@{sb}]', h_arith, dict(type=kind, shapes=[list(sa), list(sb)], group='matmul'), **T))
        out.append(Inst(f'reductions[{kind},(2,2)]', h_arith, dict(type=kind, shapes=[[2, 2], [2, 2]], group='reduce'), **T))
    out.append(Inst('shapes[(2,3)]', h_shapes, {}, **T))
    for shp3 in ([(1, 2, 3)] if q else [(1, 2, 3), (2, 2, 2)]):
        out.append(Inst(f'reduce3d[{shp3}]', h_reduce3d, dict(shape=list(shp3)), **T))
    out.append(Inst('fxp:mul[8:4]', h_fxp, dict(what='mul'), **T))
    out.append(Inst('fxp:matmul[8:4]', h_fxp, dict(what='matmul'), **T))
    out.append(Inst('fxp:matmul2d_outer[8:4]', h_fxp, dict(what='matmul2'), **T))
    for what in ('lt', 'eq', 'sgn', 'min', 'max', 'amin_amax', 'arg', 'sort'):
        out.append(Inst(f'cmp:{what}[l=3,n=2]', h_cmp, dict(what=what, n=2), **T))
        if not q and what in ('amin_amax', 'arg', 'sort'):
            out.append(Inst(f'cmp:{what}[l=3,n=3]', h_cmp, dict(what=what, n=3), **T))
    for (m, t) in ((3, 1),) if q else ((3, 1), (4, 1), (5, 2)):
        for prss in (True, False):
            out.append(Inst(f'io[m={m},t={t},prss={int(prss)}]', h_io, dict(m=m, t=t, prss=prss), **T))
    out.append(Inst('twin_matmul_is_transposed', h_twin, {}, twin=True, expect='violated'))
    return out
