"""C07 input / output / transfer reach exactly the designated parties (real runtime in simnet, payload values symbolic)."""
import itertools
from vf.runner import Inst
from vf import l1, simnet, kit

PROPERTY = 'C07'
LEVEL = 'model_checking'
ENGINE = 'simnet'
BOUNDS = {'quick': dict(configs='(3,1) PRSS on/off, (4,1) PRSS on', senders='all non-empty subsets (list form) and int form',
                        receivers='all subsets incl. empty, int form incl. 0, range form', thresholds='t..2t',
                        transfer='6 sender/receiver graphs in dict and pair-list form, sender/receiver subsets'),
          'thorough': dict(configs='(2,0),(3,1),(4,1) x PRSS on/off with all subsets; (5,2) x PRSS on/off sampled as in the quick tier', senders='all non-empty subsets', receivers='all subsets',
                           thresholds='t..2t', transfer='all bipartite subsets for m<=3, 6 graphs otherwise')}
OUTSIDE = ['m > 5', 'payload types other than secure integers / field elements / picklable tuples', 'secure floats (C05)']
ASSUMPTIONS = ['serialisation round trip (C22)', 'canonical schedule (C08 covers schedules)']
LEVEL_TEXT = ('Bounded symbolic model checking of the real input/_distribute/output/transfer code in the m-party simulator: routing '
              'arguments (sender and receiver sets, graphs, thresholds) are enumerated, the payload values and all dealer randomness are '
              'solver variables; obligations: each receiver obtains exactly the designated senders\' values in sender order, '
              'non-receivers obtain None, all receivers agree.')
LEVEL_NOTE = 'Trusted: z3, shadow-int engine, simnet. The routing dimension is enumerated, the value dimension is decided by the solver.'


def _subsets(m, nonempty=False):
    out = []
    for k in range(1 if nonempty else 0, m + 1):
        out += [list(S) for S in itertools.combinations(range(m), k)]
    return out


def h_io(env):
    """input from `senders`, output to `receivers` with `threshold`."""
    P = env.params
    m, t, prss = P['m'], P['t'], P['prss']
    senders, receivers, thr = P['senders'], P['receivers'], P['threshold']
    l = 8
    X = [env.fresh(f'x{i}', -128, 128) for i in range(m)]
    Y = [env.fresh(f'y{i}', -128, 128) for i in range(m)]
    sim = simnet.Sim(env, m, t, ['-K', '30'] + ([] if prss else ['--no-prss']))

    async def prog(party):
        mpc = party.mpc
        secint = mpc.SecInt(l)
        F = secint.field
        i = party.pid
        # every party passes its own private values; only the senders' are used
        a = mpc.input(secint(F(X[i])), senders=senders)
        b = mpc.input([secint(F(X[i])), secint(F(Y[i]))], senders=senders)
        res = {}
        kw = {'raw': True} if thr is None else {'threshold': thr, 'raw': True}
        if isinstance(senders, int):
            res['a'] = await mpc.output(a, receivers=receivers, **kw)
            res['b'] = await mpc.output(b, receivers=receivers, **kw)
            res['shape'] = ('scalar', 'list2')
        else:
            res['a'] = await mpc.output(list(a), receivers=receivers, **kw)
            res['b'] = [await mpc.output(list(bi), receivers=receivers, **kw) for bi in b]
            res['shape'] = (len(a), [len(bi) for bi in b])
        # secret input by a sender opens to that sender's value (default receivers)
        s0 = senders if isinstance(senders, int) else senders[0]
        own = mpc.input(secint(F(X[i])), senders=s0)
        res['own'] = await mpc.output(own, raw=True)
        res['p'] = F.modulus
        return res
    sim.start(prog)
    results = l1.guarded_run(env, sim)
    if results is None:
        return
    R = type(sim.parties[0].mpc)
    env.encoded(R.input, R._distribute, R.output)
    slist = [senders] if isinstance(senders, int) else list(senders)
    rlist = list(range(m)) if receivers is None else ([receivers] if isinstance(receivers, int) else list(receivers))
    p = results[0]['p']

    def sv(x):
        return kit.signed(env, x.value, p)
    for pid, res in enumerate(results):
        is_recv = pid in rlist
        if isinstance(senders, int):
            a, b = res['a'], res['b']
            if is_recv:
                env.eq(f'a@{pid}', sv(a), X[senders])
                env.eq(f'b0@{pid}', sv(b[0]), X[senders])
                env.eq(f'b1@{pid}', sv(b[1]), Y[senders])
            else:
                env.check(f'a_none@{pid}', a is None)
                env.check(f'b_none@{pid}', b == [None, None])
        else:
            env.check(f'len_a@{pid}', len(res['a']) == len(slist))
            env.check(f'len_b@{pid}', len(res['b']) == len(slist))
            for j, s in enumerate(slist):
                if is_recv:
                    env.eq(f'a[{j}]@{pid}', sv(res['a'][j]), X[s])
                    env.eq(f'b[{j}][0]@{pid}', sv(res['b'][j][0]), X[s])
                    env.eq(f'b[{j}][1]@{pid}', sv(res['b'][j][1]), Y[s])
                else:
                    env.check(f'a_none[{j}]@{pid}', res['a'][j] is None)
                    env.check(f'b_none[{j}]@{pid}', res['b'][j] == [None, None])
        env.eq(f'own@{pid}', sv(res['own']), X[slist[0]])


GRAPHS = {
    'ring': lambda m: {i: [(i + 1) % m] for i in range(m)},
    'star_out': lambda m: {0: list(range(1, m)), **{i: [] for i in range(1, m)}},
    'star_in': lambda m: {**{i: [0] for i in range(1, m)}, 0: []},
    'self_and_next': lambda m: {i: [i, (i + 1) % m] for i in range(m)},
    'sparse': lambda m: {i: ([m - 1] if i == 0 else []) for i in range(m)},
    'complete': lambda m: {i: list(range(m)) for i in range(m)},
}


def h_transfer(env):
    """transfer() of picklable payloads along graphs / sender-receiver subsets (concrete payload tokens; pure routing)."""
    P = env.params
    m, t = P['m'], P['t']
    sim = simnet.Sim(env, m, t, ['-K', '30'] + ([] if P['prss'] else ['--no-prss']))
    form = P['form']
    if form in ('dict', 'pairs'):
        g = GRAPHS[P['graph']](m)
        sr = g if form == 'dict' else [(a, b) for a in g for b in g[a]]
        kwargs = dict(sender_receivers=sr)
        arcs = {(a, b) for a in g for b in g[a]}
        recv_order = {b: ([a for a in g if b in g[a]] if form == 'dict' else [a for (a, bb) in sr if bb == b]) for b in range(m)}
    else:
        snd, rcv = P['senders'], P['receivers']
        kwargs = {}
        if snd is not None:
            kwargs['senders'] = snd
        if rcv is not None:
            kwargs['receivers'] = rcv
        sl = list(range(m)) if snd is None else ([snd] if isinstance(snd, int) else list(snd))
        rl = list(range(m)) if rcv is None else ([rcv] if isinstance(rcv, int) else list(rcv))
        recv_order = {b: (sl if b in rl else []) for b in range(m)}

    async def prog(party):
        mpc = party.mpc
        obj = ('payload', party.pid, [party.pid * 7, {'k': b'\x00\xff'}])
        r = await mpc.transfer(obj, **kwargs)
        return r
    sim.start(prog)
    results = l1.guarded_run(env, sim)
    if results is None:
        return
    env.encoded(type(sim.parties[0].mpc).transfer)
    # a dummy symbolic variable keeps the instance inside the common evidence format (routing is concrete)
    z = env.fresh('z', 0, 2)
    env.check('trivially_true_marker', (z == 0) | (z == 1))
    for b in range(m):
        want = [('payload', a, [a * 7, {'k': b'\x00\xff'}]) for a in recv_order[b]]
        got = results[b]
        if form == 'subsets' and isinstance(P['senders'], int):
            want = want[0] if want else None
            env.check(f'transfer@{b}', got == want if b in rl else got in (None, [], want))
        else:
            env.check(f'transfer@{b}', got == want)


def h_twin(env):
    """twin: claims a non-receiver obtains the value: must come back violated."""
    m, t = 3, 1
    X = [env.fresh(f'x{i}', -128, 128) for i in range(m)]
    sim = simnet.Sim(env, m, t, ['-K', '30'])

    async def prog(party):
        mpc = party.mpc
        secint = mpc.SecInt(8)
        a = mpc.input(secint(secint.field(X[party.pid])), senders=0)
        return await mpc.output(a, receivers=[1])
    sim.start(prog)
    results = sim.run_canonical()
    env.check('non_receiver_gets_value', results[2] is not None)


def instances(tier):
    out = []
    cfgs = [(3, 1, True), (3, 1, False), (4, 1, True)] if tier == 'quick' else \
        [(m, t, prss) for (m, t) in [(2, 0), (3, 1), (4, 1), (5, 2)] for prss in (True, False)]
    for (m, t, prss) in cfgs:
        send_specs = [0, m - 1] + [s for s in _subsets(m, nonempty=True)]
        recv_specs = [None, 0, m - 1, range(1, m)] + _subsets(m)
        sampled = tier == 'quick' or m >= 5        # m = 5: 31 x 36 subset pairs x thresholds do not fit the thorough budget: sampled like the quick tier
        if sampled:
            send_specs = [0, m - 1, [1], [0, 2], list(range(m)), [2, 0]]
            recv_specs = [None, 0, 1, [], [0], [1, 2], list(range(m)), range(1, m)]
        for s in send_specs:
            for r in recv_specs:
                thrs = [None] if sampled and not (s == 0 and r in (None, 0)) else [None] + list(range(t, 2 * t + 1))
                for thr in thrs:
                    if sampled and (send_specs.index(s) + recv_specs.index(r)) % 3 != 0 and not (r == 0 or r == [] or s == 0):
                        continue
                    out.append(Inst(f'io[m={m},t={t},prss={int(prss)},S={s},R={r},thr={thr}]', h_io,
                                    dict(m=m, t=t, prss=prss, senders=s, receivers=r if not isinstance(r, range) else r, threshold=thr),
                                    timeout=600))
        for g in GRAPHS:
            for form in ('dict', 'pairs'):
                out.append(Inst(f'transfer[m={m},t={t},prss={int(prss)},{g},{form}]', h_transfer,
                                dict(m=m, t=t, prss=prss, graph=g, form=form), timeout=600, n_validate=0))
        for snd, rcv in [(None, None), (0, None), (None, 0), ([1, 2] if m > 2 else [1], [0]), (m - 1, [0, 1]), ([0], []), (range(1, m), range(0, 2))]:     # m = 2 has no party 2
            out.append(Inst(f'transfer[m={m},t={t},prss={int(prss)},S={snd},R={rcv}]', h_transfer,
                            dict(m=m, t=t, prss=prss, form='subsets', senders=snd, receivers=rcv), timeout=600, n_validate=0))
    out.append(Inst('twin_non_receiver_gets_value', h_twin, {}, twin=True, expect='violated'))
    return out
