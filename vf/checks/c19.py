"""C19 parties outside the receivers get no message from an output / transfer.

The wire log of the simulator (every transport write, parsed into frames) of a program with the output is
compared with the same program without it: frame counts towards every non-receiver must be equal, and the
receivers get frames exactly from their t predecessors.  Values are symbolic (token payloads); the routing
dimension is enumerated."""
import itertools
import struct
from vf.runner import Inst
from vf import l1, simnet, kit

PROPERTY = 'C19'
LEVEL = 'model_checking'
ENGINE = 'simnet'
BOUNDS = {'quick': dict(configs='(3,1) PRSS on/off, (4,1), (5,2) PRSS on', receivers='all proper subsets (list), int forms incl. 0, empty',
                        thresholds='default and 2t', transfer='graphs ring/star/sparse'),
          'thorough': dict(configs='(2,0),(3,1),(4,1),(5,2) x PRSS on/off', receivers='all subsets', thresholds='t..2t', transfer='6 graphs')}
OUTSIDE = ['secure floats output to a subset (their _output deals fresh shares to non-receivers; float layer is C05, not applicable)',
           'secure groups (C28)', 'information-theoretic content of the frames that *are* sent (C13/C14/C18)']
ASSUMPTIONS = ['canonical schedule', 'a frame is attributed to an operation by differential frame counts per directed connection']
LEVEL_TEXT = ('Bounded check on the real runtime in the m-party simulator with symbolic payloads: for every receiver set in the bound, the '
              'frames each party receives are diffed against the same run without the output; obligations are that non-receivers get no '
              'additional frame and receivers obtain the value. The solver decides the value obligations; the routing is enumerated.')
LEVEL_NOTE = 'Trusted: simnet wire log, z3, shadow-int engine. Solver content is thin here (stated in DESIGN.md).'


def frames(sim):
    """parse every directed byte stream of the run into (label, size) frames (after the handshake)."""
    out = {}
    streams = {}
    for (src, dst, data) in sim.net.wire:
        streams.setdefault((src, dst), bytearray()).extend(data)
    for c in sim.net.conns:
        client, server = c.pids
        for (src, dst) in ((client, server), (server, client)):
            b = bytes(streams.get((src, dst), b''))
            off = 0
            if src == client:
                # handshake: pid + PRSS keys
                rt = sim.parties[dst].mpc
                nkeys = 0 if rt.options.no_prss else rt._prss_keys_from_peer(src) // 16
                off = 2 + 16 * nkeys
            fr = []
            while off + 12 <= len(b):
                pc, n = struct.unpack_from('<qI', b, off)
                fr.append((pc, n))
                off += 12 + n
            out[(src, dst)] = fr
    return out


def _run(env, m, t, prss, receivers, thr, with_output, kind):
    X = [env.fresh(f'x{i}', -128, 128) for i in range(3)]
    sim = simnet.Sim(env, m, t, ['-K', '30'] + ([] if prss else ['--no-prss']))

    async def prog(party):
        mpc = party.mpc
        secint = mpc.SecInt(8)
        F = secint.field
        a = mpc.input(secint(F(X[party.pid % 3])), senders=0)
        b = mpc.input(secint(F(X[party.pid % 3])), senders=1)
        y = a * b + a
        await mpc.gather(y)
        r = 'skipped'
        if with_output:
            kw = {} if thr is None else {'threshold': thr}
            if kind == 'secint':
                r = await mpc.output(y, receivers=receivers, raw=True, **kw)
            else:
                sh = await mpc.gather(y)
                r = await mpc.output(sh, receivers=receivers, **kw)
        return r, F.modulus
    sim.start(prog)
    res = l1.guarded_run(env, sim)
    return X, sim, res


def h_output(env):
    P = env.params
    m, t, prss, receivers, thr = P['m'], P['t'], P['prss'], P['receivers'], P['threshold']
    X, sim1, res1 = _run(env, m, t, prss, receivers, thr, True, P['kind'])
    X, sim0, res0 = _run(env, m, t, prss, receivers, thr, False, P['kind'])
    if res1 is None or res0 is None:
        return
    env.encoded(type(sim1.parties[0].mpc).output)
    f1, f0 = frames(sim1), frames(sim0)
    rlist = list(range(m)) if receivers is None else ([receivers] if isinstance(receivers, int) else list(receivers))
    p = res1[0][1]
    want = X[0] * X[1] + X[0]
    env.assume((want >= -128) & (want < 128))
    tt = t if thr is None else thr
    for dst in range(m):
        extra = {src: len(f1.get((src, dst), [])) - len(f0.get((src, dst), [])) for src in range(m) if src != dst}
        if dst not in rlist:
            env.check(f'no_frame_to_non_receiver@{dst}', all(v == 0 for v in extra.values()))
            env.check(f'non_receiver_none@{dst}', res1[dst][0] is None)
        else:
            senders = {(dst - tt + j) % m for j in range(tt)}
            env.check(f'frames_from_t_predecessors@{dst}', all((v == 1) == (src in senders) and v in (0, 1) for src, v in extra.items()))
            env.eq(f'value@{dst}', kit.signed(env, res1[dst][0].value, p), want)


def h_transfer(env):
    P = env.params
    m, t, prss = P['m'], P['t'], P['prss']
    from vf.checks.c07 import GRAPHS
    g = GRAPHS[P['graph']](m)
    z = env.fresh('z', 0, 2)

    def run(with_op):
        sim = simnet.Sim(env, m, t, ['-K', '30'] + ([] if prss else ['--no-prss']))

        async def prog(party):
            mpc = party.mpc
            if with_op:
                return await mpc.transfer(('obj', party.pid), sender_receivers=g)
            return None
        sim.start(prog)
        return sim, l1.guarded_run(env, sim)
    sim1, r1 = run(True)
    sim0, r0 = run(False)
    if r1 is None or r0 is None:
        return
    env.encoded(type(sim1.parties[0].mpc).transfer)
    f1, f0 = frames(sim1), frames(sim0)
    env.check('marker', (z == 0) | (z == 1))
    for src in range(m):
        for dst in range(m):
            if src == dst:
                continue
            extra = len(f1.get((src, dst), [])) - len(f0.get((src, dst), []))
            env.check(f'arc[{src}->{dst}]', extra == (1 if dst in g[src] else 0))


def h_twin(env):
    """twin: claims a receiver gets no frame: must come back violated."""
    X, sim1, res1 = _run(env, 3, 1, True, [1], None, True, 'secint')
    X, sim0, res0 = _run(env, 3, 1, True, [1], None, False, 'secint')
    f1, f0 = frames(sim1), frames(sim0)
    extra = sum(len(f1.get((s, 1), [])) - len(f0.get((s, 1), [])) for s in (0, 2))
    env.check('receiver_gets_no_frame', extra == 0)


def instances(tier):
    out = []
    cfgs = [(3, 1, True), (3, 1, False), (4, 1, True), (5, 2, True)] if tier == 'quick' else \
        [(m, t, prss) for (m, t) in [(2, 0), (3, 1), (4, 1), (5, 2)] for prss in (True, False)]
    for (m, t, prss) in cfgs:
        recs = [0, m - 1, []] + [list(S) for k in range(1, m) for S in itertools.combinations(range(m), k)]
        if tier == 'quick' and m > 3:
            recs = [0, [], [1], [0, 2], list(range(1, m))]
        for r in recs:
            for thr in ([None, 2 * t] if t else [None]):
                for kind in (('secint', 'field') if (m == 3 and thr is None) else ('secint',)):
                    out.append(Inst(f'output[m={m},t={t},prss={int(prss)},R={r},thr={thr},{kind}]', h_output,
                                    dict(m=m, t=t, prss=prss, receivers=r, threshold=thr, kind=kind), timeout=600))
        for g in (('ring', 'star_out', 'sparse') if tier == 'quick' else ('ring', 'star_out', 'star_in', 'self_and_next', 'sparse', 'complete')):
            out.append(Inst(f'transfer[m={m},t={t},prss={int(prss)},{g}]', h_transfer, dict(m=m, t=t, prss=prss, graph=g),
                            timeout=600, n_validate=0))
    out.append(Inst('twin_receiver_gets_no_frame', h_twin, {}, twin=True, expect='violated'))
    return out
