"""C38 secure polynomial arithmetic agrees with plain polynomial arithmetic (partial: ring operations, shifts, truncation, coefficient access,
evaluation, selection, degree, equality; real mpyc.secpols code at m=1 on symbolic coefficient arrays, NumPy from the offline wheelhouse)."""
from vf.runner import Inst
from vf.checks import c37

PROPERTY = 'C38'
LEVEL = 'model_checking'
BOUNDS = {'quick': dict(fields='GF(5), GF(7)', lengths='coefficient arrays of (public) length 3 and 2, every coefficient symbolic (so every secret degree below the length bound, including the zero polynomial)',
                        ops='+ - * neg (also with a public gfpx polynomial operand), << >> truncate, a[i], a(x) for secret and public x, if_else / if_swap with equal and unequal lengths, copy; degree, == and != over GF(3) and GF(5) only',
                        parties='m=1'),
          'thorough': dict(fields='GF(5), GF(7), GF(11)', lengths='(3,2), (3,3), (4,2)')}
OUTSIDE = ['divmod / // / %, gcd, gcdext, invert, powmod, is_irreducible, monic, reverse, < <= > >= (they open a masked polynomial and invert it publicly, or run towers of zero tests on secret data: not explored)',
           'party configurations m > 1 and input/output of secure polynomials', 'fields beyond the bound', 'the claim "only the length bound is public" (an information-flow property of the whole class)']
ASSUMPTIONS = ['secure array arithmetic (C37)', 'field arithmetic (C20)']
LEVEL_TEXT = ('Bounded and partial: for coefficient arrays of the stated lengths over small prime fields, with all coefficients symbolic, the results of the listed secpoly operations equal '
              'the coefficient formulas of polynomial arithmetic over GF(p) (zero-padded to the public length bound). Division-based methods are NOT covered.')
LEVEL_NOTE = 'Trusted: z3, shadow-int engine, NumPy object-array arithmetic. Most methods named in the property are outside the claim (listed).'


def _setup(env):
    k, mpc, np = c37._kit(env)
    sp = k.mods.get('mpyc.secpols')
    if sp is None:
        import importlib, sys
        saved = {n: m for n, m in sys.modules.items() if n == 'mpyc' or n.startswith('mpyc.')}
        sys.modules.update(k.mods)
        try:
            sp = importlib.import_module('mpyc.secpols')
        finally:
            pass
        k.mods['mpyc.secpols'] = sp
        if env.mode == 'sym':
            from vf import symx
            sp.__dict__['int'] = symx.IntShim
    return k, mpc, np, sp


def _poly(env, np, st, sp, name, n, p):
    vs = [env.fresh(f'{name}{i}', 0, p) for i in range(n)]
    A = st.array(st.field.array(c37._arr(np, vs, (n,))))
    return vs, sp.secpoly(A)


def _coeffs(P):
    v = c37._val(P.share if hasattr(P, 'share') and hasattr(P.share, 'share') else P)
    return list(v.reshape(-1))


def _cmp_poly(env, label, got, want, p):
    """coefficientwise equality mod p with zero padding (the length of a secure polynomial is only a public bound)."""
    n = max(len(got), len(want))
    g = list(got) + [0] * (n - len(got))
    w = list(want) + [0] * (n - len(want))
    for i in range(n):
        env.check(f'{label}[{i}]', (g[i] - w[i]) % p == 0)


def _conv(a, b):
    if not a or not b:
        return []
    out = [0] * (len(a) + len(b) - 1)
    for i, x in enumerate(a):
        for j, y in enumerate(b):
            out[i + j] = out[i + j] + x * y
    return out


def h_ring(env):
    P = env.params
    p, (la, lb) = P['p'], P['lens']
    k, mpc, np, sp = _setup(env)
    st = mpc.SecFld(p)
    env.encoded(sp.secpoly._add, sp.secpoly._sub, sp.secpoly._mul, sp.secpoly._lshift, sp.secpoly._rshift, sp.secpoly._if_else, sp.secpoly._if_swap,
                sp.secpoly.__call__, sp.secpoly.__getitem__, sp.secpoly.truncate)
    a, A = _poly(env, np, st, sp, 'a', la, p)
    b, B = _poly(env, np, st, sp, 'b', lb, p)
    C = lambda lab, got, want: _cmp_poly(env, lab, _coeffs(got), want, p)
    pad = lambda x, n: list(x) + [0] * (n - len(x))
    n = max(la, lb)
    C('a+b', A + B, [x + y for x, y in zip(pad(a, n), pad(b, n))])
    C('b+a', B + A, [x + y for x, y in zip(pad(a, n), pad(b, n))])
    C('a-b', A - B, [x - y for x, y in zip(pad(a, n), pad(b, n))])
    C('b-a', B - A, [y - x for x, y in zip(pad(a, n), pad(b, n))])
    C('-a', -A, [-x for x in a])
    C('a*b', A * B, _conv(a, b))
    C('b*a', B * A, _conv(a, b))
    gf = k.mods['mpyc.gfpx'].GFpX(p)
    pub = gf([1, 2, 3][:lb])
    C('a+public', A + pub, [x + y for x, y in zip(pad(a, n), pad([1, 2, 3][:lb], n))])
    C('a*public', A * pub, _conv(a, [1, 2, 3][:lb]))
    C('public-a', pub - A, [y - x for x, y in zip(pad(a, n), pad([1, 2, 3][:lb], n))])
    C('a<<2', A << 2, [0, 0] + a)
    C('a>>1', A >> 1, a[1:])
    C('a>>la', A >> la, [])
    C('truncate', A.truncate(2), a[:2])
    C('copy', A.copy(), a)
    for i in range(la + 1):
        env.check(f'a[{i}]', (c37._val(A[i]) - (a[i] if i < la else 0)) % p == 0)
    x = env.fresh('x', 0, p)
    ev = sum(a[i] * x ** i for i in range(la))
    env.check('a(secret x)', (c37._val(A(st(st.field(x)))) - ev) % p == 0)
    env.check('a(2)', (c37._val(A(2)) - sum(a[i] * 2 ** i for i in range(la))) % p == 0)
    cb = env.fresh('c', 0, 2)
    c = st(st.field(cb))
    sel = sp.secpoly.if_else(c, A, B)
    C('if_else', sel, [env.ite(cb == 1, x_, y_) for x_, y_ in zip(pad(a, n), pad(b, n))])
    s1, s2 = sp.secpoly.if_swap(c, A, B)
    C('if_swap[0]', s1, [env.ite(cb == 1, y_, x_) for x_, y_ in zip(pad(a, n), pad(b, n))])
    C('if_swap[1]', s2, [env.ite(cb == 1, x_, y_) for x_, y_ in zip(pad(a, n), pad(b, n))])
    A2 = sp.secpoly(A.share.copy())
    sel2 = sp.secpoly.if_else(c, A, A2 + A)
    C('if_else_equal_lengths', sel2, [env.ite(cb == 1, x_, 2 * x_) for x_ in a])


def h_degree(env):
    """degree, == and != : built on zero tests of secret coefficients (Fermat powers over the small field)."""
    P = env.params
    p, n = P['p'], P['n']
    k, mpc, np, sp = _setup(env)
    st = mpc.SecFld(p)
    env.encoded(sp.secpoly._degree, sp.secpoly.__eq__, sp.secpoly.__ne__)
    a, A = _poly(env, np, st, sp, 'a', n, p)
    what = P['what']
    if what == 'degree':
        d = c37._val(A.degree())
        want = -1
        for i in range(n):
            want = env.ite(a[i] != 0, i, want)
        env.check('degree', (d - want) % p == 0)
    else:
        b, B = _poly(env, np, st, sp, 'b', P.get('nb', n), p)
        nb = len(b)
        nn = max(n, nb)
        same = env.all([(list(a) + [0] * (nn - n))[i] == (list(b) + [0] * (nn - nb))[i] for i in range(nn)])
        env.check('==', c37._val(A == B) == env.ite(same, 1, 0))
        env.check('!=', c37._val(A != B) == env.ite(same, 0, 1))


def h_twin(env):
    """twin: claims (a*b)[1] == a[1]*b[1]: must come back violated."""
    k, mpc, np, sp = _setup(env)
    st = mpc.SecFld(5)
    a, A = _poly(env, np, st, sp, 'a', 2, 5)
    b, B = _poly(env, np, st, sp, 'b', 2, 5)
    env.check('product_is_coefficientwise', (_coeffs(A * B)[1] - a[1] * b[1]) % 5 == 0)


def instances(tier):
    q = tier == 'quick'
    out = []
    T = dict(timeout=1800, max_paths=50000, n_validate=1, goal_timeout_ms=120000)
    for p in ((5, 7) if q else (5, 7, 11)):
        for lens in ([(3, 2)] if q else [(3, 2), (3, 3), (4, 2)]):
            out.append(Inst(f'ring[GF({p}),lens={lens}]', h_ring, dict(p=p, lens=list(lens)), **T))
    for p in (3, 5):         # zero tests are Fermat powers a^(p-1) of secret coefficients: the degree goal over GF(7) came back unknown after 100 s
        out.append(Inst(f'degree[GF({p}),n=3]', h_degree, dict(p=p, n=3, what='degree'), **T))
        out.append(Inst(f'eq[GF({p}),n=2]', h_degree, dict(p=p, n=2, what='eq'), **T))
    if not q:
        out.append(Inst('eq[GF(7),n=2]', h_degree, dict(p=7, n=2, what='eq'), **T))
    out.append(Inst('eq[GF(5),lens 3,2]', h_degree, dict(p=5, n=3, nb=2, what='eq'), **T))
    out.append(Inst('twin_product_is_coefficientwise', h_twin, {}, twin=True, expect='violated'))
    return out
