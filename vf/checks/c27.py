"""C27 finite groups (partial): generic repeat on the free cyclic model, symmetric groups, quadratic-residue and Schnorr groups over small primes."""
from vf.runner import Inst

PROPERTY = 'C27'
LEVEL = 'model_checking'
BOUNDS = {'quick': dict(repeat='FiniteGroupElement.repeat for every integer n with |n| < 64 (symbolic n, free cyclic model: exponent arithmetic in Z)',
                        sym='Sym(n), n<=3: all pairs / triples of permutations (value forks): associativity, identity, inverses, repeat',
                        qr_schnorr='QR(p) for p in {7,11,23}, Schnorr groups (p,q) in {(23,11),(29,7)}: every element (value forks): closure, identity, inverse, repeat |n|<=12, generator order, encode/decode',
                        ),
          'thorough': dict(repeat='|n| < 512', sym='n<=4 pairs', qr_schnorr='plus p in {47,59}')}
OUTSIDE = ['elliptic curves altogether (Edwards and Weierstrass, every coordinate system): the agreement of the coordinate systems as rational-function identities over the 255/448/256-bit primes of the built-in curves came back unknown from the solver (harness h_curve kept, not registered);', 'associativity of elliptic-curve addition, generator orders of the built-in curves, the curve equation being preserved (needs the group law theory of the curve)',
           'hyperelliptic curve divisors and class groups (Cantor / NUCOMP composition with data-dependent polynomial gcds)',
           'encode/decode for curves (Legendre-symbol search on symbolic data)', 'exceptional cases of the Weierstrass formulas beyond those listed (point at infinity, P = -Q)']
ASSUMPTIONS = ['field arithmetic (C20)']
LEVEL_TEXT = ('Bounded and partial: (a) the generic double-and-add repeat computes the n-fold product for every integer n of the bound (symbolic n); (b) small concrete groups by complete '
              'value forking with the group laws as obligations; elliptic curves, hyperelliptic divisors and class groups are NOT covered.')
LEVEL_NOTE = 'Trusted: z3, shadow-int engine (fraction view). Large parts of the property are outside the claim (listed).'


def _load(env):
    from vf import kit
    mods = kit.import_plain('mpyc.fingroups', 'mpyc.finfields', 'mpyc.gfpx', 'mpyc.gmpy')
    party = kit.install(env, mods, 0, prf_stub=False, rand_stub=False)
    return party.fingroups, party.finfields


def h_repeat(env):
    """free cyclic model: elements are exponents of an abstract generator; operation = +, inversion = -."""
    P = env.params
    fg, ff = _load(env)
    env.encoded(fg.FiniteGroupElement.repeat)
    nops = [0]

    class Z(fg.FiniteGroupElement):
        __slots__ = ()
        is_additive = False
        is_multiplicative = True

        def __init__(self, value=0):
            self.value = value

        @classmethod
        def operation(cls, a, b):
            nops[0] += 1
            return cls(a.value + b.value)

        @classmethod
        def inversion(cls, a):
            return cls(-a.value)

        @classmethod
        def equality(cls, a, b):
            return a.value == b.value
    Z.identity = Z(0)
    e = env.fresh('e', -5, 6)
    n = env.fresh('n', -P['N'], P['N'])
    r = Z.repeat(Z(e), n)
    env.eq('repeat', r.value, n * e)
    r2 = Z(e) ^ n
    env.eq('xor_operator', r2.value, n * e)
    r3 = Z(e) ** n
    env.eq('pow_operator', r3.value, n * e)
    env.check('logarithmic_number_of_operations', nops[0] <= 6 * (2 * P['N']).bit_length())


def h_sym(env):
    P = env.params
    fg, ff = _load(env)
    n, k = P['n'], P['k']
    G = fg.SymmetricGroup(n)
    env.encoded(fg.SymmetricGroupElement.operation, fg.SymmetricGroupElement.inversion, fg.SymmetricGroupElement.equality)
    import itertools
    perms = list(itertools.permutations(range(n)))
    idx = [env.fresh(f'i{j}', 0, len(perms)) for j in range(k)]
    idx = [x.__index__() if env.mode == 'sym' else x for x in idx]
    a, b = G(perms[idx[0]]), G(perms[idx[1]])
    c = G(perms[idx[2]]) if k == 3 else G.identity
    e = G.identity
    env.check('closure', set((a @ b).value) == set(range(n)))
    env.check('assoc', (a @ b) @ c == a @ (b @ c))
    env.check('identity', a @ e == a and e @ a == a)
    env.check('inverse', a @ ~a == e and ~a @ a == e)
    env.check('composition_first_p_then_q', all((a @ b).value[j] == b.value[a.value[j]] for j in range(n)))
    for m in (-3, -1, 0, 1, 2, 5):
        w = e
        for _ in range(abs(m)):
            w = w @ (a if m > 0 else ~a)
        env.check(f'repeat{m}', (a ^ m) == w)
    env.check('order', G.order == len(perms))
    z = env.fresh('z', 0, 2)
    env.check('marker', z >= 0)


def h_qr(env):
    P = env.params
    fg, ff = _load(env)
    kind = P['kind']
    if kind == 'qr':
        G = fg.QuadraticResidues(p=P['p'])
        p = P['p']
    else:
        G = fg.SchnorrGroup(p=P['p'], q=P['q'])
        p = P['p']
    env.encoded(type(G.identity).operation, type(G.identity).inversion, type(G.identity).repeat)
    order = G.order
    members = sorted({pow(v, (p - 1) // order, p) for v in range(1, p)})
    env.check('order_matches_subgroup', len(members) == order)
    i = env.fresh('i', 0, order)
    j = env.fresh('j', 0, order)
    i = i.__index__() if env.mode == 'sym' else i
    j = j.__index__() if env.mode == 'sym' else j
    a, b = G(members[i]), G(members[j])
    e = G.identity
    env.check('closure', int(a @ b) % p in members)
    env.check('operation', int(a @ b) % p == members[i] * members[j] % p)
    env.check('commutative', a @ b == b @ a)
    env.check('identity', a @ e == a)
    env.check('inverse', a @ ~a == e)
    for m in (-12, -2, -1, 0, 1, 3, 12):
        env.check(f'repeat{m}', int(a ^ m) % p == pow(members[i], m, p))
    g = G.generator
    env.check('generator_order', int(g ^ order) % p == 1 and all(int(g ^ d) % p != 1 for d in range(1, order) if order % d == 0))
    if kind == 'schnorr':
        msg = j % min(order, 8)
        M, Z = G.encode(msg)
        env.check('decode(encode(m))', G.decode(M, Z) == msg)
    else:
        gap = G.gap
        msg = j % max(1, (p // gap) // 2)
        try:
            M, Z = G.encode(msg)
            env.check('decode(encode(m))', G.decode(M, Z) == msg)
        except ValueError:
            env.check('encode_may_fail_only_with_small_gap', gap < 128 or p < 256)
    for bad in [0] + [v for v in range(1, p) if v not in members]:          # every non-member of the field (squares outside the subgroup included)
        try:
            G(bad)
            env.check('non_member_rejected', False)
        except ValueError:
            env.check('non_member_rejected', True)
    z = env.fresh('z', 0, 2)
    env.check('marker', z >= 0)


def _pt(env, C, name, p):
    """symbolic affine point (coordinates arbitrary field values; the formula identities do not need the curve equation)"""
    F = C.field
    x = env.fresh(name + 'x', 0, p)
    y = env.fresh(name + 'y', 0, p)
    return x, y


def _feq(env, u, v, p):
    """u == v in GF(p) for values that may carry a fraction view"""
    if env.mode == 'sym' and (getattr(u, 'frac', None) is not None or getattr(v, 'frac', None) is not None):
        return u == v
    return (u - v) % p == 0


def h_curve(env):
    P = env.params
    fg, ff = _load(env)
    name, what = P['curve'], P['what']
    fam = P['family']
    coords = ('affine', 'projective', 'extended') if fam == 'edwards' else ('affine', 'projective', 'jacobian')
    Cs = {c: fg.EllipticCurve(name, c) for c in coords}
    A = Cs['affine']
    F = A.field
    p = F.modulus
    env.encoded(*[getattr(Cs[c], m) for c in coords for m in ('operation', 'operation2', 'inversion', 'normalize')])
    x1, y1 = _pt(env, A, 'P', p)
    x2, y2 = _pt(env, A, 'Q', p)

    def mk(C, x, y):
        if C is A:
            return C((F(x), F(y)), check=False)
        if fam == 'edwards' and C is Cs['extended']:
            return C((F(x), F(y), F(x) * F(y), F(1)), check=False)
        return C((F(x), F(y), F(1)), check=False)
    res = {}
    for c in coords:
        C = Cs[c]
        Pt, Qt = mk(C, x1, y1), mk(C, x2, y2)
        if what == 'add':
            R = C.operation(Pt, Qt)
        elif what == 'double':
            R = C.operation2(Pt)
        else:
            R = C.inversion(Pt)
        R = R.normalize()
        res[c] = (R[0].value, R[1].value)
    if fam == 'weierstrass' and what == 'add':
        env.assume((x1 - x2) % p != 0, note='Weierstrass addition of points with distinct x (the exceptional cases branch separately)')
    base = res[coords[1]]
    for c in coords:
        if c == coords[1]:
            continue
        env.check(f'{what}:{c}=={coords[1]}:x', _feq(env, res[c][0], base[0], p))
        env.check(f'{what}:{c}=={coords[1]}:y', _feq(env, res[c][1], base[1], p))


def h_twin(env):
    """twin: claims repeat(a, n) has exponent n+1: must come back violated."""
    fg, ff = _load(env)

    class Z(fg.FiniteGroupElement):
        __slots__ = ()

        def __init__(self, value=0):
            self.value = value

        @classmethod
        def operation(cls, a, b):
            return cls(a.value + b.value)

        @classmethod
        def inversion(cls, a):
            return cls(-a.value)
    Z.identity = Z(0)
    n = env.fresh('n', 1, 8)
    env.eq('off_by_one', Z.repeat(Z(1), n).value, n + 1)


def instances(tier):
    q = tier == 'quick'
    out = []
    T = dict(timeout=1800, max_paths=100000, n_validate=1, goal_timeout_ms=120000)
    out.append(Inst(f'repeat[|n|<{64 if q else 512}]', h_repeat, dict(N=64 if q else 512), **T))
    for n, k in ((2, 3), (3, 3)) + (() if q else ((4, 2),)):
        out.append(Inst(f'Sym({n})[{k} elements]', h_sym, dict(n=n, k=k), **T))
    for p in ((7, 11, 23) if q else (7, 11, 23, 47, 59)):
        out.append(Inst(f'QR({p})', h_qr, dict(kind='qr', p=p), **T))
    for (p, qq) in ((23, 11), (29, 7)):
        out.append(Inst(f'Schnorr({p},{qq})', h_qr, dict(kind='schnorr', p=p, q=qq), **T))
    # h_curve (coordinate systems of the built-in curves as rational-function identities) is not registered: the identities over 255/448-bit primes came back unknown
    out.append(Inst('twin_off_by_one', h_twin, {}, twin=True, expect='violated'))
    return out
