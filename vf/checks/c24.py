"""C24 irreducibility tests and irreducible-modulus search (real gfpx _is_irreducible / _next_irreducible, finfields.find_irreducible, GF/xGF
acceptance of polynomial moduli; the polynomial is a solver variable forced to each value of the bound, the reference is an independent
divisor search)."""
from vf.runner import Inst

PROPERTY = 'C24'
LEVEL = 'model_checking'
BOUNDS = {'quick': dict(p2='all polynomials of degree <= 5 over GF(2) (binary representation)', p3='degree <= 3 over GF(3)', p5='degree <= 2 over GF(5)',
                        search='next_irreducible from every polynomial of the bound; find_irreducible(p, d) for p^d <= 243; GF(modulus) for every modulus of degree 2..3'),
          'thorough': dict(p2='degree <= 7', p3='degree <= 4', p5='degree <= 3', p7='degree <= 2')}
OUTSIDE = ['degrees and characteristics beyond the bounds (the Ben-Or test uses towers of Frobenius powers: each polynomial is a separate concrete computation once its value is fixed)']
ASSUMPTIONS = ['polynomial arithmetic of C23']
LEVEL_TEXT = ('Bounded: the polynomial (as its integer encoding) is a solver variable that the code forces to a concrete value (one path per value, completeness of the case split '
              'certified by the solver); per value the verdict of the real test is compared with an independent reference (no monic divisor of degree 1..deg/2, computed by plain '
              'remainders), next_irreducible with the smallest larger irreducible of the reference, find_irreducible with the smallest monic irreducible of the degree, and GF() '
              'accepts the modulus exactly when the reference says irreducible.')
LEVEL_NOTE = 'Trusted: z3 (case split completeness), the reference divisor search in this file. Solver content is thin: the Ben-Or computation is concrete per value.'


# ---- independent reference on coefficient lists of plain ints

def ref_digits(a, p):
    out = []
    while a:
        a, r = divmod(a, p)
        out.append(r)
    return out


def ref_rem(a, b, p):
    a = list(a)
    inv = pow(b[-1], -1, p)
    while len(a) >= len(b):
        c = a[-1] * inv % p
        if c:
            for i in range(len(b)):
                a[len(a) - len(b) + i] = (a[len(a) - len(b) + i] - c * b[i]) % p
        a.pop()
        while a and a[-1] == 0:
            a.pop()
    return a


def ref_irreducible(a, p):
    """a: integer encoding; irreducible iff degree >= 1 and no monic divisor of degree 1..deg//2"""
    A = ref_digits(a, p)
    d = len(A) - 1
    if d < 1:
        return False
    for e in range(1, d // 2 + 1):
        for low in range(p ** e):
            B = ref_digits(low, p)
            B = B + [0] * (e - len(B)) + [1]
            if not ref_rem(A, B, p):
                return False
    return True


def _load(env):
    from vf import kit
    mods = kit.import_plain('mpyc.gfpx', 'mpyc.gmpy', 'mpyc.finfields')
    party = kit.install(env, mods, 0, prf_stub=False, rand_stub=False)
    return party.gfpx, party.finfields


def h_irreducible(env):
    P_ = env.params
    p, lo, hi = P_['p'], P_['lo'], P_['hi']
    gfpx, ff = _load(env)
    P = gfpx.GFpX(p)
    env.encoded(P._is_irreducible, P._next_irreducible, P._powmod, P._gcd)
    a = env.fresh('a', lo, hi)
    av = a.__index__() if env.mode == 'sym' else a
    poly = P(av)
    want = ref_irreducible(av, p)
    env.check('is_irreducible', P.is_irreducible(poly) == want)
    env.check('is_irreducible_accepts_int', P.is_irreducible(av) == want)
    if P_.get('next', True):
        nxt = int(P.next_irreducible(poly))
        ref = av + 1
        while not (ref_irreducible(ref, p) and ref_digits(ref, p)[-1] == 1):
            ref += 1
        env.check('next_irreducible:monic_irreducible', ref_irreducible(nxt, p) and ref_digits(nxt, p)[-1] == 1)
        env.check('next_irreducible:greater', nxt > av)
        env.check('next_irreducible:smallest', nxt == ref)
    d = len(ref_digits(av, p)) - 1
    if P_.get('gf', True) and 2 <= d <= 3 and (p, d) != (5, 3):
        try:
            F = ff.GF(poly)
            ok = True
        except ValueError:
            ok = False
        env.check('GF_accepts_iff_irreducible', ok == want)
        if ok:
            env.check('GF_order', F.order == p ** d and F.characteristic == p and F.ext_deg == d)
    z = env.fresh('z', 0, 2)
    env.check('marker', z >= 0)


def h_find(env):
    P_ = env.params
    gfpx, ff = _load(env)
    env.encoded(ff.find_irreducible)
    x = env.fresh('pd', 0, len(P_['pairs']))
    i = x.__index__() if env.mode == 'sym' else x
    p, d = P_['pairs'][i]
    poly = ff.find_irreducible(p, d)
    v = int(poly)
    ref = p ** d
    while not ref_irreducible(ref, p):
        ref += 1
    env.check('find_irreducible:degree', poly.degree() == d)
    env.check('find_irreducible:monic', list(poly)[-1] == 1)
    env.check('find_irreducible:smallest', v == ref)
    env.check('find_irreducible:type', type(poly).p == p)
    z = env.fresh('z', 0, 2)
    env.check('marker', z >= 0)


def h_twin(env):
    """twin: claims x^2+1 is irreducible over GF(2): must come back violated."""
    gfpx, ff = _load(env)
    P = gfpx.GFpX(2)
    a = env.fresh('a', 5, 6)
    av = a.__index__() if env.mode == 'sym' else a
    env.check('x^2+1_irreducible', P.is_irreducible(P(av)) is True)


def instances(tier):
    q = tier == 'quick'
    out = []
    T = dict(timeout=1800, max_paths=100000, n_validate=1)
    spans = [(2, 0, 64 if q else 256), (3, 0, 81 if q else 243), (5, 0, 125 if q else 625)] + ([] if q else [(7, 0, 343)])
    for p, lo, hi in spans:
        step = max(8, (hi - lo) // 8)
        for s in range(lo, hi, step):
            out.append(Inst(f'irreducible[p={p},{s}..{min(s + step, hi) - 1}]', h_irreducible, dict(p=p, lo=s, hi=min(s + step, hi)), **T))
    pairs = [(2, d) for d in range(1, 8)] + [(3, d) for d in range(1, 6)] + [(5, 1), (5, 2), (5, 3), (7, 1), (7, 2), (11, 2), (13, 1)]
    out.append(Inst('find_irreducible', h_find, dict(pairs=pairs), **T))
    out.append(Inst('twin_x2+1', h_twin, {}, twin=True, expect='violated'))
    return out
