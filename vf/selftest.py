"""Engine self-test: every SymInt operator is compared with Python's int semantics on random concrete points
(the symbolic term is evaluated under the assumption var == value), and the Int->BV translator with z3's Int route."""
import random
import sys
import z3
from vf import symx, int2bv


def check_ops(seed=0, n=400):
    rnd = random.Random(seed)
    bad = []
    ops = [('+', lambda a, b: a + b), ('-', lambda a, b: a - b), ('*', lambda a, b: a * b), ('//', lambda a, b: a // b), ('%', lambda a, b: a % b),
           ('divmod', lambda a, b: divmod(a, b)[0] * 1000 + divmod(a, b)[1]), ('abs', lambda a, b: abs(a) + abs(b)), ('neg', lambda a, b: -a + b),
           ('>>', lambda a, b: a >> (abs(b) % 5)), ('<<', lambda a, b: a << (abs(b) % 5)), ('&', lambda a, b: abs(a) & 7), ('&2', lambda a, b: abs(a) & abs(b)),
           ('|', lambda a, b: abs(a) | abs(b)), ('^', lambda a, b: abs(a) ^ abs(b)), ('pow', lambda a, b: a ** 3), ('powmod', lambda a, b: pow(a, 5, 97)),
           ('%c', lambda a, b: a % 16 + a % -7), ('//c', lambda a, b: a // 4 + a // -3), ('rdiv', lambda a, b: 1000 // b + 1000 % b),
           ('cmp', lambda a, b: (1 if a < b else 0) + (2 if a == b else 0) + (4 if a >= b else 0)), ('bit_length', lambda a, b: a.bit_length())]
    for _ in range(n):
        va, vb = rnd.randint(-60, 60), rnd.choice([v for v in range(-13, 14) if v != 0])
        name, f = rnd.choice(ops)
        want = f(va, vb)

        def run():
            ctx = symx.Ctx.cur
            a = symx.SymInt(z3.Int('a'), -60, 60)
            b = symx.SymInt(z3.Int('b'), -13, 13)
            ctx.add_assumption(z3.And(z3.Int('a') == va, z3.Int('b') == vb))
            r = f(a, b)
            if isinstance(r, symx.SymBool):
                r = r._asint()
            if isinstance(r, symx.SymInt):
                s, m = ctx.model_of_path()
                return m.eval(r.t, model_completion=True).as_long()
            return r
        recs, stats = symx.explore(run)
        got = [r for _, r in recs]
        if got != [want]:
            bad.append((name, va, vb, want, got))
    return bad


def main():
    bad = check_ops()
    dis = int2bv.selftest()
    print(f'symx operator self-test: {len(bad)} mismatches; int2bv self-test: {dis} disagreements')
    for b in bad[:10]:
        print('  MISMATCH', b)
    return 1 if bad or dis else 0


if __name__ == '__main__':
    sys.exit(main())
