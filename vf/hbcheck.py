"""Common custom harness of the schedule checks C08 / C09 / C35 (see vf/hbsmt.py)."""
from vf import custom


def make_harness(what):
    @custom.guarded
    def h_program(params, seed, mode, values):
        import sys
        sys.setrecursionlimit(20000)
        import z3
        from vf import hbsmt, hbcorpus
        name, m, t, args = params['prog'], params['m'], params['t'], params['args']
        prog = hbcorpus.CORPUS[name]
        if mode == 'conc':
            return _replay(what, name, prog, m, t, args, values)
        res = custom.Result()
        p0 = None
        out = hbsmt.analyse(m, t, prog, args)
        ref = out['reference']
        p0 = ref.parties[0]
        asy = p0.mods['mpyc.asyncoro']
        res.encoded(asy._ProgramCounterWrapper.__init__, asy._ProgramCounterWrapper.__await__, asy.mpc_coro, asy._reconcile,
                    type(p0.mpc)._prss_uci, type(p0.mpc)._send_message, type(p0.mpc)._receive_message, type(p0.mpc).barrier, type(p0.mpc).shutdown,
                    asy.MessageExchanger.data_received, asy.MessageExchanger.receive)
        res.note('stubs', 'network and event loops: in-process simulator (real start()/shutdown()/MessageExchanger run unmodified)')
        res.note('assumptions', 'label hash _hop is injective on the labels of one run (64-bit tuple hash collisions are outside the claim)')
        # obligation 1: the reference run terminates with the expected results (and, per check, its label / barrier facts)
        probs = hbsmt.run_problems(name, m, ref, what)
        res.path(decisions=len(ref.net.log))
        s = z3.Solver()
        s.add(z3.BoolVal(bool(probs)))
        res.goal(f'reference_run[{"; ".join(probs)[:200]}]' if probs else 'reference_run', s, lambda mdl: dict(kind='reference'), sample=False)
        # obligations 2: no two accesses to one program-counter list by different tasks can be reordered
        for q in out['queries']:
            res.r['goals'] += 1
            res.r['solver_time'] += q.get('solver_s', 0)
            if q['verdict'] == 'unsat':
                res.r['unsat'] += 1
            elif q['verdict'] == 'sat':
                res.r['feasible_unreproduced'] = res.r.get('feasible_unreproduced', 0) + 1      # adjusted below if reproduced
            else:
                res.r['unknown'] += 1
        for c in out['confirmed']:
            res.r['feasible_unreproduced'] = max(0, res.r.get('feasible_unreproduced', 0) - 1)
            res.r['sat'] += 1
            res.r['models'].append(dict(label=f'schedule_independence[{c["pair"]}]', path=0, observed=[],
                                        values=dict(kind='perturb', w1=c['w1'], w2=c['w2'], mode=c['mode'], party=c['party'])))
        res.r['samples'] = (out['samples'] or [dict(obligation='no pair of accesses to one program-counter list by different tasks exists in the reference run '
                                                              '(single-writer discipline): no order-flip query needed', verdict='n/a')])[:3]
        res.r['pc_events'] = len(ref.net.pclog)
        res.r['candidates'] = sum(p['candidates'] for p in out['stats']['parties'])
        res.r['replays_in_analysis'] = out['stats']['replays']
        # perturbed schedules must satisfy the same facts: every sat candidate was replayed inside analyse(); additionally a fixed set of
        # structured perturbations of the reference schedule (adjacent deliveries of consecutive writes to one party)
        extra = _structured_perturbations(ref, params.get('nperturb', 3))
        for (w1, w2, pmode) in extra:
            alt = hbsmt.run_instrumented(m, t, prog, args, batch={w1: w2}) if pmode == 'batch' else \
                hbsmt.run_instrumented(m, t, prog, args, order=[w2, w1], only_party=hbsmt.wkey(ref.net, w1)[1])
            pr = hbsmt.run_problems(name, m, alt, what)
            if alt.results is not None and ref.results is not None and alt.results != ref.results and not pr:
                pr = ['outputs differ from the reference schedule']
            res.path(decisions=len(alt.net.log))
            s = z3.Solver()
            s.add(z3.BoolVal(bool(pr)))
            res.goal(f'perturbed_schedule[{pmode},{w1},{w2}]' + (f'[{"; ".join(pr)[:160]}]' if pr else ''), s,
                     lambda mdl, w1=w1, w2=w2, pmode=pmode: dict(kind='perturb', w1=w1, w2=w2, mode=pmode, party=-1), sample=False)
        res.validation(dict(kind='reference'), [])
        return res.done()
    h_program.__name__ = f'h_program_{what}'
    return h_program


def _structured_perturbations(ref, n):
    """pairs of writes to the same destination from different sources, issued close together: made adjacent / swapped."""
    from vf import hbsmt
    out = []
    ws = ref.net.writes
    for i, w in enumerate(ws):
        if w['sender_hid'] is None:
            continue
        dst = w['conn'].pids[1 - w['side']]
        for j in range(i + 1, min(i + 8, len(ws))):
            v = ws[j]
            if v['conn'] is not w['conn'] and v['conn'].pids[1 - v['side']] == dst and v['sender_hid'] is not None:
                out.append((i, j))
                break
    if not out:
        return []
    step = max(1, len(out) // n)
    picked = out[::step][:n]
    return [(a, b, 'swap' if k % 2 else 'batch') for k, (a, b) in enumerate(picked)]


def _replay(what, name, prog, m, t, args, values):
    from vf import hbsmt, hbcorpus
    kind = values.get('kind')
    fails, obs = [], []
    if kind is None:        # concrete search fallback: random schedules
        seed = values.get('__seed__', 0)
        for k in range(3):
            run = hbsmt.random_run(m, t, prog, args, seed * 10 + k)
            pr = hbsmt.run_problems(name, m, run, what)
            if pr:
                fails.append(f'random_schedule[{seed * 10 + k}]: {pr[0][:200]}')
                break
        return custom.conc_result(fails, obs, values)
    ref = hbsmt.run_instrumented(m, t, prog, args)
    pr = hbsmt.run_problems(name, m, ref, what)
    if kind == 'reference':
        if pr:
            fails.append('reference_run: ' + pr[0][:300])
        return custom.conc_result(fails, [('results', repr(ref.results)[:300])], values)
    w1, w2, pmode = values['w1'], values['w2'], values['mode']
    if pmode == 'batch':
        alt = hbsmt.run_instrumented(m, t, prog, args, batch={w1: w2})
    else:
        alt = hbsmt.run_instrumented(m, t, prog, args, order=[w2, w1], only_party=hbsmt.wkey(ref.net, w1)[1])
    pa = hbsmt.run_problems(name, m, alt, what)
    if pa:
        fails.append(f'perturbed schedule ({pmode} of writes {w1},{w2}): ' + pa[0][:300])
    elif alt.results != ref.results:
        fails.append(f'perturbed schedule ({pmode} of writes {w1},{w2}): outputs differ from the reference schedule')
    return custom.conc_result(fails, [('reference', repr(ref.results)[:200]), ('perturbed', repr(alt.results)[:200])], values)


def corpus_instances(tier, what, Inst, progs=None, extra_cfgs=()):
    from vf import hbcorpus
    q = tier == 'quick'
    cfgs = [(3, 1, []), (3, 1, ['--no-prss']), (2, 0, [])] + ([] if q else [(4, 1, []), (5, 2, ['--no-prss']), (3, 0, [])]) + list(extra_cfgs)
    out = []
    for name in (progs or hbcorpus.CORPUS):
        for (m, t, args) in cfgs:
            out.append(Inst(f'{name}[m={m},t={t}{",no-prss" if args else ""}]', make_harness(what), dict(prog=name, m=m, t=t, args=args, nperturb=3 if q else 8),
                            kind='custom', timeout=900, n_validate=1))
    return out
