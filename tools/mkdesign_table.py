#!/usr/bin/env python3
"""Emit the per-check section of DESIGN.md from the check modules themselves (bounds, exclusions, assumptions)."""
import importlib, json, os, sys
ROOT = os.path.dirname(os.path.dirname(os.path.abspath(__file__)))
sys.path.insert(0, ROOT)
props = [json.loads(l) for l in open(os.path.join(ROOT, 'properties.jsonl'))]
out = []
for p in props:
    cid = p['id']
    path = os.path.join(ROOT, 'vf', 'checks', cid.lower() + '.py')
    if not os.path.exists(path):
        continue
    mod = importlib.import_module('vf.checks.' + cid.lower())
    out.append(f"### {cid} {p['title']}\n")
    out.append(f"*Engine:* `{getattr(mod, 'ENGINE', 'symx')}` · *evidence level:* `{getattr(mod, 'LEVEL', 'model_checking')}`\n")
    out.append(f"*Decides:* {mod.LEVEL_TEXT}\n")
    b = getattr(mod, 'BOUNDS', {})
    for tier in ('quick', 'thorough'):
        if tier in b:
            out.append(f"*Bounds ({tier}):* " + '; '.join(f'{k}: {v}' for k, v in b[tier].items()) + '\n')
    if getattr(mod, 'ASSUMPTIONS', None):
        out.append('*Assumed:* ' + '; '.join(mod.ASSUMPTIONS) + '\n')
    if getattr(mod, 'OUTSIDE', None):
        out.append('*Outside the claim:* ' + '; '.join(mod.OUTSIDE) + '\n')
    out.append('')
print('\n'.join(out))
