#!/usr/bin/env python3
"""Assemble DESIGN.md: tools/design_head.md + per-check section generated from the check modules + tools/design_tail.md +
seeded-change table generated from seeded/*/meta.json (caught_by updated from .work/seedmatrix.txt when present)."""
import json, os, subprocess, sys, re
ROOT = os.path.dirname(os.path.dirname(os.path.abspath(__file__)))
mx = os.path.join(ROOT, '.work', 'seedmatrix.txt')
results = {}
if os.path.exists(mx):
    for line in open(mx):
        m = re.match(r'(\S+) (C\d\d) rc=(\d+) (\d+)s (\d+) violations', line)
        if m:
            results.setdefault(m.group(1), {})[m.group(2)] = int(m.group(3))
rows = []
for sid in sorted(os.listdir(os.path.join(ROOT, 'seeded'))):
    mp = os.path.join(ROOT, 'seeded', sid, 'meta.json')
    if not os.path.exists(mp):
        continue
    meta = json.load(open(mp))
    if sid in results:
        caught = sorted(c for c, rc in results[sid].items() if rc == 1)
        missed = sorted(c for c, rc in results[sid].items() if rc != 1)
        meta['caught_by'] = sorted(set(caught) | set(c for c in meta.get('caught_by', []) if c not in missed))
        meta['matrix'] = {c: ('VIOLATION (exit 1)' if rc == 1 else 'not detected (exit 0)' if rc == 0 else f'inconclusive (exit {rc})') for c, rc in results[sid].items()}
        json.dump(meta, open(mp, 'w'), indent=1)
    verdict = ', '.join(meta.get('caught_by') or []) or '**not detected**'
    note = meta.get('miss_reason', '')
    rows.append(f"| `{sid}` | {meta['property']} | {meta['change'][:150]} | {meta['needs_to_manifest'][:150]} | {verdict}{(' — ' + note) if note else ''} |")
table = '| seeded change | property | change | needs | detected by (exit 1 with replayed VIOLATION) |\n|---|---|---|---|---|\n' + '\n'.join(rows) + '\n'
checks = subprocess.check_output([sys.executable, os.path.join(ROOT, 'tools', 'mkdesign_table.py')]).decode()
out = open(os.path.join(ROOT, 'tools', 'design_head.md')).read() + checks + open(os.path.join(ROOT, 'tools', 'design_tail.md')).read() + table
tail2 = os.path.join(ROOT, 'tools', 'design_tail2.md')
if os.path.exists(tail2):
    out += open(tail2).read()
thor = os.path.join(ROOT, 'tools', 'thorough_runs.md')
if os.path.exists(thor):
    out += ('\n---------------------------------------------------------------------------------------\n\n'
            '## 9. End-to-end runs of the thorough commands\n\n'
            'Every `./run <Cxx> thorough` was started once end to end in the last session (16 cores shared with the quick sweeps, the seed matrix '
            'and sub-agents, so wall times are upper bounds and a few goals that are decided in seconds on an idle machine came back `unknown`). '
            'A first run that was inconclusive (exit 2: a timeout, a capped exploration or an `unknown` goal -- never reported as success) led to '
            'the resizing stated in the BOUNDS of the check (§3) and to a second run (run 2). One first run exposed a false alarm of the check '
            'itself (C07, §6). The last resizings of C01 (zero tests up to (4,1)) and C04 (no GF(8) bitwise/division, no lifted GF(9) products) were made after the runs shown for these two checks and their reruns did not fit into the session: for these two the thorough command has not been seen to exit 0 end to end, and the table says what stopped the last run; the corrected C07 command was stopped by the 3000 s limit of the sweep script with 4 workers on the loaded machine (run 2 had needed 2183 s with 8 workers; the corrected m=2 transfer instances were rerun separately and held); the quick tiers are the ones exercised '
            'by `vp check` on a fresh copy (eight requests; the last four came back without remarks, the last three of them cover all 38 checks).\n\n' + open(thor).read())
open(os.path.join(ROOT, 'DESIGN.md'), 'w').write(out)
print(len(out), 'bytes;', len(rows), 'seeded changes')
