#!/usr/bin/env python3
"""Assemble DESIGN.md: tools/design_head.md + per-check section generated from the check modules + tools/design_tail.md +
seeded-change table generated from seeded/*/meta.json (caught_by updated from .work/seedmatrix.txt when present)."""
import json, os, subprocess, sys, re
ROOT = os.path.dirname(os.path.dirname(os.path.abspath(__file__)))
mx = os.path.join(ROOT, '.work', 'seedmatrix.txt')
results = {}
if os.path.exists(mx):
    for line in open(mx):
        m = re.match(r'(\S+) (C\d\d) rc=(\d+) (\d+)s (\d+) violations', line)
        if m:
            results.setdefault(m.group(1), {})[m.group(2)] = int(m.group(3))
rows = []
for sid in sorted(os.listdir(os.path.join(ROOT, 'seeded'))):
    mp = os.path.join(ROOT, 'seeded', sid, 'meta.json')
    if not os.path.exists(mp):
        continue
    meta = json.load(open(mp))
    if sid in results:
        caught = sorted(c for c, rc in results[sid].items() if rc == 1)
        missed = sorted(c for c, rc in results[sid].items() if rc != 1)
        meta['caught_by'] = sorted(set(caught) | set(c for c in meta.get('caught_by', []) if c not in missed))
        meta['matrix'] = {c: ('VIOLATION (exit 1)' if rc == 1 else 'not detected (exit 0)' if rc == 0 else f'inconclusive (exit {rc})') for c, rc in results[sid].items()}
        json.dump(meta, open(mp, 'w'), indent=1)
    verdict = ', '.join(meta.get('caught_by') or []) or '**not detected**'
    note = meta.get('miss_reason', '')
    rows.append(f"| `{sid}` | {meta['property']} | {meta['change'][:150]} | {meta['needs_to_manifest'][:150]} | {verdict}{(' — ' + note) if note else ''} |")
table = '| seeded change | property | change | needs | detected by (exit 1 with replayed VIOLATION) |\n|---|---|---|---|---|\n' + '\n'.join(rows) + '\n'
checks = subprocess.check_output([sys.executable, os.path.join(ROOT, 'tools', 'mkdesign_table.py')]).decode()
out = open(os.path.join(ROOT, 'tools', 'design_head.md')).read() + checks + open(os.path.join(ROOT, 'tools', 'design_tail.md')).read() + table
tail2 = os.path.join(ROOT, 'tools', 'design_tail2.md')
if os.path.exists(tail2):
    out += open(tail2).read()
open(os.path.join(ROOT, 'DESIGN.md'), 'w').write(out)
print(len(out), 'bytes;', len(rows), 'seeded changes')
