#!/bin/bash
# tools/trymut.sh <patch.diff> <Cxx> [tier] [filter]: apply a seeded change to /repo, run a check, undo.
P=$(realpath "$1"); shift
cd /repo && git apply "$P" || exit 3
cd /verif && ./run "$@"; rc=$?
git -C /repo checkout -- . 
echo "exit=$rc"
