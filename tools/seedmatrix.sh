#!/bin/bash
# tools/seedmatrix.sh [ids...]: run every seeded change against the check of its property (and listed extra checks) in a scratch
# worktree of /repo (VF_REPO), so that /repo itself is never modified.  Output: one line per (seed, check) in .work/seedmatrix.txt
cd "$(dirname "$0")/.."
WT=/tmp/vf_seed_wt
git -C /repo worktree remove --force $WT 2>/dev/null; rm -rf $WT
git -C /repo worktree add -q $WT HEAD || exit 3
mkdir -p .work; out=.work/seedmatrix.txt
ids="$@"; [ -z "$ids" ] && ids=$(ls seeded)
for id in $ids; do
  d=seeded/$id; [ -f $d/patch.diff ] || continue
  prop=$(python3 -c "import json;print(json.load(open('$d/meta.json'))['property'])")
  extra=$(python3 -c "import json;print(' '.join(json.load(open('$d/meta.json')).get('also_run',[])))")
  git -C $WT checkout -q -- . ; git -C $WT apply $(realpath $d/patch.diff) || { echo "$id APPLYFAIL" >> $out; continue; }
  for c in $prop $extra; do
    [ -f vf/checks/$(echo $c | tr A-Z a-z).py ] || { echo "$id $c nocheck" >> $out; continue; }
    s=$(date +%s)
    VF_REPO=$WT VF_EVIDENCE_DIR=/tmp/vf_seed_ev VF_WORK=/tmp/vf_seed_work VF_NPROC=6 ./run $c quick > /tmp/vf_seed_run.log 2>&1; rc=$?
    e=$(date +%s)
    echo "$id $c rc=$rc $((e-s))s $(grep -c '^VIOLATION' /tmp/vf_seed_run.log) violations :: $(grep '^VIOLATION' /tmp/vf_seed_run.log | head -1 | cut -c1-160)" >> $out
  done
done
git -C /repo worktree remove --force $WT
echo done >> $out
