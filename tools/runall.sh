#!/bin/bash
# tools/runall.sh [tier] [ids...]: run checks, one summary line each
tier=${1:-quick}; shift
ids="$@"; [ -z "$ids" ] && ids=$(ls vf/checks/c[0-9]*.py | sed 's/.*\/c\([0-9]*\).py/C\1/')
for c in $ids; do
  s=$(date +%s); out=$(./run $c $tier 2>&1); rc=$?; e=$(date +%s)
  echo "$c rc=$rc $((e-s))s :: $(echo "$out" | grep "^$c $tier" | tail -1)"
  [ $rc -ne 0 ] && echo "$out" | grep "INCONCLUSIVE\|VIOLATION" | cut -c1-300 | head -5
done
