#!/usr/bin/env python3
"""Regenerate MANIFEST.json from the check modules that exist (vf/checks/cNN.py) and tools/na.json."""
import importlib, json, os, sys
ROOT = os.path.dirname(os.path.dirname(os.path.abspath(__file__)))
sys.path.insert(0, ROOT)
props = [json.loads(l) for l in open(os.path.join(ROOT, 'properties.jsonl'))]
na = json.load(open(os.path.join(ROOT, 'tools', 'na.json')))
checks, not_applicable = [], []
for p in props:
    cid = p['id']
    path = os.path.join(ROOT, 'vf', 'checks', cid.lower() + '.py')
    if os.path.exists(path) and cid not in na.get('force_na', {}):
        mod = importlib.import_module('vf.checks.' + cid.lower())
        checks.append(dict(
            property_id=cid,
            quick_cmd=f'./run {cid} quick',
            thorough_cmd=f'./run {cid} thorough',
            evidence_file=f'evidence/{cid}.json',
            replay_cmd_template='./run --replay {path}',
            engine=getattr(mod, 'ENGINE', 'symx'),
            level_claimed=dict(category=getattr(mod, 'LEVEL', 'model_checking'),
                               text=mod.LEVEL_TEXT, design_ref=f'DESIGN.md section 3, {cid}'),
            level_note=mod.LEVEL_NOTE,
            technique=getattr(mod, 'TECHNIQUE', 'bounded symbolic execution of the real Python code on shadow integers; obligations discharged by z3 (SMT, integer arithmetic); models replayed on the unshimmed code'),
        ))
    else:
        reason = na.get('force_na', {}).get(cid) or na['reasons'].get(cid) or 'check not built yet in this round; no claim is made'
        not_applicable.append(dict(property_id=cid, reason=reason))
base = json.load(open(os.path.join(ROOT, 'tools', 'manifest_base.json')))
base['checks'] = checks
base['not_applicable'] = not_applicable
for e in base.get('engines', []):
    e['serves_properties'] = [c['property_id'] for c in checks if c['engine'] in (e['name'], ) or e['name'] == 'symx']
json.dump(base, open(os.path.join(ROOT, 'MANIFEST.json'), 'w'), indent=1)
print(len(checks), 'checks,', len(not_applicable), 'not applicable')
