#!/bin/bash
# tools/verify_seed.sh <id> : confirm a seeded change in /tmp/mut/<id>: tests pass with it, demo fails with it, demo passes without it.
id=$1; d=/tmp/mut/$id; cd $d || exit 9
PY=${PY:-/venv/bin/python}    # demos that need NumPy: PY=/tmp/mut/npvenv/bin/python
out=$d/verify.log; : > $out
git checkout -q -- . ; 
timeout 300 $PY demo.py > $d/demo_without.log 2>&1; r0=$?
git apply patch.diff || { echo "patch does not apply" >> $out; exit 8; }
MPYC_NONUMPY=1 timeout 900 /venv/bin/python -m pytest -q -p no:cacheprovider tests > $d/tests_with.log 2>&1; rt=$?
timeout 300 $PY demo.py > $d/demo_with.log 2>&1; r1=$?
echo "id=$id demo_without_exit=$r0 tests_with_exit=$rt ($(tail -1 $d/tests_with.log)) demo_with_exit=$r1" | tee -a $out
