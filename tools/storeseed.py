#!/usr/bin/env python3
"""tools/storeseed.py <id> <change> <needs_to_manifest> [also_run,...]: copy a verified seeded change from /tmp/mut/<id> to seeded/<id>."""
import json, os, shutil, sys
sid, change, needs = sys.argv[1:4]
also = sys.argv[4].split(',') if len(sys.argv) > 4 and sys.argv[4] else []
src, dst = f'/tmp/mut/{sid}', os.path.join(os.path.dirname(os.path.abspath(__file__)), '..', 'seeded', sid)
res = open(f'{src}/verify.log').read().strip().splitlines()[-1]
assert 'demo_without_exit=0 tests_with_exit=0' in res and 'demo_with_exit=1' in res and '71 passed' in res, res
os.makedirs(dst, exist_ok=True)
for f in ('patch.diff', 'demo.py', 'notes.txt', 'verify.log'):
    shutil.copy(f'{src}/{f}', dst)
meta = dict(id=sid, property=sid.split('-')[0], change=change, needs_to_manifest=needs,
            confirmed=dict(how=f'tools/verify_seed.sh in the scratch worktree /tmp/mut/{sid}', result=res, tests_with_change='71 passed, 13 skipped',
                           demo_without_change='exit 0', demo_with_change='exit 1'),
            origin='independent sub-agent given only the property text and a scratch worktree', caught_by=[], also_run=also)
json.dump(meta, open(f'{dst}/meta.json', 'w'), indent=1)
print('stored', sid)
