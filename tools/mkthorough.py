#!/usr/bin/env python3
"""tools/mkthorough.py <log>...: summarise end-to-end runs of the thorough commands (lines written by the sweep scripts) into tools/thorough_runs.md."""
import re, sys, os
rows = {}
for f in sys.argv[1:]:
    if not os.path.exists(f):
        continue
    cur = None
    for line in open(f):
        m = re.match(r'^(C\d\d) rc=(\d+) (\d+)s ::\s?(.*)$', line.strip())
        if m:
            cid, rc, secs, rest = m.group(1), int(m.group(2)), int(m.group(3)), m.group(4)
            mm = re.search(r'thorough: (\w+); obligations (\d+)/(\d+) discharged, paths (\d+), validated (\d+)', rest)
            cur = dict(rc=rc, secs=secs, verdict=mm.group(1) if mm else ('killed by the outer time limit' if rc == 124 else '?'),
                       obl=f'{mm.group(2)}/{mm.group(3)}' if mm else '-', paths=mm.group(4) if mm else '-', validated=mm.group(5) if mm else '-', notes=[])
            rows.setdefault(cid, []).append(cur)
        elif cur is not None and line.startswith('INCONCLUSIVE'):
            cur['notes'].append(line.strip()[14:120])
out = ['| check | run | verdict | obligations discharged | paths | replays validated | wall (s, machine shared with other jobs) | remarks |', '|---|---|---|---|---|---|---|---|']
for cid in sorted(rows):
    for k, r in enumerate(rows[cid]):
        out.append(f"| {cid} | {k + 1} | {r['verdict']} (exit {r['rc']}) | {r['obl']} | {r['paths']} | {r['validated']} | {r['secs']} | {'; '.join(r['notes'][:3])} |")
open(os.path.join(os.path.dirname(os.path.abspath(__file__)), 'thorough_runs.md'), 'w').write('\n'.join(out) + '\n')
print(len(rows), 'checks')
